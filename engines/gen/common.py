"""Shared helpers of the generated-programs engine (C40/C41): deterministic RNG, scratch cargo
project management, cargo/rustc diagnostics parsing, shard report writer.  Standard library only."""
import hashlib, json, os, re, shutil, subprocess, sys, time
from concurrent.futures import ThreadPoolExecutor

ROOT = os.path.dirname(os.path.dirname(os.path.dirname(os.path.abspath(__file__))))
ENGINE_DIR = os.path.dirname(os.path.abspath(__file__))
BUILD = os.path.join(ROOT, ".build")
GEN_TARGET = os.path.join(BUILD, "gen-target")
# the code under test; VERIF_GEN_REPO lets the monitor be validated against a mutated scratch copy
REPO = os.environ.get("VERIF_GEN_REPO", "/repo")


class Rng:
    """splitmix64 based generator: identical streams on every python version."""

    def __init__(self, *seed_parts):
        h = hashlib.sha256(("/".join(str(p) for p in seed_parts)).encode()).digest()
        self.s = int.from_bytes(h[:8], "little")

    def next(self):
        self.s = (self.s + 0x9E3779B97F4A7C15) & 0xFFFFFFFFFFFFFFFF
        z = self.s
        z = ((z ^ (z >> 30)) * 0xBF58476D1CE4E5B9) & 0xFFFFFFFFFFFFFFFF
        z = ((z ^ (z >> 27)) * 0x94D049BB133111EB) & 0xFFFFFFFFFFFFFFFF
        return z ^ (z >> 31)

    def below(self, n):
        return self.next() % n if n > 0 else 0

    def range(self, lo, hi):
        """inclusive"""
        return lo + self.below(hi - lo + 1)

    def chance(self, p):
        return (self.next() >> 11) / float(1 << 53) < p

    def choice(self, seq):
        return seq[self.below(len(seq))]

    def weighted(self, pairs):
        tot = sum(w for _, w in pairs)
        x = (self.next() >> 11) / float(1 << 53) * tot
        for v, w in pairs:
            x -= w
            if x < 0:
                return v
        return pairs[-1][0]

    def shuffle(self, lst):
        for i in range(len(lst) - 1, 0, -1):
            j = self.below(i + 1)
            lst[i], lst[j] = lst[j], lst[i]


def h64(s):
    return hashlib.sha256(s.encode()).hexdigest()[:16]


def cargo_env():
    env = dict(os.environ)
    env["CARGO_NET_OFFLINE"] = "true"
    env["CARGO_TERM_COLOR"] = "never"
    env.pop("RUSTFLAGS", None)
    return env


CARGO_CONFIG = """[net]
offline = true

[build]
target-dir = "%s"
""" % GEN_TARGET
if shutil.which("ld.lld"):
    # linking dominates the build of the many small generated bins; lld halves it
    CARGO_CONFIG += """
[target.x86_64-unknown-linux-gnu]
rustflags = ["-C", "link-arg=-fuse-ld=lld"]
"""

PROFILE = """
[profile.dev]
opt-level = 0
debug = false
debug-assertions = true
overflow-checks = true
incremental = false
codegen-units = 4
panic = "unwind"
"""


def write_if_changed(path, content):
    try:
        with open(path) as fh:
            if fh.read() == content:
                return False
    except OSError:
        pass
    os.makedirs(os.path.dirname(path), exist_ok=True)
    with open(path, "w") as fh:
        fh.write(content)
    return True


def prepare_crate(crate_dir, pkg_name, deps_toml):
    """(Re)creates the scratch crate skeleton.  src/bin is emptied; Cargo.lock is a fresh copy of
    /repo/Cargo.lock so that only locked (vendored/cached) crate versions are used, offline."""
    os.makedirs(crate_dir, exist_ok=True)
    shutil.rmtree(os.path.join(crate_dir, "src"), ignore_errors=True)
    os.makedirs(os.path.join(crate_dir, "src", "bin"), exist_ok=True)
    write_if_changed(os.path.join(crate_dir, ".cargo", "config.toml"), CARGO_CONFIG)
    toml = (
        '[package]\nname = "%s"\nversion = "0.0.0"\nedition = "2024"\nautobins = true\n\n[workspace]\n\n[dependencies]\n%s\n%s'
        % (pkg_name, deps_toml, PROFILE)
    )
    write_if_changed(os.path.join(crate_dir, "Cargo.toml"), toml)
    lock = os.path.join(REPO, "Cargo.lock")
    if os.path.exists(lock):
        shutil.copy(lock, os.path.join(crate_dir, "Cargo.lock"))
    shutil.copy(os.path.join(ENGINE_DIR, "prelude.rs"), os.path.join(crate_dir, "src", "prelude.rs"))


def cargo_build(crate_dir, bins=None, timeout=1500):
    """cargo build --keep-going with JSON diagnostics.
    Returns (ok_bins:set, errors: {bin: [diag dict]}, other_output:str, rc)."""
    cmd = ["cargo", "build", "--offline", "--keep-going", "--message-format=json", "--bins"]
    t0 = time.time()
    try:
        r = subprocess.run(cmd, cwd=crate_dir, env=cargo_env(), stdout=subprocess.PIPE, stderr=subprocess.PIPE,
                           text=True, timeout=timeout)
    except subprocess.TimeoutExpired:
        return set(), {}, "cargo build timed out after %ss" % timeout, None
    ok = set()
    errors = {}
    for line in r.stdout.splitlines():
        if not line.startswith("{"):
            continue
        try:
            m = json.loads(line)
        except ValueError:
            continue
        reason = m.get("reason")
        tgt = m.get("target", {})
        is_bin = "bin" in tgt.get("kind", [])
        if reason == "compiler-artifact" and is_bin:
            ok.add(tgt.get("name"))
        elif reason == "compiler-message":
            msg = m.get("message", {})
            if msg.get("level") in ("error", "error: internal compiler error"):
                name = tgt.get("name") if is_bin else "<dep:%s>" % tgt.get("name")
                errors.setdefault(name, []).append(msg)
    for b in errors:
        ok.discard(b)
    return ok, errors, r.stderr[-4000:], r.returncode


def primary_span(diag):
    """(file_name, line, column, byte_start) of the user-code location of a diagnostic: the primary
    span, following macro expansions back to the call site in a generated file."""
    spans = diag.get("spans", [])
    cand = [s for s in spans if s.get("is_primary")] or spans
    for s in cand:
        cur = s
        # climb out of macro expansions that live outside our crate
        depth = 0
        while cur is not None and depth < 10:
            fn = cur.get("file_name", "")
            if not fn.startswith("/") or fn.startswith(BUILD):
                return fn, cur.get("line_start", 0), cur.get("column_start", 0), cur.get("byte_start", 0)
            exp = cur.get("expansion")
            cur = exp.get("span") if exp else None
            depth += 1
    for ch in diag.get("children", []):
        r = primary_span(ch)
        if r:
            return r
    return None


def diag_text(diag, limit=1200):
    txt = diag.get("rendered") or diag.get("message") or ""
    txt = re.sub(r"\x1b\[[0-9;]*m", "", txt)
    return txt[:limit]


def compact_type(t):
    """one-line rendering of a dumped member type"""
    if t is None:
        return "-"
    s = t.get("kind", "?")
    if t.get("name"):
        s += "(%s)" % t["name"]
    if t.get("bound"):
        s += "%s" % t["bound"]
    if t.get("elem"):
        s += "<%s>" % compact_type(t["elem"])
    return s


def compact_dump(t):
    """readable rendering of a dumped DynamicType for the samples in the evidence"""
    if not isinstance(t, dict):
        return t
    head = "%s name=%r ext=%s nested=%s" % (t.get("kind"), t.get("name"), t.get("ext"), t.get("nested"))
    if t.get("disc"):
        head += " discriminator=%s" % compact_type(t["disc"])
    if t.get("base"):
        head += " base=%s" % (t["base"].get("name"),)
    out = [head]
    for m in t.get("members", []):
        line = "  [%s] %r id=%s type=%s" % (m.get("index"), m.get("name"), m.get("id"), compact_type(m.get("type")))
        for k, lab in (("key", "key"), ("opt", "optional"), ("mu", "must_understand"), ("external", "external"), ("default_label", "default_label")):
            if m.get(k):
                line += " " + lab
        if m.get("labels"):
            line += " labels=%s" % m["labels"]
        out.append(line)
    return out


def normalize_rustc_msg(msg):
    """seed independent class of a rustc message: identifiers dropped, cut before the first
    ' for ' / ' in ' clause (which names concrete types)"""
    m = re.sub(r"`[^`]*`", "`_`", msg.split("\n")[0])
    m = re.sub(r"\d+", "N", m)
    m = re.split(r" for | in | is not ", m)[0]
    return m[:80]


def run_bins(paths, timeout=120, jobs=16):
    """Runs binaries in parallel; returns {path: (rc, stdout, stderr_tail)}; rc None on timeout."""
    def one(p):
        try:
            r = subprocess.run([p], stdout=subprocess.PIPE, stderr=subprocess.PIPE, text=True, timeout=timeout)
            return p, (r.returncode, r.stdout, r.stderr[-2000:])
        except subprocess.TimeoutExpired:
            return p, (None, "", "timeout")
        except OSError as ex:
            return p, (-1, "", str(ex))
    with ThreadPoolExecutor(max_workers=jobs) as ex:
        return dict(ex.map(one, paths))


class Report:
    def __init__(self, prop):
        self.prop = prop
        self.evaluations = 0
        self.nontrivial = set()
        self.violations = []
        self.vcounts = {}
        self.samples = []
        self.stats = {}
        self.maxstats = {}
        self.sets = {}
        self.inconclusive = []

    def stat(self, k, n=1):
        self.stats[k] = self.stats.get(k, 0) + n

    def maxstat(self, k, v):
        self.maxstats[k] = max(self.maxstats.get(k, v), v)

    def note(self, k, v):
        s = self.sets.setdefault(k, set())
        if len(s) < 200:
            s.add(v)

    def violation(self, sig, what, replay, keep=3):
        """counts every occurrence; keeps the `keep` smallest witnesses per signature"""
        self.vcounts[sig] = self.vcounts.get(sig, 0) + 1
        mine = [v for v in self.violations if v["sig"] == sig]
        size = len(json.dumps(replay))
        first, _, rest = what.partition("\n")
        one = first[:400]
        if rest:
            one += " | " + re.sub(r"\s+", " ", rest)[:500]
        new = {"sig": sig, "what": one, "detail": what[:4000], "replay": replay, "_size": size}
        if len(mine) < keep:
            self.violations.append(new)
        else:
            big = max(mine, key=lambda v: v["_size"])
            if size < big["_size"]:
                self.violations[self.violations.index(big)] = new

    def write(self, path):
        doc = {
            "property": self.prop,
            "evaluations": self.evaluations,
            "nontrivial": sorted(self.nontrivial),
            "violations": [{k: v for k, v in x.items() if k != "_size"} for x in self.violations],
            "violation_counts": self.vcounts,
            "samples": self.samples[:4],
            "stats": self.stats,
            "maxstats": self.maxstats,
            "sets": {k: sorted(v) for k, v in self.sets.items()},
            "inconclusive": self.inconclusive[:20],
        }
        tmp = path + ".tmp"
        os.makedirs(os.path.dirname(os.path.abspath(path)), exist_ok=True)
        with open(tmp, "w") as fh:
            json.dump(doc, fh, indent=1)
        os.replace(tmp, path)
