//! C34 — worker channels (oneshot / mpsc / notification) under real OS threads.
//!
//! One process = one group of persistent threads: the coordinator (which is also the receiver) and
//! up to 8 producer threads. Work is done in short *episodes*: the coordinator creates fresh
//! channel(s), hands sender handles + a random op plan to each active producer, releases them all at
//! once (spin barrier) and plays the receiver's plan itself. Every operation is bracketed by two
//! ticks of a global logical clock; `a.end < b.begin` means a happened-before b. After the episode
//! the per-thread logs are checked offline (see `oracle_*`).
//!
//! Lost wake-ups are decided exactly, not by a timeout: all state changes of a channel happen in a
//! sender-side critical section that must also wake the registered waker. Hence if a poll returned
//! Pending (registering waker W) and a later poll of the same wait returns Ready, W's wake counter
//! must have moved in between. A parked receiver is additionally re-polled by a watchdog
//! (`park_timeout`) and kicked by finishing producers, so a lost wake-up never hangs the run; it shows
//! up as "Ready after Pending with an unchanged wake counter".
use crate::wk::{Clock, WakeState, spin, spin_until, waker};
use dust_dds::verif_hooks::channels::mpsc::{MpscSender, mpsc_channel};
use dust_dds::verif_hooks::channels::notification::{NotificationSender, notification};
use dust_dds::verif_hooks::channels::oneshot::{OneshotSender, oneshot};
use std::future::Future;
use std::pin::{Pin, pin};
use std::sync::atomic::{AtomicBool, AtomicU64, AtomicUsize, Ordering};
use std::sync::{Arc, Mutex};
use std::task::{Context, Poll};
use std::thread::{self, Thread};
use std::time::{Duration, Instant};
use vcore::{Args, Json, Report, Rng, fnv, mix};

const MAX_PROD: usize = 8;
const BATCH: u64 = 256;

// ------------------------------------------------------------------------------------------ logs

#[derive(Clone, Copy, Debug, PartialEq)]
enum K {
    Send,    // a = value, ok = result
    Notify,  //
    Clone,   // a = 0
    DropTx,  //
    OsSend,  // a = channel index
    OsDrop,  // a = channel index
    DropRx,  // a = channel index (0 for mpsc/notification)
}

#[derive(Clone, Copy, Debug)]
struct Ev {
    th: u8, // producer index, 255 = coordinator/receiver
    k: K,
    a: u64,
    b: u64,
    e: u64,
    ok: bool,
}

#[derive(Clone, Copy, Debug, PartialEq)]
enum Out {
    Pending,
    Val(u64),
    Ok,
    Closed,
}

#[derive(Clone, Copy, Debug)]
struct PollEv {
    chan: u32,
    b: u64,
    e: u64,
    out: Out,
    /// Ready although the previous poll of the same wait was Pending and no wake was counted since
    lost_wake: bool,
    /// how long the receiver had been waiting (ms) when that happened
    waited_ms: u32,
}

// ------------------------------------------------------------------------------------------ work

#[derive(Clone, Copy, Debug)]
enum POp {
    Send,
    Notify,
    CloneSwap,
    CloneHold,
    DropHeld,
    Spin(u32),
    Yield,
    Os(usize, bool), // index into txs, send?
}

enum Work {
    Mpsc { tx: MpscSender<u64>, ops: Vec<POp> },
    Notif { tx: NotificationSender, ops: Vec<POp> },
    Oneshot { txs: Vec<(u32, Option<OneshotSender<u64>>)>, ops: Vec<POp> },
}

struct Shared {
    clock: Clock,
    /// (batch id << 8) | active producers
    batchword: AtomicU64,
    epoch: AtomicU64,
    done: AtomicUsize,
    stop: AtomicBool,
    /// (epoch the work belongs to, work)
    work: Vec<Mutex<Option<(u64, Work)>>>,
    logs: Vec<Mutex<Vec<Ev>>>,
    recv_thread: Thread,
}

fn producer_main(p: usize, sh: Arc<Shared>) {
    let mut seen_epoch = 0u64;
    let mut log: Vec<Ev> = Vec::with_capacity(64);
    loop {
        if sh.stop.load(Ordering::SeqCst) {
            return;
        }
        let bw = sh.batchword.load(Ordering::SeqCst);
        let active = (bw & 0xff) as usize;
        if p >= active {
            // not used in this batch: sleep until the batch changes
            while sh.batchword.load(Ordering::SeqCst) == bw && !sh.stop.load(Ordering::SeqCst) {
                thread::park_timeout(Duration::from_millis(200));
            }
            continue;
        }
        spin_until(|| {
            sh.epoch.load(Ordering::SeqCst) != seen_epoch
                || sh.batchword.load(Ordering::SeqCst) != bw
                || sh.stop.load(Ordering::SeqCst)
        });
        if sh.batchword.load(Ordering::SeqCst) != bw || sh.stop.load(Ordering::SeqCst) {
            continue;
        }
        seen_epoch = sh.epoch.load(Ordering::SeqCst);
        let work = {
            let mut g = sh.work[p].lock().unwrap();
            if matches!(&*g, Some((t, _)) if *t == seen_epoch) { g.take() } else { None }
        };
        if let Some((_, w)) = work {
            log.clear();
            run_producer(p as u8, w, &sh.clock, &mut log);
            {
                let mut l = sh.logs[p].lock().unwrap();
                l.clear();
                l.extend_from_slice(&log);
            }
            sh.done.fetch_add(1, Ordering::SeqCst);
            // harness kick (not a channel wake): lets a parked receiver notice that producers finished
            sh.recv_thread.unpark();
        }
    }
}

fn run_producer(th: u8, w: Work, clock: &Clock, log: &mut Vec<Ev>) {
    match w {
        Work::Mpsc { tx, ops } => {
            let mut held = vec![tx];
            let mut ctr = 0u64;
            for op in ops {
                match op {
                    POp::Send => {
                        let v = ((th as u64) << 32) | ctr;
                        ctr += 1;
                        let b = clock.tick();
                        let r = held.last().unwrap().send(v);
                        let e = clock.tick();
                        log.push(Ev { th, k: K::Send, a: v, b, e, ok: r.is_ok() });
                    }
                    POp::CloneSwap => {
                        let b = clock.tick();
                        let c = held.last().unwrap().clone();
                        let e = clock.tick();
                        log.push(Ev { th, k: K::Clone, a: 0, b, e, ok: true });
                        let old = held.pop().unwrap();
                        let b = clock.tick();
                        drop(old);
                        let e = clock.tick();
                        log.push(Ev { th, k: K::DropTx, a: 0, b, e, ok: true });
                        held.push(c);
                    }
                    POp::CloneHold => {
                        let b = clock.tick();
                        let c = held.last().unwrap().clone();
                        let e = clock.tick();
                        log.push(Ev { th, k: K::Clone, a: 0, b, e, ok: true });
                        held.push(c);
                    }
                    POp::DropHeld => {
                        if held.len() > 1 {
                            let old = held.remove(0);
                            let b = clock.tick();
                            drop(old);
                            let e = clock.tick();
                            log.push(Ev { th, k: K::DropTx, a: 0, b, e, ok: true });
                        }
                    }
                    POp::Spin(n) => spin(n),
                    POp::Yield => thread::yield_now(),
                    _ => {}
                }
            }
            for old in held {
                let b = clock.tick();
                drop(old);
                let e = clock.tick();
                log.push(Ev { th, k: K::DropTx, a: 0, b, e, ok: true });
            }
        }
        Work::Notif { tx, ops } => {
            let mut held = vec![tx];
            for op in ops {
                match op {
                    POp::Notify => {
                        let b = clock.tick();
                        held.last().unwrap().notify();
                        let e = clock.tick();
                        log.push(Ev { th, k: K::Notify, a: 0, b, e, ok: true });
                    }
                    POp::CloneSwap => {
                        let b = clock.tick();
                        let c = held.last().unwrap().clone();
                        let e = clock.tick();
                        log.push(Ev { th, k: K::Clone, a: 0, b, e, ok: true });
                        let old = held.pop().unwrap();
                        let b = clock.tick();
                        drop(old);
                        let e = clock.tick();
                        log.push(Ev { th, k: K::DropTx, a: 0, b, e, ok: true });
                        held.push(c);
                    }
                    POp::CloneHold => {
                        let b = clock.tick();
                        let c = held.last().unwrap().clone();
                        let e = clock.tick();
                        log.push(Ev { th, k: K::Clone, a: 0, b, e, ok: true });
                        held.push(c);
                    }
                    POp::DropHeld => {
                        if held.len() > 1 {
                            let old = held.remove(0);
                            let b = clock.tick();
                            drop(old);
                            let e = clock.tick();
                            log.push(Ev { th, k: K::DropTx, a: 0, b, e, ok: true });
                        }
                    }
                    POp::Spin(n) => spin(n),
                    POp::Yield => thread::yield_now(),
                    _ => {}
                }
            }
            for old in held {
                let b = clock.tick();
                drop(old);
                let e = clock.tick();
                log.push(Ev { th, k: K::DropTx, a: 0, b, e, ok: true });
            }
        }
        Work::Oneshot { mut txs, ops } => {
            for op in ops {
                match op {
                    POp::Os(i, send) => {
                        let (chan, tx) = &mut txs[i];
                        let tx = tx.take().unwrap();
                        let chan = *chan as u64;
                        let b = clock.tick();
                        if send {
                            tx.send(1000 + chan);
                        } else {
                            drop(tx);
                        }
                        let e = clock.tick();
                        log.push(Ev { th, k: if send { K::OsSend } else { K::OsDrop }, a: chan, b, e, ok: true });
                    }
                    POp::Spin(n) => spin(n),
                    POp::Yield => thread::yield_now(),
                    _ => {}
                }
            }
        }
    }
}

// ------------------------------------------------------------------------------------------ receiver

#[derive(Clone, Copy, Debug, PartialEq)]
enum Mode {
    Park,
    Busy,
    Mixed,
}

#[derive(Default)]
struct Counters {
    pending: u64,
    wake_checks: u64,
    parks: u64,
    watchdog_repolls: u64,
    spurious_repolls: u64,
    wakes: u64,
}

struct RecvCtx<'a> {
    sh: &'a Shared,
    active: usize,
    rng: Rng,
    mode: Mode,
    switch_waker: bool,
    spurious: bool,
    watchdog: Duration,
    polls: Vec<PollEv>,
    c: Counters,
    stalled: bool,
    ep_start: Instant,
}

#[derive(Debug, PartialEq)]
enum WaitRes {
    Out(Out),
    /// all producers had finished before the last poll started and that poll was Pending
    GaveUp,
}

impl RecvCtx<'_> {
    /// `once`: poll exactly once.
    fn wait<F: Future>(&mut self, mut f: Pin<&mut F>, chan: u32, once: bool, map: impl Fn(F::Output) -> Out) -> WaitRes {
        let mode = match self.mode {
            Mode::Mixed => {
                if self.rng.bool() {
                    Mode::Park
                } else {
                    Mode::Busy
                }
            }
            m => m,
        };
        let ws = WakeState::new(if mode == Mode::Park { Some(thread::current()) } else { None });
        let w1 = waker(&ws);
        let w2 = waker(&ws);
        let mut last_pending: Option<usize> = None;
        let t_wait = Instant::now();
        loop {
            let done_before = self.sh.done.load(Ordering::SeqCst) >= self.active;
            let w_before = ws.count();
            let wk = if self.switch_waker && self.rng.bool() { &w2 } else { &w1 };
            let mut cx = Context::from_waker(wk);
            let b = self.sh.clock.tick();
            let r = f.as_mut().poll(&mut cx);
            let e = self.sh.clock.tick();
            match r {
                Poll::Ready(v) => {
                    let out = map(v);
                    let w_after = ws.count();
                    let lost = last_pending == Some(w_after);
                    if last_pending.is_some() {
                        self.c.wake_checks += 1;
                    }
                    self.c.wakes += w_after as u64;
                    self.polls.push(PollEv {
                        chan,
                        b,
                        e,
                        out,
                        lost_wake: lost,
                        waited_ms: t_wait.elapsed().as_millis().min(u32::MAX as u128) as u32,
                    });
                    return WaitRes::Out(out);
                }
                Poll::Pending => {
                    self.c.pending += 1;
                    self.polls.push(PollEv { chan, b, e, out: Out::Pending, lost_wake: false, waited_ms: 0 });
                    last_pending = Some(w_before);
                    if done_before || once {
                        self.c.wakes += ws.count() as u64;
                        return WaitRes::GaveUp;
                    }
                    if self.ep_start.elapsed() > Duration::from_secs(30) {
                        self.stalled = true;
                        return WaitRes::GaveUp;
                    }
                    match mode {
                        Mode::Park => {
                            let timeout = if self.spurious && self.rng.chance(0.3) {
                                Duration::from_micros(1 + self.rng.below(200))
                            } else {
                                self.watchdog
                            };
                            let t0 = Instant::now();
                            loop {
                                if ws.woken.swap(false, Ordering::SeqCst) {
                                    break;
                                }
                                if self.sh.done.load(Ordering::SeqCst) >= self.active {
                                    break;
                                }
                                let el = t0.elapsed();
                                if el >= timeout {
                                    if timeout == self.watchdog {
                                        self.c.watchdog_repolls += 1;
                                    } else {
                                        self.c.spurious_repolls += 1;
                                    }
                                    break;
                                }
                                self.c.parks += 1;
                                thread::park_timeout(timeout - el);
                            }
                        }
                        _ => {
                            let k = self.rng.below(4);
                            if k == 0 {
                                thread::yield_now();
                            } else {
                                spin(self.rng.below(60) as u32);
                            }
                        }
                    }
                }
            }
        }
    }
}

// ------------------------------------------------------------------------------------------ episode

#[derive(Clone, Copy, Debug, PartialEq)]
enum Chan {
    Oneshot,
    Mpsc,
    Notif,
}
impl Chan {
    fn name(self) -> &'static str {
        match self {
            Chan::Oneshot => "oneshot",
            Chan::Mpsc => "mpsc",
            Chan::Notif => "notification",
        }
    }
}

#[derive(Clone, Debug)]
struct BatchCfg {
    chan: Chan,
    producers: usize,
    mode: Mode,
    switch_waker: bool,
    spurious: bool,
    max_ops: usize,
}

fn batch_cfg(rng: &mut Rng, only: Option<Chan>) -> BatchCfg {
    let chan = only.unwrap_or(match rng.below(10) {
        0..=3 => Chan::Mpsc,
        4..=6 => Chan::Notif,
        _ => Chan::Oneshot,
    });
    // weights favour few producers (the machine is shared by several shard processes)
    let producers = match rng.below(16) {
        0..=2 => 1,
        3..=6 => 2,
        7..=9 => 3,
        10..=11 => 4,
        12 => 5,
        13 => 6,
        14 => 7,
        _ => 8,
    };
    BatchCfg {
        chan,
        producers,
        mode: *rng.pick(&[Mode::Park, Mode::Park, Mode::Busy, Mode::Mixed]),
        switch_waker: rng.chance(0.3),
        spurious: rng.chance(0.3),
        max_ops: *rng.pick(&[1usize, 2, 4, 8]),
    }
}

fn gaps(rng: &mut Rng, ops: &mut Vec<POp>) {
    match rng.below(6) {
        0 => ops.push(POp::Yield),
        1 => ops.push(POp::Spin(rng.below(30) as u32)),
        2 => ops.push(POp::Spin(rng.below(400) as u32)),
        _ => {}
    }
}

struct EpisodeResult {
    /// (kind, what)
    violations: Vec<(&'static str, String)>,
    /// hash of what was observed (receive order / outcome sequence, blocking, wake counts)
    obs_hash: u64,
    nontrivial: bool,
    desc: String,
    sent: u64,
    received: u64,
    leftover: u64,
    disconnects: u64,
    hb_pairs: u64,
    rx_dropped_early: bool,
    overlapped: bool,
}

fn overlaps(evs: &[Ev], polls: &[PollEv]) -> bool {
    // some operation of one thread overlaps (in logical time) an operation of another thread
    let mut iv: Vec<(u64, u64, u8)> = evs.iter().map(|x| (x.b, x.e, x.th)).collect();
    iv.extend(polls.iter().map(|p| (p.b, p.e, 255u8)));
    iv.sort();
    let mut max_e = 0u64;
    let mut max_th = 0u8;
    let mut first = true;
    for (b, e, th) in iv {
        if !first && b < max_e && th != max_th {
            return true;
        }
        if first || e > max_e {
            max_e = e;
            max_th = th;
        }
        first = false;
    }
    false
}

fn fmt_polls(polls: &[PollEv]) -> String {
    let mut s = String::new();
    for p in polls.iter().take(80) {
        let o = match p.out {
            Out::Pending => "P".to_string(),
            Out::Val(v) => format!("v{}.{}", v >> 32, v & 0xffff_ffff),
            Out::Ok => "ok".to_string(),
            Out::Closed => "closed".to_string(),
        };
        s.push_str(&format!("c{}[{}..{}]{}{} ", p.chan, p.b, p.e, o, if p.lost_wake { "!NOWAKE" } else { "" }));
    }
    s
}

fn fmt_evs(evs: &[Ev]) -> String {
    let mut s = String::new();
    for x in evs.iter().take(120) {
        s.push_str(&format!(
            "t{}:{:?}({}.{})[{}..{}]{} ",
            x.th,
            x.k,
            x.a >> 32,
            x.a & 0xffff_ffff,
            x.b,
            x.e,
            if x.ok { "" } else { "=Err" }
        ));
    }
    s
}

struct Group {
    sh: Arc<Shared>,
    watchdog: Duration,
    check_mpsc_disconnect: bool,
}

impl Group {
    /// epoch number of the episode being prepared (work is tagged with it)
    fn next_epoch(&self) -> u64 {
        self.sh.epoch.load(Ordering::SeqCst) + 1
    }
    fn release(&self, _active: usize) {
        self.sh.done.store(0, Ordering::SeqCst);
        self.sh.epoch.fetch_add(1, Ordering::SeqCst);
    }
    fn wait_done(&self, active: usize) -> bool {
        let t0 = Instant::now();
        let mut ok = true;
        spin_until(|| {
            if self.sh.done.load(Ordering::SeqCst) >= active {
                return true;
            }
            if t0.elapsed() > Duration::from_secs(30) {
                ok = false;
                return true;
            }
            false
        });
        ok
    }
    fn collect(&self, active: usize, coord: &[Ev]) -> Vec<Ev> {
        let mut evs: Vec<Ev> = coord.to_vec();
        for p in 0..active {
            evs.extend_from_slice(&self.sh.logs[p].lock().unwrap());
        }
        evs
    }

    fn rctx<'a>(&'a self, cfg: &BatchCfg, rng: &mut Rng) -> RecvCtx<'a> {
        RecvCtx {
            sh: &self.sh,
            active: cfg.producers,
            rng: rng.fork(7),
            mode: cfg.mode,
            switch_waker: cfg.switch_waker,
            spurious: cfg.spurious,
            watchdog: self.watchdog,
            polls: Vec::with_capacity(32),
            c: Counters::default(),
            stalled: false,
            ep_start: Instant::now(),
        }
    }

    // ------------------------------------------------------------------ mpsc
    fn episode_mpsc(&self, cfg: &BatchCfg, rng: &mut Rng) -> Result<(EpisodeResult, Counters), String> {
        let clock = &self.sh.clock;
        let (tx, rx) = mpsc_channel::<u64>();
        let mut coord: Vec<Ev> = Vec::new();
        let mut total = 0usize;
        let mut per_prod = vec![0usize; cfg.producers];
        for p in 0..cfg.producers {
            let n = rng.usize(cfg.max_ops + 1);
            per_prod[p] = n;
            total += n;
            let mut ops = Vec::new();
            gaps(rng, &mut ops);
            for _ in 0..n {
                if rng.chance(0.15) {
                    ops.push(*rng.pick(&[POp::CloneSwap, POp::CloneHold, POp::DropHeld]));
                }
                ops.push(POp::Send);
                gaps(rng, &mut ops);
            }
            let b = clock.tick();
            let c = tx.clone();
            let e = clock.tick();
            coord.push(Ev { th: 255, k: K::Clone, a: 0, b, e, ok: true });
            *self.sh.work[p].lock().unwrap() = Some((self.next_epoch(), Work::Mpsc { tx: c, ops }));
        }
        let keep = rng.bool();
        let mut tx = Some(tx);
        if !keep {
            let b = clock.tick();
            drop(tx.take());
            let e = clock.tick();
            coord.push(Ev { th: 255, k: K::DropTx, a: 0, b, e, ok: true });
        }
        let drop_after: Option<usize> = if rng.chance(0.12) { Some(rng.usize(total + 1)) } else { None };
        // stop receiving early (receiver stays alive): the rest must still be queued at the end
        let stop_after: usize = if rng.chance(0.15) { rng.usize(total + 1) } else { total };
        let mut rc = self.rctx(cfg, rng);
        let mut rx = Some(rx);
        self.release(cfg.producers);
        // ---- receiver
        let mut got = 0usize;
        let mut rx_dropped_early = false;
        while got < stop_after {
            if drop_after == Some(got) {
                let b = clock.tick();
                drop(rx.take());
                let e = clock.tick();
                coord.push(Ev { th: 255, k: K::DropRx, a: 0, b, e, ok: true });
                rx_dropped_early = true;
                break;
            }
            let r = {
                let f = rx.as_ref().unwrap().receive();
                let f = pin!(f);
                rc.wait(f, 0, false, |o| match o {
                    Some(v) => Out::Val(v),
                    None => Out::Closed,
                })
            };
            match r {
                WaitRes::Out(Out::Val(_)) => got += 1,
                _ => break,
            }
        }
        if !self.wait_done(cfg.producers) || rc.stalled {
            return Err("mpsc episode: producers did not finish within 30 s (harness stall)".into());
        }
        // ---- quiescent: drain what is still queued, then check the end state
        let first_final_poll = rc.polls.len();
        if let Some(r) = rx.as_ref() {
            loop {
                let f = r.receive();
                let f = pin!(f);
                let res = rc.wait(f, 0, true, |o| match o {
                    Some(v) => Out::Val(v),
                    None => Out::Closed,
                });
                if !matches!(res, WaitRes::Out(Out::Val(_))) {
                    break;
                }
            }
            if let Some(t) = tx.take() {
                let b = clock.tick();
                drop(t);
                let e = clock.tick();
                coord.push(Ev { th: 255, k: K::DropTx, a: 0, b, e, ok: true });
                let f = r.receive();
                let f = pin!(f);
                rc.wait(f, 0, true, |o| match o {
                    Some(v) => Out::Val(v),
                    None => Out::Closed,
                });
            }
        }
        drop(tx);
        drop(rx);
        let evs = self.collect(cfg.producers, &coord);
        let res = oracle_mpsc(cfg, &evs, &rc.polls, first_final_poll, rx_dropped_early, self.check_mpsc_disconnect);
        Ok((res, rc.c))
    }

    // ------------------------------------------------------------------ notification
    fn episode_notif(&self, cfg: &BatchCfg, rng: &mut Rng) -> Result<(EpisodeResult, Counters), String> {
        let clock = &self.sh.clock;
        let (tx, rx) = notification();
        let mut coord: Vec<Ev> = Vec::new();
        for p in 0..cfg.producers {
            let n = rng.usize(cfg.max_ops + 1);
            let mut ops = Vec::new();
            gaps(rng, &mut ops);
            for _ in 0..n {
                if rng.chance(0.2) {
                    ops.push(*rng.pick(&[POp::CloneSwap, POp::CloneHold, POp::DropHeld]));
                }
                ops.push(POp::Notify);
                gaps(rng, &mut ops);
            }
            let b = clock.tick();
            let c = tx.clone();
            let e = clock.tick();
            coord.push(Ev { th: 255, k: K::Clone, a: 0, b, e, ok: true });
            *self.sh.work[p].lock().unwrap() = Some((self.next_epoch(), Work::Notif { tx: c, ops }));
        }
        let keep = rng.chance(0.4);
        let mut tx = Some(tx);
        if !keep {
            let b = clock.tick();
            drop(tx.take());
            let e = clock.tick();
            coord.push(Ev { th: 255, k: K::DropTx, a: 0, b, e, ok: true });
        }
        let drop_after: Option<usize> = if rng.chance(0.1) { Some(rng.usize(4)) } else { None };
        let mut rc = self.rctx(cfg, rng);
        let mut rx = Some(rx);
        self.release(cfg.producers);
        let mut outcomes = 0usize;
        let mut rx_dropped_early = false;
        loop {
            if drop_after == Some(outcomes) {
                let b = clock.tick();
                drop(rx.take());
                let e = clock.tick();
                coord.push(Ev { th: 255, k: K::DropRx, a: 0, b, e, ok: true });
                rx_dropped_early = true;
                break;
            }
            let r = rc.wait(Pin::new(rx.as_mut().unwrap()), 0, false, |o| match o {
                Ok(()) => Out::Ok,
                Err(_) => Out::Closed,
            });
            match r {
                WaitRes::Out(Out::Ok) => outcomes += 1,
                _ => break,
            }
            if outcomes > 64 {
                break;
            }
        }
        if !self.wait_done(cfg.producers) || rc.stalled {
            return Err("notification episode: producers did not finish within 30 s (harness stall)".into());
        }
        let first_final_poll = rc.polls.len();
        if let Some(r) = rx.as_mut() {
            for _ in 0..3 {
                let res = rc.wait(Pin::new(&mut *r), 0, true, |o| match o {
                    Ok(()) => Out::Ok,
                    Err(_) => Out::Closed,
                });
                if res != WaitRes::Out(Out::Ok) {
                    break;
                }
            }
            if let Some(t) = tx.take() {
                let b = clock.tick();
                drop(t);
                let e = clock.tick();
                coord.push(Ev { th: 255, k: K::DropTx, a: 0, b, e, ok: true });
                rc.wait(Pin::new(&mut *r), 0, true, |o| match o {
                    Ok(()) => Out::Ok,
                    Err(_) => Out::Closed,
                });
            }
        }
        drop(tx);
        drop(rx);
        let evs = self.collect(cfg.producers, &coord);
        let res = oracle_notif(cfg, &evs, &rc.polls, first_final_poll, rx_dropped_early);
        Ok((res, rc.c))
    }

    // ------------------------------------------------------------------ oneshot
    fn episode_oneshot(&self, cfg: &BatchCfg, rng: &mut Rng) -> Result<(EpisodeResult, Counters), String> {
        let clock = &self.sh.clock;
        let nchan = 1 + rng.usize(cfg.max_ops.max(cfg.producers));
        let mut coord: Vec<Ev> = Vec::new();
        let mut rxs = Vec::new();
        let mut per: Vec<Vec<(u32, Option<OneshotSender<u64>>)>> = (0..cfg.producers).map(|_| Vec::new()).collect();
        let mut plan_send = Vec::new();
        for c in 0..nchan {
            let (tx, rx) = oneshot::<u64>();
            rxs.push(Some(rx));
            plan_send.push(rng.chance(0.6));
            let p = rng.usize(cfg.producers);
            per[p].push((c as u32, Some(tx)));
        }
        for (p, txs) in per.into_iter().enumerate() {
            let mut ops = Vec::new();
            gaps(rng, &mut ops);
            let mut order: Vec<usize> = (0..txs.len()).collect();
            rng.shuffle(&mut order);
            for i in order {
                ops.push(POp::Os(i, plan_send[txs[i].0 as usize]));
                gaps(rng, &mut ops);
            }
            *self.sh.work[p].lock().unwrap() = Some((self.next_epoch(), Work::Oneshot { txs, ops }));
        }
        let mut order: Vec<usize> = (0..nchan).collect();
        rng.shuffle(&mut order);
        // receiver actions: wait, or drop the receiver after 0/1 polls
        let actions: Vec<u8> = (0..nchan).map(|_| if rng.chance(0.15) { 1 + rng.below(2) as u8 } else { 0 }).collect();
        let mut rc = self.rctx(cfg, rng);
        self.release(cfg.producers);
        let mut results: Vec<Option<WaitRes>> = (0..nchan).map(|_| None).collect();
        let mut rx_dropped_early = false;
        for &c in &order {
            let mut rx = rxs[c].take().unwrap();
            let act = actions[c];
            if act != 0 {
                if act == 2 {
                    let r = rc.wait(Pin::new(&mut rx), c as u32, true, |o| match o {
                        Ok(v) => Out::Val(v),
                        Err(_) => Out::Closed,
                    });
                    if let WaitRes::Out(_) = r {
                        results[c] = Some(r);
                    }
                }
                let b = clock.tick();
                drop(rx);
                let e = clock.tick();
                coord.push(Ev { th: 255, k: K::DropRx, a: c as u64, b, e, ok: true });
                rx_dropped_early = true;
                continue;
            }
            let r = rc.wait(Pin::new(&mut rx), c as u32, false, |o| match o {
                Ok(v) => Out::Val(v),
                Err(_) => Out::Closed,
            });
            let r = if r == WaitRes::GaveUp {
                // producers are done; a final quiescent poll decides
                if !self.wait_done(cfg.producers) {
                    return Err("oneshot episode: producers did not finish within 30 s (harness stall)".into());
                }
                rc.wait(Pin::new(&mut rx), c as u32, true, |o| match o {
                    Ok(v) => Out::Val(v),
                    Err(_) => Out::Closed,
                })
            } else {
                r
            };
            results[c] = Some(r);
            drop(rx);
        }
        if !self.wait_done(cfg.producers) || rc.stalled {
            return Err("oneshot episode: producers did not finish within 30 s (harness stall)".into());
        }
        let evs = self.collect(cfg.producers, &coord);
        let res = oracle_oneshot(cfg, &evs, &rc.polls, &plan_send, &results, &order, rx_dropped_early);
        Ok((res, rc.c))
    }
}

// ------------------------------------------------------------------------------------------ oracles

fn lost_wake_violations(polls: &[PollEv], v: &mut Vec<(&'static str, String)>) {
    for p in polls {
        if p.lost_wake {
            v.push((
                "lost_wakeup",
                format!(
                    "poll on channel #{} went Pending -> Ready({:?}) after {} ms although the registered waker was never invoked in between",
                    p.chan, p.out, p.waited_ms
                ),
            ));
        }
    }
}

fn oracle_mpsc(
    cfg: &BatchCfg,
    evs: &[Ev],
    polls: &[PollEv],
    first_final_poll: usize,
    rx_dropped_early: bool,
    check_disconnect: bool,
) -> EpisodeResult {
    let mut v: Vec<(&'static str, String)> = Vec::new();
    lost_wake_violations(polls, &mut v);
    let sends: Vec<&Ev> = evs.iter().filter(|x| x.k == K::Send).collect();
    let rx_drop: Option<&Ev> = evs.iter().find(|x| x.k == K::DropRx);
    // delivery order: values in the order the receiver obtained them (running receive + final drain)
    let delivered: Vec<(u64, &PollEv)> =
        polls.iter().filter_map(|p| if let Out::Val(x) = p.out { Some((x, p)) } else { None }).collect();
    let mut pos = std::collections::HashMap::new();
    for (i, (x, p)) in delivered.iter().enumerate() {
        if pos.insert(*x, i).is_some() {
            v.push(("dup", format!("value {}.{} delivered twice", x >> 32, x & 0xffff_ffff)));
        }
        match sends.iter().find(|s| s.a == *x) {
            None => v.push(("corrupt", format!("value {:#x} delivered but never sent", x))),
            Some(s) => {
                if !s.ok {
                    v.push(("dup", format!("value {}.{} delivered although send returned Closed", x >> 32, x & 0xffff_ffff)));
                }
                if p.e < s.b {
                    v.push(("corrupt", format!("value {}.{} delivered before it was sent", x >> 32, x & 0xffff_ffff)));
                }
            }
        }
    }
    // no loss: every accepted value is delivered or (receiver dropped early) unobservable
    let mut leftover = 0u64;
    for (i, p) in polls.iter().enumerate() {
        if i >= first_final_poll && matches!(p.out, Out::Val(_)) {
            leftover += 1;
        }
    }
    if !rx_dropped_early {
        for s in &sends {
            if s.ok && !pos.contains_key(&s.a) {
                v.push((
                    "lost",
                    format!(
                        "value {}.{} was accepted by send() but neither received nor still queued after all threads finished",
                        s.a >> 32,
                        s.a & 0xffff_ffff
                    ),
                ));
            }
        }
    }
    // FIFO: per producer (program order) and across producers when one send happened-before the other
    let mut hb_pairs = 0u64;
    for i in 0..sends.len() {
        for j in 0..sends.len() {
            if i == j {
                continue;
            }
            let (a, b) = (sends[i], sends[j]);
            if a.e < b.b {
                hb_pairs += 1;
                if let (Some(pa), Some(pb)) = (pos.get(&a.a), pos.get(&b.a)) {
                    if pa > pb {
                        v.push((
                            "reorder",
                            format!(
                                "send {}.{} happened-before send {}.{} but was delivered after it",
                                a.a >> 32,
                                a.a & 0xffff_ffff,
                                b.a >> 32,
                                b.a & 0xffff_ffff
                            ),
                        ));
                    }
                } else if pos.get(&b.a).is_some() && !pos.contains_key(&a.a) && a.ok && rx_dropped_early {
                    // a must precede b in the queue; b delivered but a not => a was skipped
                    v.push(("lost", format!("value {}.{} skipped: a later value of the queue was delivered", a.a >> 32, a.a & 0xffff_ffff)));
                }
            }
        }
    }
    // disconnection
    let handles = 1 + evs.iter().filter(|x| x.k == K::Clone).count();
    let drops: Vec<&Ev> = evs.iter().filter(|x| x.k == K::DropTx).collect();
    let mut disconnects = 0u64;
    for s in &sends {
        if !s.ok {
            // Closed is only legitimate if the receiver was (being) dropped
            match rx_drop {
                Some(d) if d.b < s.e => {}
                _ => v.push(("false_disconnect", "send() returned Closed while the receiver was alive".to_string())),
            }
        }
    }
    for p in polls {
        match p.out {
            Out::Closed => {
                disconnects += 1;
                let all_dropping = drops.len() == handles && drops.iter().all(|d| d.b < p.e);
                if !all_dropping {
                    v.push(("false_disconnect", "receive() returned None while a sender handle was alive".to_string()));
                }
            }
            Out::Pending => {
                let all_dropped = drops.len() == handles && drops.iter().all(|d| d.e < p.b);
                if all_dropped && check_disconnect {
                    v.push((
                        "missed_disconnect",
                        "all sender handles were dropped and the queue is empty, but receive() stays Pending (never returns None); no wake-up is delivered either"
                            .to_string(),
                    ));
                }
            }
            _ => {}
        }
    }
    let order: Vec<u8> = delivered.iter().map(|(x, _)| (x >> 32) as u8).collect();
    let npend = polls.iter().filter(|p| p.out == Out::Pending).count();
    let overlapped = overlaps(evs, polls);
    let mut hbytes = vec![1u8, cfg.producers as u8, cfg.mode as u8, npend.min(6) as u8, rx_dropped_early as u8, 0xff];
    hbytes.extend_from_slice(&order);
    let blocked = polls[..first_final_poll.min(polls.len())].iter().any(|p| p.out == Out::Pending);
    EpisodeResult {
        violations: v,
        obs_hash: fnv(&hbytes),
        nontrivial: overlapped || blocked,
        desc: format!(
            "mpsc producers={} mode={:?} recv_order(producer ids)={:?} pending_polls={} | polls: {}| ops: {}",
            cfg.producers,
            cfg.mode,
            order,
            npend,
            fmt_polls(polls),
            fmt_evs(evs)
        ),
        sent: sends.iter().filter(|s| s.ok).count() as u64,
        received: delivered.len() as u64 - leftover,
        leftover,
        disconnects,
        hb_pairs,
        rx_dropped_early,
        overlapped,
    }
}

fn oracle_notif(cfg: &BatchCfg, evs: &[Ev], polls: &[PollEv], first_final_poll: usize, rx_dropped_early: bool) -> EpisodeResult {
    let mut v: Vec<(&'static str, String)> = Vec::new();
    lost_wake_violations(polls, &mut v);
    let notifies: Vec<&Ev> = evs.iter().filter(|x| x.k == K::Notify).collect();
    let handles = 1 + evs.iter().filter(|x| x.k == K::Clone).count();
    let drops: Vec<&Ev> = evs.iter().filter(|x| x.k == K::DropTx).collect();
    let mut last_ok: Option<&PollEv> = None;
    let mut oks = 0usize;
    let mut disconnects = 0u64;
    for q in polls {
        // a notify that completed before q began and cannot have been consumed by an earlier Ok poll
        let unconsumed = notifies.iter().any(|n| n.e < q.b && last_ok.map_or(true, |l| l.e < n.b));
        let all_dropped_before = drops.len() == handles && drops.iter().all(|d| d.e < q.b);
        match q.out {
            Out::Ok => {
                oks += 1;
                let justified = notifies.iter().any(|n| n.b < q.e && last_ok.map_or(true, |l| n.e > l.b));
                let started = notifies.iter().filter(|n| n.b < q.e).count();
                if !justified || oks > started {
                    v.push((
                        "dup",
                        format!("receiver became ready {oks} time(s) but only {started} notify call(s) had begun / none could account for it"),
                    ));
                }
                last_ok = Some(q);
            }
            Out::Closed => {
                disconnects += 1;
                let all_dropping = drops.len() == handles && drops.iter().all(|d| d.b < q.e);
                if !all_dropping {
                    v.push(("false_disconnect", "receiver reported disconnection while a sender handle was alive".to_string()));
                } else if unconsumed {
                    v.push((
                        "false_disconnect",
                        "receiver reported disconnection although a notification was pending (notify completed before the poll, not consumed)".to_string(),
                    ));
                }
            }
            Out::Pending => {
                if unconsumed {
                    v.push(("lost", "a notify completed before the poll began and was not consumed by an earlier poll, yet the poll returned Pending".to_string()));
                } else if all_dropped_before {
                    v.push(("missed_disconnect", "all sender handles were dropped before the poll began, yet the poll returned Pending".to_string()));
                }
            }
            Out::Val(_) => {}
        }
    }
    let seq: Vec<u8> = polls
        .iter()
        .filter(|p| p.out != Out::Pending)
        .map(|p| if p.out == Out::Ok { b'n' } else { b'd' })
        .collect();
    let npend = polls.iter().filter(|p| p.out == Out::Pending).count();
    let overlapped = overlaps(evs, polls);
    let blocked = polls[..first_final_poll.min(polls.len())].iter().any(|p| p.out == Out::Pending);
    let mut hbytes = vec![2u8, cfg.producers as u8, cfg.mode as u8, npend.min(6) as u8, notifies.len().min(255) as u8, rx_dropped_early as u8, 0xff];
    hbytes.extend_from_slice(&seq);
    EpisodeResult {
        violations: v,
        obs_hash: fnv(&hbytes),
        nontrivial: overlapped || blocked,
        desc: format!(
            "notification producers={} mode={:?} notifies={} handles={} outcomes={} pending_polls={} | polls: {}| ops: {}",
            cfg.producers,
            cfg.mode,
            notifies.len(),
            handles,
            String::from_utf8_lossy(&seq),
            npend,
            fmt_polls(polls),
            fmt_evs(evs)
        ),
        sent: notifies.len() as u64,
        received: oks as u64,
        leftover: 0,
        disconnects,
        hb_pairs: 0,
        rx_dropped_early,
        overlapped,
    }
}

fn oracle_oneshot(
    cfg: &BatchCfg,
    evs: &[Ev],
    polls: &[PollEv],
    plan_send: &[bool],
    results: &[Option<WaitRes>],
    order: &[usize],
    rx_dropped_early: bool,
) -> EpisodeResult {
    let mut v: Vec<(&'static str, String)> = Vec::new();
    lost_wake_violations(polls, &mut v);
    let mut sent = 0u64;
    let mut received = 0u64;
    let mut disconnects = 0u64;
    for (c, send) in plan_send.iter().enumerate() {
        if *send {
            sent += 1;
        }
        let sender_ev = evs.iter().find(|x| (x.k == K::OsSend || x.k == K::OsDrop) && x.a == c as u64);
        match &results[c] {
            None => {} // receiver dropped before any outcome
            Some(WaitRes::Out(Out::Val(x))) => {
                received += 1;
                if !*send {
                    v.push(("corrupt", format!("channel #{c}: received {x} although the sender was dropped without sending")));
                } else if *x != 1000 + c as u64 {
                    v.push(("corrupt", format!("channel #{c}: received {x}, sent {}", 1000 + c)));
                }
            }
            Some(WaitRes::Out(Out::Closed)) => {
                disconnects += 1;
                if *send {
                    v.push((
                        "false_disconnect",
                        format!("channel #{c}: receiver got the disconnection error although the sender sent a value"),
                    ));
                }
            }
            Some(WaitRes::GaveUp) => {
                // quiescent final poll (after the sender thread finished) still Pending
                if sender_ev.is_some() {
                    if *send {
                        v.push(("lost", format!("channel #{c}: value was sent, all threads finished, receiver still Pending")));
                    } else {
                        v.push((
                            "missed_disconnect",
                            format!("channel #{c}: sender was dropped without sending, all threads finished, receiver still Pending"),
                        ));
                    }
                }
            }
            Some(WaitRes::Out(_)) => {}
        }
    }
    // per poll: a Pending poll that began after the sender's operation completed is wrong
    for q in polls {
        if q.out == Out::Pending {
            if let Some(s) = evs.iter().find(|x| (x.k == K::OsSend || x.k == K::OsDrop) && x.a == q.chan as u64) {
                if s.e < q.b {
                    if s.k == K::OsSend {
                        v.push(("lost", format!("channel #{}: send completed before the poll began, poll returned Pending", q.chan)));
                    } else {
                        v.push((
                            "missed_disconnect",
                            format!("channel #{}: sender drop completed before the poll began, poll returned Pending", q.chan),
                        ));
                    }
                }
            }
        }
        // a Ready poll that ended before the sender did anything is impossible
        if matches!(q.out, Out::Val(_) | Out::Closed) {
            if let Some(s) = evs.iter().find(|x| (x.k == K::OsSend || x.k == K::OsDrop) && x.a == q.chan as u64) {
                if q.e < s.b {
                    let kind = if q.out == Out::Closed { "false_disconnect" } else { "corrupt" };
                    v.push((kind, format!("channel #{}: receiver became ready before the sender sent or was dropped", q.chan)));
                }
            }
        }
    }
    let npend = polls.iter().filter(|p| p.out == Out::Pending).count();
    let overlapped = overlaps(evs, polls);
    let mut hbytes = vec![3u8, cfg.producers as u8, cfg.mode as u8, npend.min(6) as u8, rx_dropped_early as u8, 0xff];
    for &c in order {
        hbytes.push(match &results[c] {
            None => b'x',
            Some(WaitRes::Out(Out::Val(_))) => b'v',
            Some(WaitRes::Out(Out::Closed)) => b'd',
            _ => b'?',
        });
        // did this channel's receiver block first?
        hbytes.push(polls.iter().any(|p| p.chan == c as u32 && p.out == Out::Pending) as u8);
    }
    let blocked = npend > 0;
    EpisodeResult {
        violations: v,
        obs_hash: fnv(&hbytes),
        nontrivial: overlapped || blocked,
        desc: format!(
            "oneshot producers={} mode={:?} channels={} plan(send?)={:?} recv_order={:?} pending_polls={} | polls: {}| ops: {}",
            cfg.producers,
            cfg.mode,
            plan_send.len(),
            plan_send,
            order,
            npend,
            fmt_polls(polls),
            fmt_evs(evs)
        ),
        sent,
        received,
        leftover: 0,
        disconnects,
        hb_pairs: 0,
        rx_dropped_early,
        overlapped,
    }
}

// ------------------------------------------------------------------------------------------ driver

pub fn run_stress(args: &Args, rep: &mut Report, sidx: u64, nstress: u64) {
    let seed = args.u64("seed", 1);
    let cases = args.u64("cases", 100_000);
    let share = cases / nstress.max(1) + if sidx < cases % nstress.max(1) { 1 } else { 0 };
    let watchdog = Duration::from_millis(args.u64("watchdog-ms", 10_000));
    let check_mpsc_disconnect = args.u64("mpsc-disconnect", 1) != 0;
    let only = match args.str("only", "").as_str() {
        "oneshot" => Some(Chan::Oneshot),
        "mpsc" => Some(Chan::Mpsc),
        "notification" => Some(Chan::Notif),
        _ => None,
    };
    let max_secs = args.u64("max-secs", 0);

    let sh = Arc::new(Shared {
        clock: Clock(AtomicU64::new(1)),
        batchword: AtomicU64::new(0),
        epoch: AtomicU64::new(0),
        done: AtomicUsize::new(0),
        stop: AtomicBool::new(false),
        work: (0..MAX_PROD).map(|_| Mutex::new(None)).collect(),
        logs: (0..MAX_PROD).map(|_| Mutex::new(Vec::new())).collect(),
        recv_thread: thread::current(),
    });
    let mut handles = Vec::new();
    for p in 0..MAX_PROD {
        let s = sh.clone();
        handles.push(thread::Builder::new().name(format!("prod{p}")).spawn(move || producer_main(p, s)).unwrap());
    }
    let g = Group { sh: sh.clone(), watchdog, check_mpsc_disconnect };

    // replay: re-run one batch (same plans) many times
    let mut batches: Vec<u64> = Vec::new();
    let mut replay_reps = 1u64;
    let mut replay_stream = sidx;
    if args.has("replay") {
        if let Ok(txt) = std::fs::read_to_string(args.str("replay", "")) {
            if let Ok(j) = Json::parse(&txt) {
                if let Some(w) = j.get("witnesses").and_then(|w| w.as_arr()).and_then(|a| a.first()) {
                    if let Some(r) = w.get("replay") {
                        if let Some(b) = r.get("batch").and_then(|x| x.as_u64()) {
                            batches.push(b);
                            replay_stream = r.get("stream").and_then(|x| x.as_u64()).unwrap_or(sidx);
                            replay_reps = args.u64("replay-reps", 400);
                        }
                    }
                }
            }
        }
        if batches.is_empty() {
            rep.inconclusive("replay file has no stress batch (Miri witness? re-run the printed cargo miri command)");
        }
    } else {
        let nb = (share + BATCH - 1) / BATCH;
        batches = (0..nb).collect();
    }

    let t0 = Instant::now();
    let mut bw_id = 0u64;
    let mut left = share;
    let mut seen_orders: std::collections::HashSet<u64> = std::collections::HashSet::new();
    'outer: for _rep in 0..replay_reps {
        for &bno in &batches {
            let stream = if args.has("replay") { replay_stream } else { sidx };
            let mut rng = Rng::new(mix(mix(seed, 0xC34 ^ (stream << 20)), bno));
            let cfg = batch_cfg(&mut rng, only);
            bw_id += 1;
            sh.batchword.store((bw_id << 8) | cfg.producers as u64, Ordering::SeqCst);
            for h in &handles {
                h.thread().unpark();
            }
            let n = if args.has("replay") { BATCH } else { left.min(BATCH) };
            for ep in 0..n {
                let mut erng = rng.fork(ep);
                let r = match cfg.chan {
                    Chan::Mpsc => g.episode_mpsc(&cfg, &mut erng),
                    Chan::Notif => g.episode_notif(&cfg, &mut erng),
                    Chan::Oneshot => g.episode_oneshot(&cfg, &mut erng),
                };
                let (res, c) = match r {
                    Ok(x) => x,
                    Err(why) => {
                        rep.inconclusive(format!("{why}; shard stopped after {} episodes", rep.evaluations));
                        break 'outer;
                    }
                };
                rep.eval();
                let ch = cfg.chan.name();
                rep.stat(&format!("episodes_{ch}"), 1);
                rep.stat(&format!("{ch}_sent"), res.sent as i128);
                rep.stat(&format!("{ch}_received"), res.received as i128);
                if cfg.chan == Chan::Mpsc {
                    rep.stat("mpsc_still_queued_at_end", res.leftover as i128);
                    rep.stat("mpsc_happens_before_send_pairs_checked", res.hb_pairs as i128);
                }
                rep.stat(&format!("{ch}_disconnect_reports"), res.disconnects as i128);
                rep.stat("pending_polls", c.pending as i128);
                rep.stat("pending_to_ready_transitions_checked_for_wake", c.wake_checks as i128);
                rep.stat("waker_invocations", c.wakes as i128);
                rep.stat("receiver_parks", c.parks as i128);
                rep.stat("watchdog_repolls", c.watchdog_repolls as i128);
                rep.stat("spurious_repolls", c.spurious_repolls as i128);
                if res.rx_dropped_early {
                    rep.stat("episodes_receiver_dropped_early", 1);
                }
                if res.overlapped {
                    rep.stat("episodes_with_overlapping_ops_of_two_threads", 1);
                }
                rep.set("producer_counts", format!("{}", cfg.producers));
                rep.set("receiver_modes", format!("{:?}", cfg.mode));
                if res.nontrivial {
                    rep.nontrivial(res.obs_hash);
                }
                if seen_orders.len() < 2_000_000 {
                    seen_orders.insert(res.obs_hash);
                }
                if res.nontrivial && rep.samples.len() < 3 && rep.samples.iter().all(|s| !s.to_string().contains(ch)) {
                    rep.sample(Json::obj().set("channel", ch).set("episode", res.desc.clone()));
                }
                for (kind, what) in &res.violations {
                    let sig = format!("channel={ch}|{kind}");
                    let seen = rep.violation_counts.get(&sig).copied().unwrap_or(0);
                    if seen >= 3 {
                        *rep.violation_counts.get_mut(&sig).unwrap() += 1;
                        continue;
                    }
                    let mut d = res.desc.clone();
                    d.truncate(3000);
                    rep.violation(
                        sig,
                        format!("{what} [{ch}, {} producers, {:?}]", cfg.producers, cfg.mode),
                        Json::obj()
                            .set("engine", "thr")
                            .set("cmd", "c34")
                            .set("seed", seed)
                            .set("stream", stream)
                            .set("nstress", nstress)
                            .set("batch", bno)
                            .set("episode", ep)
                            .set("note", "thread interleavings are not reproducible bit for bit: --replay re-runs this batch (same plans) --replay-reps times")
                            .set("history", d),
                    );
                }
            }
            left = left.saturating_sub(n);
            if max_secs > 0 && t0.elapsed().as_secs() >= max_secs {
                rep.stat("stopped_by_time_budget", 1);
                break 'outer;
            }
        }
    }
    rep.maxstat("distinct_observed_orders_in_one_shard", seen_orders.len() as i128);
    rep.maxstat("stress_wall_ms", t0.elapsed().as_millis() as i128);
    sh.stop.store(true, Ordering::SeqCst);
    sh.batchword.store(u64::MAX << 8, Ordering::SeqCst);
    for h in &handles {
        h.thread().unpark();
    }
    for h in handles {
        let _ = h.join();
    }
}
