#[path = "../../scen/src/common.rs"]
mod common;

fn main() {}
