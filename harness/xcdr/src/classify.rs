//! Closed, enumerated root-cause classes for signatures. A failing (minimised) case is named by the
//! first class, in a FIXED PRIORITY ORDER, whose predicate over the harness' own type/value model
//! holds. A case that matches no class gets `cause=unclassified|shape=<minimised shape>` - the only
//! open-ended signature; it must not occur on the unchanged tree.
use crate::refenc::Ver;
use std::collections::BTreeSet;
use xcdrlib::model::*;

#[derive(Default, Debug, Clone)]
pub struct Features {
    pub val: BTreeSet<&'static str>,
    pub f128: bool,
    pub p8: bool,
    /// optional member of a final / appendable structure
    pub opt_in_fa: bool,
    pub top_mutable: bool,
    pub nested_mutable: bool,
    pub appendable_union: bool,
    /// collection whose element is an appendable / mutable union
    pub coll_union_nonfinal: bool,
    pub exotic_disc: bool,
    pub bigid: bool,
    /// mutable struct member / mutable union case that is a sequence of a 2/4/8/16-byte primitive
    pub mutable_seq_prim_wide: bool,
    /// same with element size 4 or 8 (LC 6 / LC 7 applicable)
    pub mutable_seq_prim_4or8: bool,
    /// mutable aggregate with a string / byte-sequence member (LC 5 applicable without DHEADER)
    pub mutable_str_or_bytes: bool,
    pub any_mutable: bool,
    pub union_any: bool,
    pub wstr: bool,
}

fn walk(t: &Ty, top: bool, f: &mut Features) {
    match t {
        Ty::Prim(p) => {
            if *p == Prim::F128 {
                f.f128 = true;
            }
            if p.size() >= 8 {
                f.p8 = true;
            }
        }
        Ty::WStr { .. } => f.wstr = true,
        Ty::Str { .. } | Ty::Enum(_) => {}
        Ty::Struct(s) => {
            if s.ext == Ext::Mutable {
                f.any_mutable = true;
                if top {
                    f.top_mutable = true;
                } else {
                    f.nested_mutable = true;
                }
            }
            for m in &s.members {
                if m.optional && s.ext != Ext::Mutable {
                    f.opt_in_fa = true;
                }
                if s.ext == Ext::Mutable {
                    if m.id >= 0x3F00 {
                        f.bigid = true;
                    }
                    mutable_member(&m.ty, f);
                }
                walk(&m.ty, false, f);
            }
        }
        Ty::Union(u) => {
            f.union_any = true;
            if u.ext == Ext::Appendable {
                f.appendable_union = true;
            }
            if u.ext == Ext::Mutable {
                f.any_mutable = true;
                if top {
                    f.top_mutable = true;
                } else {
                    f.nested_mutable = true;
                }
            }
            if !matches!(
                &u.disc,
                Ty::Prim(Prim::U8 | Prim::I8 | Prim::Byte | Prim::I16 | Prim::U16 | Prim::I32 | Prim::U32)
            ) {
                f.exotic_disc = true;
            }
            walk(&u.disc, false, f);
            for c in &u.cases {
                if let Some(ct) = &c.ty {
                    if u.ext == Ext::Mutable {
                        mutable_member(ct, f);
                    }
                    walk(ct, false, f);
                }
            }
        }
        Ty::Seq { elem, .. } | Ty::Arr { elem, .. } => {
            if let Ty::Union(u) = &**elem {
                if u.ext != Ext::Final {
                    f.coll_union_nonfinal = true;
                }
            }
            walk(elem, false, f);
        }
    }
}

fn mutable_member(t: &Ty, f: &mut Features) {
    match t {
        Ty::Seq { elem, .. } => {
            if let Ty::Prim(p) = &**elem {
                if p.size() > 1 {
                    f.mutable_seq_prim_wide = true;
                }
                if p.size() == 4 || p.size() == 8 {
                    f.mutable_seq_prim_4or8 = true;
                }
                if p.size() == 1 {
                    f.mutable_str_or_bytes = true;
                }
            }
        }
        Ty::Str { .. } => f.mutable_str_or_bytes = true,
        _ => {}
    }
}

pub fn features(t: &Ty, v: &Val) -> Features {
    let mut f = Features::default();
    walk(t, true, &mut f);
    value_tags(t, v, &mut f.val);
    f
}

/// Deserializer / round-trip classes (C09 `value_not_restored`, C10 decode directions, C39 inherit).
#[derive(Clone, Copy, PartialEq, Eq)]
pub enum Mode {
    /// dust-dds reads bytes written by its own serializer
    RoundTrip,
    /// dust-dds reads reference bytes with plain length codes
    RefPlain,
    /// dust-dds reads reference bytes that use LC 5/6/7
    RefOptimized,
}

pub fn decode_cause(f: &Features, ver: Ver, mode: Mode) -> Option<&'static str> {
    let x1 = ver == Ver::X1;
    if f.val.contains("char8>=0x80") {
        return Some("char8_ge_0x80_written_as_utf8");
    }
    if f.val.contains("disc_selects_no_case") {
        return Some("disc_selects_no_case_rejected");
    }
    if f.exotic_disc {
        return Some("discriminator_kind_unsupported");
    }
    if f.bigid {
        return Some("member_id_ge_2^14_no_pid_extended");
    }
    if f.val.contains("member>64KiB") && x1 {
        return Some("member_gt_64KiB_xcdr1_16bit_length");
    }
    if f.f128 && x1 {
        return Some("f128_aligned_to_16_by_reader");
    }
    if f.appendable_union && x1 {
        return Some("xcdr1_appendable_union_reader_expects_dheader");
    }
    if f.coll_union_nonfinal {
        return Some("union_element_in_collection_written_as_final");
    }
    if !x1 && f.mutable_seq_prim_wide && mode == Mode::RoundTrip {
        return Some("xcdr2_lc5_on_primitive_sequence");
    }
    if !x1 && f.mutable_seq_prim_4or8 && mode == Mode::RefOptimized {
        return Some("xcdr2_lc6_lc7_nextint_not_rewound_by_reader");
    }
    if x1 && f.p8 && (f.opt_in_fa || f.any_mutable) {
        return Some("xcdr1_align_origin_after_pl_member");
    }
    if x1 && f.opt_in_fa {
        return Some("xcdr1_optional_reader_position_reset");
    }
    if f.nested_mutable {
        return Some("nested_mutable_reader_position_not_advanced");
    }
    None
}

/// Serializer classes (C10 encode direction).
pub fn encode_cause(f: &Features, ver: Ver) -> Option<&'static str> {
    let x1 = ver == Ver::X1;
    if f.val.contains("member>64KiB") && x1 {
        return Some("member_gt_64KiB_xcdr1_16bit_length");
    }
    if f.bigid {
        return Some("member_id_ge_2^14_no_pid_extended");
    }
    if f.coll_union_nonfinal {
        return Some("union_element_in_collection_written_as_final");
    }
    if !x1 && f.mutable_seq_prim_wide {
        return Some("xcdr2_lc5_on_primitive_sequence");
    }
    None
}

/// Known panic sites -> class names (a new site is a new finding and stays spelled out).
pub fn panic_cause(sig: &str) -> String {
    if sig.contains("seek_to_pid") && sig.contains("multiply with overflow") {
        "seek_to_pid_nextint_multiply_overflow".into()
    } else if sig.contains("serialize_mmember") && sig.contains("add with overflow") {
        "member_id_ge_2^14_pid_u16_overflow".into()
    } else {
        format!("unclassified|site={}", sig)
    }
}

pub fn ver_name(ver: Ver) -> &'static str {
    if ver == Ver::X1 { "XCDR1" } else { "XCDR2" }
}
