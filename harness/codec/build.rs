//! Detects whether /repo carries the C13 constructor hooks (cfg `c13_hooks`). Without them the
//! `c13` subcommand reports "inconclusive: hook missing" instead of breaking the build of the
//! other three checks.
use std::path::PathBuf;

fn main() {
    println!("cargo::rustc-check-cfg=cfg(c13_hooks)");
    println!("cargo::rerun-if-env-changed=VERIF_DUST_SRC");
    let root = std::env::var("VERIF_DUST_SRC").unwrap_or_else(|_| "/repo/dds".to_string());
    let dir = PathBuf::from(root).join("src/dcps/data_representation_builtin_endpoints");
    let needs: [(&str, &[&str]); 4] = [
        ("discovered_writer_data.rs", &["fn verif_new", "fn verif_dds_publication_data"]),
        ("discovered_reader_data.rs", &["fn verif_new", "fn verif_dds_subscription_data"]),
        ("discovered_topic_data.rs", &["fn verif_new", "fn verif_topic_builtin_topic_data"]),
        ("spdp_discovered_participant_data.rs", &["fn verif_new", "fn verif_dds_participant_data"]),
    ];
    let mut ok = true;
    for (file, pats) in needs {
        let p = dir.join(file);
        println!("cargo::rerun-if-changed={}", p.display());
        match std::fs::read_to_string(&p) {
            Ok(s) => {
                for pat in pats {
                    if !s.contains(pat) {
                        ok = false;
                    }
                }
            }
            Err(_) => ok = false,
        }
    }
    if ok {
        println!("cargo::rustc-cfg=c13_hooks");
    }
}
