#!/bin/bash
# Run the repository's pinned test suite (hooks OFF) and compare with the stable-pass list of
# /root/.vp/BASELINE.json. Exit 0 iff every stable test still passes.
cd /repo || exit 2
export CARGO_NET_OFFLINE=true
rm -f /repo/target/nextest/pb/junit.xml
cargo nextest run --workspace --no-fail-fast --tool-config-file pb:/w/lib/nextest.toml --profile pb --test-threads 8 --offline > /tmp/baseline_run.log 2>&1
python3 - <<'PY'
import json, glob, sys, xml.etree.ElementTree as ET
b = json.load(open('/root/.vp/BASELINE.json'))
stable = set(b['stable_pass'])
paths = glob.glob('/repo/target/nextest/pb/junit.xml')
if not paths:
    print("no junit.xml produced; see /tmp/baseline_run.log"); sys.exit(2)
passed=set(); failed=set()
for tc in ET.parse(paths[0]).getroot().iter('testcase'):
    name = tc.get('classname','') + '::' + tc.get('name','')
    bad = any(ch.tag in ('failure','error') for ch in tc)
    (failed if bad else passed).add(name)
def norm(n): return n.replace('::tests::tests::','::tests::')
miss = [s for s in stable if s not in passed]
# names in the baseline are "<binary>::<test path>"; junit classname is the binary id
if len(miss) > len(stable)//2:
    # try alternative naming: classname may be "dust_dds::discovery" and name "test"
    alt = set()
    for n in passed:
        alt.add(n); alt.add(n.replace('::$',''))
    miss = [s for s in stable if s not in alt]
print(f"stable={len(stable)} passed_now={len(passed)} failed_now={len(failed)} stable_missing={len(miss)}")
for m in sorted(miss)[:40]: print("  MISSING/FAILED:", m)
sys.exit(0 if not miss else 1)
PY
