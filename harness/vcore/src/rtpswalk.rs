//! Independent, panic-free walker over an RTPS datagram (written from the RTPS 2.x wire layout,
//! shares no code with dust-dds). Used by the simulated network to classify traffic, by fault
//! rules that target particular submessages, and by the C08 length oracle.

pub const PAD: u8 = 0x01;
pub const ACKNACK: u8 = 0x06;
pub const HEARTBEAT: u8 = 0x07;
pub const GAP: u8 = 0x08;
pub const INFO_TS: u8 = 0x09;
pub const INFO_SRC: u8 = 0x0c;
pub const INFO_REPLY_IP4: u8 = 0x0d;
pub const INFO_DST: u8 = 0x0e;
pub const INFO_REPLY: u8 = 0x0f;
pub const NACK_FRAG: u8 = 0x12;
pub const HEARTBEAT_FRAG: u8 = 0x13;
pub const DATA: u8 = 0x15;
pub const DATA_FRAG: u8 = 0x16;

#[derive(Clone, Debug, Default)]
pub struct Sub {
    pub id: u8,
    pub flags: u8,
    /// offset of the submessage header in the datagram
    pub offset: usize,
    /// octetsToNextHeader as written on the wire
    pub wire_len: u16,
    /// actual body length used (wire_len, or rest of message when wire_len == 0 and allowed)
    pub body_len: usize,
    pub reader_id: [u8; 4],
    pub writer_id: [u8; 4],
    /// writerSN (DATA, DATA_FRAG, NACK_FRAG, HEARTBEAT_FRAG), firstSN (HEARTBEAT), base (ACKNACK), gapStart (GAP)
    pub sn: i64,
    /// lastSN (HEARTBEAT)
    pub sn2: i64,
    /// fragmentStartingNum (DATA_FRAG)
    pub frag_start: u32,
    pub frags_in_sub: u16,
    pub frag_size: u16,
    pub sample_size: u32,
    /// offset (in datagram) and length of serialized payload for DATA / DATA_FRAG, if present
    pub payload: Option<(usize, usize)>,
    /// offset/len of inline qos
    pub inline_qos: Option<(usize, usize)>,
}

impl Sub {
    pub fn le(&self) -> bool {
        self.flags & 1 == 1
    }
    pub fn name(&self) -> &'static str {
        match self.id {
            PAD => "PAD",
            ACKNACK => "ACKNACK",
            HEARTBEAT => "HEARTBEAT",
            GAP => "GAP",
            INFO_TS => "INFO_TS",
            INFO_SRC => "INFO_SRC",
            INFO_REPLY_IP4 => "INFO_REPLY_IP4",
            INFO_DST => "INFO_DST",
            INFO_REPLY => "INFO_REPLY",
            NACK_FRAG => "NACK_FRAG",
            HEARTBEAT_FRAG => "HEARTBEAT_FRAG",
            DATA => "DATA",
            DATA_FRAG => "DATA_FRAG",
            _ => "UNKNOWN",
        }
    }
    /// true if the writer or reader entity id is a built-in (discovery) endpoint
    pub fn is_builtin(&self) -> bool {
        let wk = self.writer_id[3];
        let rk = self.reader_id[3];
        (wk & 0xc0) == 0xc0 || (rk & 0xc0) == 0xc0
    }
    pub fn has_entity_ids(&self) -> bool {
        matches!(
            self.id,
            ACKNACK | HEARTBEAT | GAP | NACK_FRAG | HEARTBEAT_FRAG | DATA | DATA_FRAG
        )
    }
}

#[derive(Clone, Debug, Default)]
pub struct Walk {
    pub valid_header: bool,
    pub guid_prefix: [u8; 12],
    pub subs: Vec<Sub>,
    /// true if walking stopped before the end because of a malformed length
    pub truncated: bool,
}

fn rd16(b: &[u8], le: bool) -> u16 {
    if le {
        u16::from_le_bytes([b[0], b[1]])
    } else {
        u16::from_be_bytes([b[0], b[1]])
    }
}
fn rd32(b: &[u8], le: bool) -> u32 {
    if le {
        u32::from_le_bytes([b[0], b[1], b[2], b[3]])
    } else {
        u32::from_be_bytes([b[0], b[1], b[2], b[3]])
    }
}
fn rdsn(b: &[u8], le: bool) -> i64 {
    let hi = rd32(&b[0..4], le) as i32 as i64;
    let lo = rd32(&b[4..8], le) as i64;
    (hi << 32) | lo
}

pub fn walk(d: &[u8]) -> Walk {
    let mut w = Walk::default();
    if d.len() < 20 || &d[0..4] != b"RTPS" {
        return w;
    }
    w.valid_header = true;
    w.guid_prefix.copy_from_slice(&d[8..20]);
    let mut off = 20;
    while off + 4 <= d.len() {
        let id = d[off];
        let flags = d[off + 1];
        let le = flags & 1 == 1;
        let wire_len = rd16(&d[off + 2..off + 4], le);
        let body_off = off + 4;
        let body_len = if wire_len == 0 && id != PAD && id != INFO_TS {
            d.len() - body_off
        } else {
            wire_len as usize
        };
        if body_off + body_len > d.len() {
            w.truncated = true;
            break;
        }
        let b = &d[body_off..body_off + body_len];
        let mut s = Sub {
            id,
            flags,
            offset: off,
            wire_len,
            body_len,
            ..Default::default()
        };
        match id {
            DATA | DATA_FRAG if b.len() >= 20 => {
                let o2q = rd16(&b[2..4], le) as usize;
                s.reader_id.copy_from_slice(&b[4..8]);
                s.writer_id.copy_from_slice(&b[8..12]);
                s.sn = rdsn(&b[12..20], le);
                let mut p = 4 + o2q; // position after the "octetsToInlineQos" counted region
                if id == DATA_FRAG && b.len() >= 32 {
                    s.frag_start = rd32(&b[20..24], le);
                    s.frags_in_sub = rd16(&b[24..26], le);
                    s.frag_size = rd16(&b[26..28], le);
                    s.sample_size = rd32(&b[28..32], le);
                }
                let has_q = flags & 0x02 != 0;
                if has_q && p <= b.len() {
                    // walk the parameter list to its sentinel
                    let qs = p;
                    loop {
                        if p + 4 > b.len() {
                            break;
                        }
                        let pid = rd16(&b[p..p + 2], le);
                        let pl = rd16(&b[p + 2..p + 4], le) as usize;
                        p += 4;
                        if pid == 1 {
                            break;
                        }
                        p += pl;
                        if p > b.len() {
                            p = b.len();
                            break;
                        }
                    }
                    s.inline_qos = Some((body_off + qs, p - qs));
                }
                let has_payload = if id == DATA {
                    flags & 0x0c != 0
                } else {
                    true
                };
                if has_payload && p <= b.len() {
                    s.payload = Some((body_off + p, b.len() - p));
                }
            }
            HEARTBEAT if b.len() >= 28 => {
                s.reader_id.copy_from_slice(&b[0..4]);
                s.writer_id.copy_from_slice(&b[4..8]);
                s.sn = rdsn(&b[8..16], le);
                s.sn2 = rdsn(&b[16..24], le);
            }
            ACKNACK | GAP | NACK_FRAG | HEARTBEAT_FRAG if b.len() >= 16 => {
                s.reader_id.copy_from_slice(&b[0..4]);
                s.writer_id.copy_from_slice(&b[4..8]);
                s.sn = rdsn(&b[8..16], le);
            }
            _ => {}
        }
        w.subs.push(s);
        off = body_off + body_len;
        if wire_len == 0 && id != PAD && id != INFO_TS {
            break;
        }
    }
    w
}

/// Coarse traffic class of a datagram.
#[derive(Clone, Copy, Debug, PartialEq, Eq)]
pub enum Class {
    /// contains at least one submessage for a user-defined endpoint
    User,
    /// only builtin (discovery) endpoints
    Meta,
    /// undecodable
    Other,
}

pub fn classify(w: &Walk) -> Class {
    if !w.valid_header {
        return Class::Other;
    }
    let mut any = false;
    for s in &w.subs {
        if s.has_entity_ids() {
            any = true;
            if !s.is_builtin() {
                return Class::User;
            }
        }
    }
    if any { Class::Meta } else { Class::Other }
}

pub fn summary(w: &Walk) -> String {
    let mut out = String::new();
    for s in &w.subs {
        if !out.is_empty() {
            out.push(' ');
        }
        match s.id {
            DATA => out.push_str(&format!("DATA(w={:02x}{:02x}{:02x}{:02x},sn={})", s.writer_id[0], s.writer_id[1], s.writer_id[2], s.writer_id[3], s.sn)),
            DATA_FRAG => out.push_str(&format!("DATA_FRAG(sn={},f={}+{},fs={},ss={})", s.sn, s.frag_start, s.frags_in_sub, s.frag_size, s.sample_size)),
            HEARTBEAT => out.push_str(&format!("HB({}..{})", s.sn, s.sn2)),
            ACKNACK => out.push_str(&format!("ACKNACK(base={})", s.sn)),
            GAP => out.push_str(&format!("GAP(start={})", s.sn)),
            NACK_FRAG => out.push_str(&format!("NACK_FRAG(sn={})", s.sn)),
            _ => out.push_str(s.name()),
        }
    }
    out
}
