//! C26: a reader on a content-filtered topic presents exactly the samples that pass the filter,
//! in whatever grouping the samples arrive (several DATA submessages in one RTPS message included).
use crate::common::*;
use dust_dds::infrastructure::qos::{DataReaderQos, DataWriterQos};
use dust_dds::infrastructure::sample_info::{ANY_INSTANCE_STATE, ANY_SAMPLE_STATE, ANY_VIEW_STATE};
use dust_dds::infrastructure::type_support::DdsType;
use simnet::*;
use std::collections::BTreeSet;
use vcore::rtpswalk::{self, Class};
use vcore::{Json, Report, Rng};

#[derive(Debug, Clone, PartialEq, DdsType)]
pub struct Item {
    #[dust_dds(key)]
    pub key: u32,
    pub seq: u32,
    pub num: i32,
    pub color: String,
}

#[derive(Clone, Debug)]
struct Params {
    /// 0: num = p, 1: num <= p, 2: color = p, 3: color <= p
    filter: u32,
    param_num: i32,
    param_color: String,
    n_writes: u32,
    group: u32, // DATA submessages merged into one datagram (1 = no merging)
    n_instances: u32,
    policy: Policy,
    spaces: u32,
}

const COLORS: &[&str] = &["RED", "BLUE", "GREEN", "", "RED ", "red", "REDD", "A"];

impl Params {
    fn expression(&self) -> String {
        let (m, op) = match self.filter {
            0 => ("num", "="),
            1 => ("num", "<="),
            2 => ("color", "="),
            _ => ("color", "<="),
        };
        match self.spaces {
            0 => format!("{m} {op} %0"),
            1 => format!("{m}{op}%0"),
            _ => format!("  {m}   {op}  %0 "),
        }
    }
    fn parameter(&self) -> String {
        if self.filter < 2 { self.param_num.to_string() } else { self.param_color.clone() }
    }
    fn passes(&self, it: &Item) -> bool {
        match self.filter {
            0 => it.num == self.param_num,
            1 => it.num <= self.param_num,
            2 => it.color == self.param_color,
            _ => it.color <= self.param_color,
        }
    }
    fn to_json(&self) -> Json {
        Json::obj()
            .set("expression", self.expression())
            .set("parameter", self.parameter())
            .set("writes", self.n_writes)
            .set("data_submessages_per_datagram", self.group)
            .set("instances", self.n_instances)
            .set("policy", format!("{:?}", self.policy))
    }
}

fn gen_params(rng: &mut Rng) -> Params {
    Params {
        filter: rng.below(4) as u32,
        param_num: *rng.pick(&[-5i32, 0, 1, 3, 7, i32::MAX, i32::MIN]),
        param_color: rng.pick(COLORS).to_string(),
        n_writes: 4 + rng.below(28) as u32,
        group: *rng.pick(&[1u32, 1, 2, 3, 5, 8]),
        n_instances: 1 + rng.below(4) as u32,
        policy: pick_policy(rng),
        spaces: rng.below(3) as u32,
    }
}

struct Outcome {
    created: Result<(), String>,
    matched: bool,
    written: Vec<Item>,
    filtered_got: BTreeSet<u32>,
    plain_got: BTreeSet<u32>,
    merged_datagrams: u64,
}

async fn scenario(w: World, p: Params) -> Outcome {
    let sim = w.sim.clone();
    let mut out = Outcome {
        created: Ok(()),
        matched: false,
        written: vec![],
        filtered_got: BTreeSet::new(),
        plain_got: BTreeSet::new(),
        merged_datagrams: 0,
    };
    let dpw = new_participant(&w, 0).await;
    let tw = new_topic::<Item>(&dpw, "Items", "Item").await;
    let pb = new_publisher(&dpw).await;
    let dw = new_writer::<Item>(
        &pb,
        &tw,
        DataWriterQos {
            reliability: reliable(1000),
            history: keep_all(),
            ..Default::default()
        },
    )
    .await;
    let dpr = new_participant(&w, 0).await;
    let tr = new_topic::<Item>(&dpr, "Items", "Item").await;
    let cft = match dpr
        .create_contentfilteredtopic("ItemsFiltered", &tr, p.expression(), vec![p.parameter()])
        .await
    {
        Ok(c) => c,
        Err(e) => {
            out.created = Err(err_name(&e));
            return out;
        }
    };
    let sb = new_subscriber(&dpr).await;
    let rq = DataReaderQos {
        reliability: reliable(100),
        history: keep_all(),
        ..Default::default()
    };
    use dust_dds::infrastructure::listener::NO_LISTENER;
    use dust_dds::infrastructure::qos::QosKind;
    use dust_dds::infrastructure::status::NO_STATUS;
    let drf = match sb
        .create_datareader::<Item>(&cft, QosKind::Specific(rq.clone()), NO_LISTENER, NO_STATUS)
        .await
    {
        Ok(r) => r,
        Err(e) => {
            out.created = Err(err_name(&e));
            return out;
        }
    };
    let drp = new_reader::<Item>(&sb, &tr, rq).await;
    out.matched = wait_matched(&sim, &dw, 2, 20 * SEC).await
        && wait_reader_matched(&sim, &drf, 1, 20 * SEC).await
        && wait_reader_matched(&sim, &drp, 1, 20 * SEC).await;
    if !out.matched {
        return out;
    }
    // merge `group` DATA-carrying datagrams of the writer into one RTPS message per destination
    let merged = std::sync::Arc::new(std::sync::atomic::AtomicU64::new(0));
    if p.group > 1 {
        let g = p.group as usize;
        let mut buf: Vec<(i64, Vec<u8>)> = Vec::new();
        let merged2 = merged.clone();
        w.net.set_policy(Some(Box::new(move |pkt: &Pkt, _r: &mut Rng| {
            let flush = |buf: &mut Vec<(i64, Vec<u8>)>| -> Vec<u8> {
                let mut m = buf[0].1[..20].to_vec();
                for (_, b) in buf.iter() {
                    m.extend_from_slice(&b[20..]);
                }
                buf.clear();
                m
            };
            if pkt.class == Class::User && pkt.src == 0 && pkt.bytes.len() > 20 {
                let has_data = pkt.walk.subs.iter().any(|s| s.id == rtpswalk::DATA);
                // a DATA submessage announced with octetsToNextHeader = 0 must stay last
                let mergeable = has_data && !pkt.walk.subs.iter().any(|s| s.wire_len == 0 && s.id != rtpswalk::PAD && s.id != rtpswalk::INFO_TS);
                if mergeable {
                    buf.push((pkt.now, pkt.bytes.to_vec()));
                    if buf.len() >= g {
                        merged2.fetch_add(1, std::sync::atomic::Ordering::Relaxed);
                        return vec![Delivery {
                            delay_ns: BASE_LATENCY,
                            bytes: Some(flush(&mut buf)),
                        }];
                    }
                    return vec![];
                }
                // anything else from the writer (periodic heartbeat): flush a stale partial group first
                if !buf.is_empty() && pkt.now - buf[0].0 > 30 * MS {
                    merged2.fetch_add(1, std::sync::atomic::Ordering::Relaxed);
                    return vec![
                        Delivery {
                            delay_ns: BASE_LATENCY,
                            bytes: Some(flush(&mut buf)),
                        },
                        Delivery::after(BASE_LATENCY + 1000),
                    ];
                }
            }
            vec![Delivery::after(BASE_LATENCY)]
        })));
    }
    let mut rng = Rng::new(p.n_writes as u64 * 13 + p.filter as u64);
    for seq in 0..p.n_writes {
        let it = Item {
            key: rng.below(p.n_instances as u64) as u32,
            seq,
            num: match rng.below(4) {
                0 => p.param_num,
                1 => p.param_num.wrapping_add(1),
                2 => p.param_num.wrapping_sub(1),
                _ => rng.range(-10, 10) as i32,
            },
            color: if rng.chance(0.4) { p.param_color.clone() } else { rng.pick(COLORS).to_string() },
        };
        if dw.write(it.clone(), None).await.is_ok() {
            out.written.push(it);
        }
        if rng.chance(0.2) {
            sim.sleep(rng.below(4) as i64 * MS + 1).await;
        }
    }
    // settle: the unfiltered reader must receive everything (then the filtered one had its chance too)
    let deadline = sim.now() + 30 * SEC;
    loop {
        for (dr, set) in [(&drf, &mut out.filtered_got), (&drp, &mut out.plain_got)] {
            if let Ok(s) = dr.take(i32::MAX, ANY_SAMPLE_STATE, ANY_VIEW_STATE, ANY_INSTANCE_STATE).await {
                for x in s {
                    if let Some(m) = x.data {
                        set.insert(m.seq);
                    }
                }
            }
        }
        if (out.plain_got.len() == out.written.len() && sim.now() > deadline - 28 * SEC) || sim.now() > deadline {
            break;
        }
        sim.sleep(100 * MS).await;
    }
    out.merged_datagrams = merged.load(std::sync::atomic::Ordering::Relaxed);
    out
}

pub fn run(shard: &Shard) -> Report {
    let mut rep = Report::new("C26");
    for case in shard.my_cases() {
        let cs = shard.case_seed(case);
        let mut rng = Rng::new(cs);
        let p = gen_params(&mut rng);
        let mut cfg = WorldConfig::default();
        cfg.sim.seed = cs;
        cfg.sim.policy = p.policy;
        cfg.sim.max_polls = 4_000_000;
        let p2 = p.clone();
        let (res, stats, _net) = run_world(&cfg, move |w| scenario(w, p2));
        rep.eval();
        let replay = shard.base_replay("cfilter", case).set("params", p.to_json());
        let panicked = report_panics(&mut rep, &stats, &replay);
        let Some(o) = res else {
            if !panicked {
                rep.inconclusive(format!("case {case}: scenario did not finish ({:?})", stats.stop));
            }
            continue;
        };
        let kind = ["int_eq", "int_le", "string_eq", "string_le"][p.filter as usize];
        if let Err(e) = &o.created {
            rep.violation(
                format!("filter_rejected|kind={kind}|error={e}"),
                format!("supported filter expression '{}' was rejected with {e}", p.expression()),
                replay.clone(),
            );
            continue;
        }
        if !o.matched {
            if !panicked {
                rep.inconclusive(format!("case {case}: endpoints did not match"));
            }
            continue;
        }
        if o.plain_got.len() != o.written.len() {
            // the unfiltered control reader did not get everything: delivery problem, not a filter verdict
            if !panicked {
                rep.inconclusive(format!("case {case}: unfiltered control reader got {} of {}", o.plain_got.len(), o.written.len()));
            }
            continue;
        }
        let batch = if o.merged_datagrams > 0 { "yes" } else { "no" };
        let expected: BTreeSet<u32> = o.written.iter().filter(|i| p.passes(i)).map(|i| i.seq).collect();
        let lost: Vec<u32> = expected.difference(&o.filtered_got).cloned().collect();
        let leaked: Vec<u32> = o.filtered_got.difference(&expected).cloned().collect();
        if !lost.is_empty() {
            rep.violation(
                format!("lost_passing|kind={kind}|batch={batch}"),
                format!(
                    "filter '{}' with %0='{}': {} of {} passing samples were not presented (e.g. #{}), although the unfiltered reader got all {}",
                    p.expression(), p.parameter(), lost.len(), expected.len(), lost[0], o.written.len()
                ),
                replay.clone().set("violation", "lost_passing").set("lost", lost.iter().take(10).cloned().collect::<Vec<_>>()),
            );
        }
        if !leaked.is_empty() {
            rep.violation(
                format!("leaked_failing|kind={kind}|batch={batch}"),
                format!("filter '{}' with %0='{}': {} failing samples were presented (e.g. #{})", p.expression(), p.parameter(), leaked.len(), leaked[0]),
                replay.clone().set("violation", "leaked_failing").set("leaked", leaked.iter().take(10).cloned().collect::<Vec<_>>()),
            );
        }
        rep.stat("samples_written", o.written.len() as i128);
        rep.stat("samples_passing", expected.len() as i128);
        rep.stat("merged_datagrams", o.merged_datagrams as i128);
        if !expected.is_empty() && expected.len() < o.written.len() {
            rep.nontrivial(vcore::mix(stats.poll_hash, vcore::fnv_str(&p.to_json().to_string())));
        }
        rep.set("filter_kinds", kind);
        if case < 40 {
            rep.sample(
                Json::obj()
                    .set("case", case)
                    .set("params", p.to_json())
                    .set("written", o.written.len())
                    .set("passing", expected.len())
                    .set("presented_filtered", o.filtered_got.len())
                    .set("merged_datagrams", o.merged_datagrams),
            );
        }
    }
    rep
}
