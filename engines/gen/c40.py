"""C40: #[derive(DdsType)] describes and converts types faithfully.

Generator of type declarations inside the attribute language documented in /repo/README.md
("Rust type definition using #[derive(DdsType)]"), Rust program emitter, and oracle comparing the
dumped DynamicType / round-trip results with the generator's own model."""
import hashlib, json, os

from common import Rng, h64

PRIMS = ["u8", "i8", "u16", "i16", "u32", "i32", "u64", "i64", "f32", "f64", "bool", "char"]
PRIM_KIND = {"u8": "UINT8", "i8": "INT8", "u16": "UINT16", "i16": "INT16", "u32": "UINT32", "i32": "INT32",
             "u64": "UINT64", "i64": "INT64", "f32": "FLOAT32", "f64": "FLOAT64", "bool": "BOOLEAN", "char": "CHAR8"}
INT_RANGE = {"u8": (0, 255), "i8": (-128, 127), "u16": (0, 65535), "i16": (-32768, 32767),
             "u32": (0, 2**32 - 1), "i32": (-2**31, 2**31 - 1), "u64": (0, 2**64 - 1), "i64": (-2**63, 2**63 - 1)}
WORDS = ["alpha", "beta", "gamma", "delta", "speed", "color", "height", "width", "depth", "count", "flag", "name",
         "ident", "value", "total", "angle", "temp", "mass", "label", "code", "state", "level", "offset", "length",
         "payload", "stamp", "seq_no", "x", "y", "z", "lat", "lon", "alt", "rate", "gain", "mode_a", "kind_of",
         "owner", "parent_id", "child", "first", "second", "third", "last_seen", "min_v", "max_v", "avg", "sum_all",
         "id_", "key_a", "data", "msg", "text", "blob", "items", "points", "samples", "q", "w", "e1"]
TYPE_WORDS = ["Point", "Shape", "Sensor", "Track", "Frame", "Packet", "Status", "Config", "Reading", "Pose", "Cmd",
              "Event", "Header", "Sample", "Record", "Node", "Item", "Color", "Mode", "Kind", "Level", "Phase"]
VAR_WORDS = ["Red", "Green", "Blue", "On", "Off", "Idle", "Busy", "Low", "Mid", "High", "North", "South", "East",
             "West", "Alpha", "Beta", "Gamma", "Open", "Closed", "Fault", "Init", "Run", "Stop", "Circle", "Square"]
MASK28 = 0x0FFFFFFF


def md5_le(name):
    d = hashlib.md5(name.encode()).digest()
    return int.from_bytes(d[:4], "little")


# ------------------------------------------------------------------------------------------------
# type expressions
# ------------------------------------------------------------------------------------------------

def rust_type(t):
    k = t["k"]
    if k == "prim":
        return t["t"]
    if k == "string":
        return "String"
    if k == "vec":
        return "Vec<%s>" % rust_type(t["e"])
    if k == "arr":
        return "[%s; %d]" % (rust_type(t["e"]), t["n"])
    if k == "opt":
        return "Option<%s>" % rust_type(t["e"])
    if k == "box":
        return "Box<%s>" % rust_type(t["e"])
    if k == "ref":
        return t["name"]
    raise ValueError(k)


def type_class(t):
    k = t["k"]
    if k == "prim":
        return t["t"]
    if k == "string":
        return "String"
    if k in ("vec", "arr", "opt", "box"):
        return "%s<%s>" % ({"vec": "Vec", "arr": "Arr", "opt": "Option", "box": "Box"}[k], type_class(t["e"]))
    if k == "ref":
        return t["dk"]
    raise ValueError(k)


def type_refs(t, out):
    if t["k"] == "ref":
        out.append(t["name"])
    elif "e" in t:
        type_refs(t["e"], out)


def gen_expr(t):
    """Rust expression producing a random value of type t using `r: &mut Rng`."""
    k = t["k"]
    if k == "prim":
        return "r.%s()" % {"char": "ch"}.get(t["t"], t["t"])
    if k == "string":
        return "r.string()"
    if k == "vec":
        return "r.vec(|r| %s)" % gen_expr(t["e"])
    if k == "arr":
        return "core::array::from_fn::<_, %d, _>(|_| %s)" % (t["n"], gen_expr(t["e"]))
    if k == "opt":
        return "if r.bool() { Some(%s) } else { None }" % gen_expr(t["e"])
    if k == "box":
        return "Box::new(%s)" % gen_expr(t["e"])
    if k == "ref":
        return "gen_%s(r, false)" % t["name"]
    raise ValueError(k)


def has_default(t):
    """Every generated declaration implements Default (derived for structs, first variant for enums
    and unions), arrays are at most 5 long: every member type has a Default."""
    return True


# ------------------------------------------------------------------------------------------------
# generator
# ------------------------------------------------------------------------------------------------

class Gen:
    def __init__(self, rng, prefix):
        self.r = rng
        self.prefix = prefix
        self.counter = 0
        self.decls = []          # in dependency order
        self.by_name = {}

    def fresh_type_name(self):
        self.counter += 1
        return "%s%s%d" % (self.r.choice(TYPE_WORDS), self.prefix, self.counter)

    def dds_name_attr(self, ident):
        r = self.r
        c = r.below(10)
        if c < 6:
            return None
        if c == 6:
            return ident
        if c == 7:
            return "%s::%s" % (r.choice(["geo", "nav", "core_types", "M"]), ident)
        if c == 8:
            return "%s::%s::%s_t" % (r.choice(["pkg", "sys"]), r.choice(["a", "msgs", "v2"]), ident)
        return r.choice(TYPE_WORDS) + "Type"

    def pick_ref(self, kinds, max_depth=2):
        c = [d for d in self.decls if d["kind"] in kinds and d["depth"] <= max_depth]
        if not c:
            return None
        d = self.r.choice(c[-12:])
        return {"k": "ref", "name": d["name"], "dk": d["kind"]}

    def elem_type(self):
        """element type of Vec / array: primitive, String or a generated type"""
        r = self.r
        c = r.below(10)
        if c < 6:
            return {"k": "prim", "t": r.choice(PRIMS)}
        if c < 8:
            return {"k": "string"}
        ref = self.pick_ref(("struct", "enum", "union"), 1)
        return ref or {"k": "prim", "t": r.choice(PRIMS)}

    def base_member_type(self):
        """a non-optional, non-external member type"""
        r = self.r
        c = r.below(20)
        if c < 8:
            return {"k": "prim", "t": r.choice(PRIMS)}
        if c < 10:
            return {"k": "string"}
        if c < 13:
            return {"k": "vec", "e": self.elem_type()}
        if c < 16:
            return {"k": "arr", "e": self.elem_type(), "n": r.range(1, 5)}
        ref = self.pick_ref(("struct", "enum", "union"))
        return ref or {"k": "prim", "t": r.choice(PRIMS)}

    def default_literal(self, t):
        r = self.r
        p = t["t"]
        if p in INT_RANGE:
            lo, hi = INT_RANGE[p]
            return str(r.choice([0, 1, 5, 18, 42, 100, hi, lo if lo < 0 else 7]))
        if p in ("f32", "f64"):
            return r.choice(["0.5", "1.0", "-2.25", "100.0"])
        if p == "bool":
            return r.choice(["true", "false"])
        return "'%s'" % r.choice("abcxyzQ")

    # -------------------------------------------------------------------------------- struct
    def gen_struct(self):
        r = self.r
        ident = self.fresh_type_name()
        tuple_ = r.chance(0.25)
        ext = r.weighted([(None, 3), ("final", 2), ("appendable", 3), ("mutable", 4)])
        attrs = {"name": self.dds_name_attr(ident), "ext": ext, "nested": r.chance(0.25)}
        n = r.range(1, 7)
        names = []
        members = []
        for i in range(n):
            if tuple_:
                mname = None
            else:
                while True:
                    mname = r.choice(WORDS) + (str(r.below(10)) if r.chance(0.2) else "")
                    if mname not in names:
                        break
                names.append(mname)
            m = {"name": mname, "key": False, "id": None, "id_hex": False, "hashid": False, "optional": False,
                 "default": None, "ns": False, "external": False}
            shape = r.weighted([("plain", 70), ("optional", 12), ("ns", 7), ("external", 5), ("default", 8)])
            if shape == "optional":
                m["ty"] = {"k": "opt", "e": self.base_member_type()}
                m["optional"] = True
            elif shape == "external":
                ref = self.pick_ref(("struct", "union", "enum"))
                if ref:
                    m["ty"] = {"k": "box", "e": ref}
                    m["external"] = True
                else:
                    m["ty"] = self.base_member_type()
            elif shape == "ns":
                for _ in range(8):
                    t = self.base_member_type()
                    if has_default(t):
                        break
                else:
                    t = {"k": "prim", "t": "u32"}
                if r.chance(0.2):
                    t = {"k": "opt", "e": t}
                m["ty"] = t
                m["ns"] = True
            elif shape == "default":
                m["ty"] = {"k": "prim", "t": r.choice(PRIMS)}
                m["default"] = self.default_literal(m["ty"])
            else:
                m["ty"] = self.base_member_type()
            if not m["optional"] and not m["ns"] and r.chance(0.18):
                m["key"] = True
            if not m["ns"] or r.chance(0.3):
                c = r.below(100)
                lim = 45 if ext == "mutable" else 12
                if c < lim:
                    m["id"] = r.choice([r.below(16), r.below(200), r.below(0x4000), r.below(MASK28 + 1)])
                    m["id_hex"] = r.chance(0.25)
                elif c < lim + (12 if ext == "mutable" else 6) and mname is not None:
                    m["hashid"] = True
                elif c < lim + 8 and mname is None and r.chance(0.3):
                    m["hashid"] = True
            members.append(m)
        self.fix_ids(members)
        for m in members:
            m["attr_src"] = self.member_attr_src(m)
        d = {"kind": "struct", "tuple": tuple_, "name": ident, "attrs": attrs, "members": members}
        d["attr_src"] = self.container_attr_src(d)
        return d

    def fix_ids(self, members):
        """Explicit / hashed / automatic ids must be pairwise distinct under every reading of the
        documentation (see expected_ids); otherwise explicit ids are dropped."""
        for attempt in range(6):
            ok = True
            for rule in ("xtypes", "derive", "xtypes_unmasked", "derive_unmasked"):
                ids = [c[0] for c in assigned_ids(members, rule)]
                if len(set(ids)) != len(ids) or any(i > 0xFFFFFFFF for i in ids):
                    ok = False
            if ok:
                return
            # drop one explicit id (the last one) and retry
            for m in reversed(members):
                if m["id"] is not None:
                    m["id"] = None
                    break
            else:
                for m in members:
                    m["hashid"] = False

    def member_attr_src(self, m):
        parts = []
        if m["key"]:
            parts.append("key")
        if m["id"] is not None:
            parts.append("id = %s" % (("0x%X" % m["id"]) if m["id_hex"] else str(m["id"])))
        if m["hashid"]:
            parts.append("hashid")
        if m["optional"]:
            parts.append("optional")
        if m["default"] is not None:
            parts.append("default_value = %s" % m["default"])
        if m["ns"]:
            parts.append("non_serialized")
        if m["external"]:
            parts.append("external")
        self.r.shuffle(parts)
        return ", ".join(parts)

    def container_attr_src(self, d):
        a = d["attrs"]
        parts = []
        if a.get("name") is not None:
            parts.append('name = "%s"' % a["name"])
        if a.get("ext") is not None:
            parts.append('extensibility = "%s"' % a["ext"])
        if a.get("nested"):
            parts.append("nested")
        if a.get("bit_bound") is not None:
            parts.append('bit_bound = "%d"' % a["bit_bound"])
        if d["kind"] == "union":
            sw = rust_type(a["switch"])
            parts.append("switch(key, %s)" % sw if a["switch_key"] else "switch(%s)" % sw)
        self.r.shuffle(parts)
        return ", ".join(parts)

    # -------------------------------------------------------------------------------- enum
    def gen_enum(self):
        r = self.r
        ident = self.fresh_type_name()
        bb = r.weighted([(None, 4), (8, 2), (16, 2), (32, 2)])
        hi = {None: 2**31 - 1, 8: 127, 16: 32767, 32: 2**31 - 1}[bb]
        n = r.range(1, 7)
        mode = r.weighted([("none", 4), ("all", 3), ("some", 3)])
        vs = []
        names = []
        cur = -1
        for i in range(n):
            while True:
                vn = r.choice(VAR_WORDS) + (str(r.below(10)) if r.chance(0.15) else "")
                if vn not in names:
                    break
            names.append(vn)
            disc = None
            if mode == "all" or (mode == "some" and r.chance(0.4)):
                room = hi - (n - i) - cur
                if room > 1:
                    step = r.choice([1, 2, 5, 10, 100, 1000, room - 1])
                    step = max(1, min(step, room - 1))
                    disc = cur + step
            val = disc if disc is not None else cur + 1
            cur = val
            vs.append({"name": vn, "disc": disc, "value": val})
        attrs = {"name": self.dds_name_attr(ident), "nested": r.chance(0.2), "bit_bound": bb}
        d = {"kind": "enum", "name": ident, "attrs": attrs, "variants": vs}
        d["attr_src"] = self.container_attr_src(d)
        return d

    # -------------------------------------------------------------------------------- union
    def gen_union(self):
        r = self.r
        ident = self.fresh_type_name()
        sw_kind = r.weighted([("int", 7), ("char", 1), ("bool", 1), ("enum", 2)])
        sw_enum = None
        if sw_kind == "enum":
            ref = self.pick_ref(("enum",), 0)
            if ref is None:
                sw_kind = "int"
            else:
                sw_enum = self.by_name[ref["name"]]
                sw = ref
        if sw_kind == "int":
            sw = {"k": "prim", "t": r.choice(["u8", "i8", "u16", "i16", "u32", "i32", "u64", "i64"])}
        elif sw_kind == "char":
            sw = {"k": "prim", "t": "char"}
        elif sw_kind == "bool":
            sw = {"k": "prim", "t": "bool"}
        maxn = {"bool": 2, "enum": len(sw_enum["variants"]) if sw_enum else 0}.get(sw_kind, 5)
        n = r.range(1, max(1, min(5, maxn)))
        default_at = r.below(n) if r.chance(0.35) else None
        if default_at is not None and r.chance(0.6):
            default_at = n - 1          # README example: default variant last
        used = set()
        variants = []
        names = []

        def fresh_label():
            if sw_kind == "int":
                lo, hi = INT_RANGE[sw["t"]]
                lo, hi = max(lo, -2**31), min(hi, 2**31 - 1)
                for _ in range(50):
                    v = r.choice([r.range(0, 12), r.range(lo, hi), r.range(max(lo, -5), min(hi, 40))])
                    if v not in used and v not in range(0, n + 1):
                        return str(v), v
                return None
            if sw_kind == "char":
                for _ in range(50):
                    c = r.choice("abcdefghijkXYZ0123")
                    if ord(c) not in used:
                        return "'%s'" % c, ord(c)
                return None
            if sw_kind == "bool":
                for b, v in (("true", 1), ("false", 0)):
                    if v not in used:
                        return b, v
                return None
            for v in sw_enum["variants"]:
                if v["value"] not in used:
                    return "%s::%s" % (sw_enum["name"], v["name"]), v["value"]
            return None

        for i in range(n):
            while True:
                vn = r.choice(VAR_WORDS) + (str(r.below(10)) if r.chance(0.15) else "")
                if vn not in names:
                    break
            names.append(vn)
            form = r.weighted([("tuple", 5), ("named", 3), ("unit", 2)])
            v = {"name": vn, "form": form, "field": None, "ty": None, "cases": [], "default": default_at == i}
            if form != "unit":
                v["ty"] = self.base_member_type()
                if form == "named":
                    v["field"] = r.choice(WORDS)
            # labels: integers may omit `case` (documented: 0-indexed position); indices 0..n are
            # reserved for that so that explicit labels never collide under either numbering.
            omit = sw_kind == "int" and r.chance(0.35)
            if not omit:
                k = 1 if r.chance(0.8) else 2
                for _ in range(k):
                    lab = fresh_label()
                    if lab is None:
                        break
                    used.add(lab[1])
                    v["cases"].append({"src": lab[0], "val": lab[1]})
                if not v["cases"]:
                    if sw_kind != "int":
                        break           # label space exhausted: stop adding variants
            parts = ["case = %s" % c["src"] for c in v["cases"]]
            if v["default"]:
                parts.append("default")
            r.shuffle(parts)
            v["attr_src"] = ", ".join(parts)
            variants.append(v)
        if not any(v["form"] != "unit" for v in variants):
            # an enum without any data-carrying variant is an enumerated type, not a union
            variants[0]["form"] = "tuple"
            variants[0]["ty"] = {"k": "prim", "t": r.choice(PRIMS)}
        attrs = {"name": self.dds_name_attr(ident), "ext": r.weighted([(None, 3), ("final", 2), ("appendable", 3), ("mutable", 3)]),
                 "nested": r.chance(0.2), "switch": sw, "switch_key": r.chance(0.2)}
        d = {"kind": "union", "name": ident, "attrs": attrs, "variants": variants}
        d["attr_src"] = self.container_attr_src(d)
        return d

    def add(self, d):
        deps = []
        if d["kind"] == "struct":
            for m in d["members"]:
                type_refs(m["ty"], deps)
        elif d["kind"] == "union":
            type_refs(d["attrs"]["switch"], deps)
            for v in d["variants"]:
                if v["ty"]:
                    type_refs(v["ty"], deps)
        d["deps"] = sorted(set(deps))
        d["depth"] = 1 + max([self.by_name[x]["depth"] for x in d["deps"]], default=-1)
        self.decls.append(d)
        self.by_name[d["name"]] = d
        return d

    def gen_decl(self):
        kind = self.r.weighted([("struct", 60), ("enum", 15), ("union", 25)])
        if kind == "struct":
            return self.add(self.gen_struct())
        if kind == "enum":
            return self.add(self.gen_enum())
        return self.add(self.gen_union())


def assigned_ids(members, rule):
    """[(id, source)] under one reading of the documentation.
    xtypes: explicit id, else hash (masked to 28 bits), else previous member's id + 1.
    derive: like xtypes but a hashed member does not advance the automatic counter.
    *_unmasked: the hash is used unmasked (README wording: 'first 4 bytes as a little-endian integer')."""
    out = []
    prev = -1
    prev_nonhash = -1
    for i, m in enumerate(members):
        name = m["name"] if m["name"] is not None else str(i)
        if m["hashid"]:
            h = md5_le(name)
            if not rule.endswith("unmasked"):
                h &= MASK28
            out.append((h, "hashid"))
            prev = h
        elif m["id"] is not None:
            out.append((m["id"], "id"))
            prev = prev_nonhash = m["id"]
        else:
            v = (prev if rule.startswith("xtypes") else prev_nonhash) + 1
            out.append((v, "auto"))
            prev = prev_nonhash = v
    return out


# ------------------------------------------------------------------------------------------------
# Rust emission
# ------------------------------------------------------------------------------------------------

def decl_source(d):
    lines = ["#[derive(DdsType, Debug, Clone, PartialEq%s)]" % (", Default" if d["kind"] == "struct" else "")]
    if d["attr_src"]:
        lines.append("#[dust_dds(%s)]" % d["attr_src"])
    if d["kind"] == "struct":
        if d["tuple"]:
            fs = []
            for m in d["members"]:
                a = "#[dust_dds(%s)] " % m["attr_src"] if m["attr_src"] else ""
                fs.append("    %spub %s," % (a, rust_type(m["ty"])))
            lines.append("pub struct %s(\n%s\n);" % (d["name"], "\n".join(fs)))
        else:
            lines.append("pub struct %s {" % d["name"])
            for m in d["members"]:
                if m["attr_src"]:
                    lines.append("    #[dust_dds(%s)]" % m["attr_src"])
                lines.append("    pub %s: %s," % (m["name"], rust_type(m["ty"])))
            lines.append("}")
    elif d["kind"] == "enum":
        lines.append("pub enum %s {" % d["name"])
        for v in d["variants"]:
            lines.append("    %s%s," % (v["name"], "" if v["disc"] is None else " = %d" % v["disc"]))
        lines.append("}")
    else:
        lines.append("pub enum %s {" % d["name"])
        for v in d["variants"]:
            if v["attr_src"]:
                lines.append("    #[dust_dds(%s)]" % v["attr_src"])
            if v["form"] == "unit":
                lines.append("    %s," % v["name"])
            elif v["form"] == "tuple":
                lines.append("    %s(%s)," % (v["name"], rust_type(v["ty"])))
            else:
                lines.append("    %s { %s: %s }," % (v["name"], v["field"], rust_type(v["ty"])))
        lines.append("}")
    return "\n".join(lines)


def harness_source(d, seed, nvalues):
    n = d["name"]
    out = []
    # value generator
    if d["kind"] == "struct":
        fields = []
        for i, m in enumerate(d["members"]):
            e = gen_expr(m["ty"])
            if m["ns"]:
                e = "if top { %s } else { Default::default() }" % e
            fields.append(e if d["tuple"] else "%s: %s" % (m["name"], e))
        body = "%s(%s)" % (n, ", ".join(fields)) if d["tuple"] else "%s { %s }" % (n, ", ".join(fields))
        out.append("fn gen_%s(r: &mut Rng, top: bool) -> %s {\n    %s\n}" % (n, n, body))
        resets = []
        for i, m in enumerate(d["members"]):
            if m["ns"]:
                resets.append("v.%s = Default::default();" % (str(i) if d["tuple"] else m["name"]))
        out.append("fn norm_%s(mut v: %s) -> %s {\n    %s\n    v\n}" % (n, n, n, " ".join(resets)))
    elif d["kind"] == "enum":
        arms = ["%d => %s::%s," % (i, n, v["name"]) for i, v in enumerate(d["variants"][:-1])]
        arms.append("_ => %s::%s," % (n, d["variants"][-1]["name"]))
        out.append("fn gen_%s(r: &mut Rng, top: bool) -> %s {\n    match r.below(%d) { %s }\n}" % (n, n, len(d["variants"]), " ".join(arms)))
        out.append("fn norm_%s(v: %s) -> %s { v }" % (n, n, n))
        out.append("impl Default for %s { fn default() -> Self { %s::%s } }" % (n, n, d["variants"][0]["name"]))
    else:
        arms = []
        for i, v in enumerate(d["variants"]):
            pat = "_" if i == len(d["variants"]) - 1 else str(i)
            if v["form"] == "unit":
                arms.append("%s => %s::%s," % (pat, n, v["name"]))
            elif v["form"] == "tuple":
                arms.append("%s => %s::%s(%s)," % (pat, n, v["name"], gen_expr(v["ty"])))
            else:
                arms.append("%s => %s::%s { %s: %s }," % (pat, n, v["name"], v["field"], gen_expr(v["ty"])))
        out.append("fn gen_%s(r: &mut Rng, top: bool) -> %s {\n    match r.below(%d) {\n        %s\n    }\n}" % (n, n, len(d["variants"]), "\n        ".join(arms)))
        out.append("fn norm_%s(v: %s) -> %s { v }" % (n, n, n))
        v0 = d["variants"][0]
        dv = {"unit": "%s::%s" % (n, v0["name"]), "tuple": "%s::%s(Default::default())" % (n, v0["name"]),
              "named": "%s::%s { %s: Default::default() }" % (n, v0["name"], v0["field"])}[v0["form"]]
        out.append("impl Default for %s { fn default() -> Self { %s } }" % (n, dv))
    # run fn
    run = ["fn run_%s() -> String {" % n,
           "    let mut o = String::new();",
           "    o.push_str(\"{\\\"decl\\\":\\\"%s\\\",\\\"type\\\":\");" % n,
           "    o.push_str(&dump_type(&<%s as TypeSupport>::get_type(), 0));" % n]
    if d["kind"] == "enum":
        run.append("    o.push_str(\",\\\"enum_values\\\":[\");")
        for i, v in enumerate(d["variants"]):
            run.append("    o.push_str(&format!(\"%s{{\\\"name\\\":\\\"%s\\\",\\\"value\\\":{}}}\", match catch(|| enum_value(&%s::%s.create_dynamic_sample())) { Ok(Some(x)) => x.to_string(), Ok(None) => \"null\".to_string(), Err(m) => jstr(&m) }));"
                       % ("," if i else "", v["name"], n, v["name"]))
        run.append("    o.push_str(\"]\");")
    run.append("    o.push(',');")
    run.append("    o.push_str(&roundtrip::<%s>(%d, %d, gen_%s, norm_%s));" % (n, seed, nvalues, n, n))
    run.append("    o.push('}');")
    run.append("    o")
    run.append("}")
    out.append("\n".join(run))
    return "\n".join(out)


BIN_HEAD = """#![allow(dead_code, unused, non_camel_case_types, non_snake_case, unreachable_patterns, clippy::all)]
#[path = "../prelude.rs"]
mod prelude;
use prelude::*;
use dust_dds::infrastructure::type_support::DdsType;
use dust_dds::xtypes::type_support::TypeSupport;
"""


def bin_source(decls, seed_of, nvalues):
    """Returns (source text, line_map [(first_line, last_line, decl name)])."""
    lines = BIN_HEAD.split("\n")
    line_map = []
    for d in decls:
        start = len(lines) + 1
        lines.extend(("// ---- %s" % d["name"]).split("\n"))
        lines.extend(decl_source(d).split("\n"))
        lines.extend(harness_source(d, seed_of(d), nvalues).split("\n"))
        line_map.append((start, len(lines), d["name"]))
    lines.append("fn main() {")
    lines.append("    install_panic_hook();")
    lines.append("    let mut out: Vec<String> = Vec::new();")
    for d in decls:
        lines.append("    out.push(match catch(run_%s) { Ok(s) => s, Err(m) => format!(\"{{\\\"decl\\\":\\\"%s\\\",\\\"panic\\\":{}}}\", jstr(&m)) });" % (d["name"], d["name"]))
    lines.append("    println!(\"[{}]\", out.join(\",\\n\"));")
    lines.append("}")
    return "\n".join(lines) + "\n", line_map


# ------------------------------------------------------------------------------------------------
# oracle
# ------------------------------------------------------------------------------------------------

def dds_name(d):
    return d["attrs"]["name"] if d["attrs"].get("name") is not None else d["name"]


def expected_kind(t, by_name):
    """(kind, name or None, elem expected or None, bound or None) of a member type; None = unchecked."""
    k = t["k"]
    if k == "prim":
        return {"kind": PRIM_KIND[t["t"]]}
    if k == "string":
        return {"kind": "STRING8"}
    if k == "vec":
        return {"kind": "SEQUENCE", "elem": expected_kind(t["e"], by_name)}
    if k == "arr":
        return {"kind": "ARRAY", "elem": expected_kind(t["e"], by_name), "bound": [t["n"]]}
    if k == "opt":
        return expected_kind(t["e"], by_name)
    if k == "box":
        return None
    if k == "ref":
        dk = {"struct": "STRUCTURE", "enum": "ENUM", "union": "UNION"}[t["dk"]]
        tgt = by_name.get(t["name"])
        return {"kind": dk, "name": dds_name(tgt) if tgt else None}
    return None


def kind_mismatch(exp, obs, path):
    """list of human readable differences between expected member type and dumped type"""
    if exp is None or obs is None:
        return []
    out = []
    if exp["kind"] != obs.get("kind"):
        out.append("%s kind expected %s got %s" % (path, exp["kind"], obs.get("kind")))
        return out
    if exp.get("name") is not None and exp["name"] != obs.get("name"):
        out.append("%s type name expected %s got %s" % (path, exp["name"], obs.get("name")))
    if exp.get("bound") is not None and exp["bound"] != obs.get("bound"):
        out.append("%s bound expected %s got %s" % (path, exp["bound"], obs.get("bound")))
    if exp.get("elem") is not None:
        out += kind_mismatch(exp["elem"], obs.get("elem"), path + ".elem")
    return out


def shape_of(d):
    """the (kind, attribute set, member type classes) shape hashed into `nontrivial`"""
    if d["kind"] == "struct":
        cont = ["tuple" if d["tuple"] else "named", "ext=%s" % d["attrs"]["ext"], "nested" if d["attrs"]["nested"] else "",
                "name" if d["attrs"]["name"] is not None else ""]
        mem = []
        for m in d["members"]:
            a = [x for x in ("key", "hashid", "optional", "ns", "external") if m[x]]
            if m["id"] is not None:
                a.append("id")
            if m["default"] is not None:
                a.append("default_value")
            mem.append("%s[%s]" % (type_class(m["ty"]), "+".join(sorted(a))))
        return "struct|%s|%s" % (",".join(cont), ",".join(sorted(mem)))
    if d["kind"] == "enum":
        mode = "disc:%s" % ("".join("x" if v["disc"] is not None else "." for v in d["variants"]))
        return "enum|bb=%s,%s,%s|%s" % (d["attrs"]["bit_bound"], "nested" if d["attrs"]["nested"] else "",
                                        "name" if d["attrs"]["name"] is not None else "", mode)
    cont = ["switch=%s" % type_class(d["attrs"]["switch"]), "key" if d["attrs"]["switch_key"] else "", "ext=%s" % d["attrs"]["ext"],
            "nested" if d["attrs"]["nested"] else "", "name" if d["attrs"]["name"] is not None else ""]
    mem = []
    for v in d["variants"]:
        mem.append("%s:%s[c%d%s]" % (v["form"], type_class(v["ty"]) if v["ty"] else "-", len(v["cases"]), "+default" if v["default"] else ""))
    return "union|%s|%s" % (",".join(cont), ",".join(mem))


def member_attr_label(m):
    a = [x for x in ("key", "hashid", "optional", "external") if m[x]]
    if m["ns"]:
        a.append("non_serialized")
    if m["id"] is not None:
        a.append("id")
    if m["default"] is not None:
        a.append("default_value")
    return "+".join(sorted(a)) or "none"


def check_decl(d, res, by_name, emit, note, rt_failed=None):
    """Compares one declaration's dump `res` with the model.
    emit(sig, what): violation; note(key, text): observation outside the property's demands.
    rt_failed: names of declarations whose own round trip failed (updated); a failure of a
    declaration that contains such a type is a consequence, not a new finding."""
    if rt_failed is None:
        rt_failed = set()
    n = d["name"]
    src = decl_source(d)
    if "panic" in res and "type" not in res:
        emit("descriptor_panic|kind=%s" % d["kind"], "%s: get_type()/dump panicked: %s\n%s" % (n, res["panic"], src))
        return
    t = res["type"]
    kind_exp = {"struct": "STRUCTURE", "enum": "ENUM", "union": "UNION"}[d["kind"]]

    def mm(field, attr, exp, obs, obs_class="other", extra=""):
        sig = "descriptor_mismatch|field=%s|attr=%s" % (field, attr)
        if field == "member_id" and attr in ("id", "auto"):
            sig += "|ext=%s" % ("mutable" if d["attrs"].get("ext") == "mutable" else "non_mutable")
        sig += "|obs=%s" % obs_class
        emit(sig, "%s: %s expected %s, descriptor has %s%s\n%s" % (n, field, exp, obs, extra, src))

    if t["kind"] != kind_exp:
        mm("type_kind", "-", kind_exp, t["kind"])
        return
    if t["name"] != dds_name(d):
        mm("type_name", "name" if d["attrs"]["name"] is not None else "-", dds_name(d), t["name"])
    if t["nested"] != bool(d["attrs"]["nested"]):
        mm("is_nested", "nested" if d["attrs"]["nested"] else "-", bool(d["attrs"]["nested"]), t["nested"])
    if d["kind"] in ("struct", "union"):
        e = d["attrs"]["ext"] or "final"       # README: defaults to "final"
        if t["ext"] != e:
            mm("extensibility", "extensibility", e, t["ext"])

    if d["kind"] == "struct":
        check_struct(d, t, by_name, mm, note)
    elif d["kind"] == "enum":
        check_enum(d, t, res, mm, note)
    else:
        check_union(d, t, by_name, mm, note)

    # round trip
    nfail = len(res.get("rt_fail", []))
    if nfail:
        rt_failed.add(n)
        if any(x in rt_failed for x in transitive_deps(d, by_name)):
            note("roundtrip_failures_inherited_from_member_type", "%s contains a type whose own round trip fails" % d["kind"])
            return
        whys = sorted(set(f["why"] for f in res["rt_fail"]))
        f0 = res["rt_fail"][0]
        feats = roundtrip_features(d, f0)
        if feats.startswith("variant_after_default"):
            # one root cause (the default arm shadows later variants), three symptoms depending on
            # the form of the shadowed variant: wrong variant / None / panic
            sig = "roundtrip_fail|kind=union|%s" % feats
        elif f0["why"] == "panic":
            import re
            msg = re.sub(r"\d+", "N", f0.get("got", ""))[:90]
            sig = "roundtrip_panic|kind=%s|%s|msg=%s" % (d["kind"], feats, msg)
        else:
            sig = "roundtrip_%s|kind=%s|%s" % (f0["why"], d["kind"], feats)
        emit(sig, "%s: %d of %d generated values did not survive create_sample(create_dynamic_sample(v)) (%s); first: value=%s expected=%s got=%s\n%s"
             % (n, nfail, res.get("rt_n", 0), ",".join(whys), f0.get("value"), f0.get("expected"), f0.get("got"), src))


def transitive_deps(d, by_name):
    out = set()
    todo = list(d.get("deps", []))
    while todo:
        x = todo.pop()
        if x in out or x not in by_name:
            continue
        out.add(x)
        todo += by_name[x].get("deps", [])
    return out


def roundtrip_features(d, fail=None):
    """short fixed feature list for round-trip signatures"""
    f = []
    if d["kind"] == "union":
        import re
        vs = d["variants"]
        di = [i for i, v in enumerate(vs) if v["default"]]
        m = re.match(r"\w+", (fail or {}).get("value") or "")
        vi = [i for i, v in enumerate(vs) if m and v["name"] == m.group(0)]
        if di and vi and vi[0] > di[0]:
            return "variant_after_default"
        if di:
            f.append("has_default")
        if vi:
            f.append("form=%s" % vs[vi[0]]["form"])
            f.append("cases=%d" % len(vs[vi[0]]["cases"]))
        f.append("switch=%s" % type_class(d["attrs"]["switch"]))
    elif d["kind"] == "struct":
        f.append("tuple" if d["tuple"] else "named")
        f.append("ext=%s" % (d["attrs"]["ext"] or "default"))
        a = set()
        for m in d["members"]:
            for x in ("hashid", "optional", "ns", "external"):
                if m[x]:
                    a.add(x)
            if m["id"] is not None:
                a.add("id")
            if m["default"] is not None:
                a.add("default_value")
        f.append("attrs=%s" % "+".join(sorted(a)))
    else:
        f.append("bit_bound=%s" % d["attrs"]["bit_bound"])
    return "|".join(f)


def check_struct(d, t, by_name, mm, note):
    members = d["members"]
    obs = t.get("members", [])
    obs_by_pos = {}
    # Non-serialized members: MemberDescriptor has no such flag, so the only way the description can
    # reflect them is by not listing them as (serialized) members.
    ns_listed = []
    if not d["tuple"]:
        by = {}
        for o in obs:
            by.setdefault(o.get("name"), []).append(o)
        pairs = []
        for i, m in enumerate(members):
            c = by.get(m["name"], [])
            pairs.append((i, m, c[0] if c else None))
        extra = [o.get("name") for o in obs if o.get("name") not in [m["name"] for m in members]]
        if extra:
            mm("member_list", "-", [m["name"] for m in members], [o.get("name") for o in obs])
    else:
        # tuple members have no documented names: match by position
        pairs = []
        if len(obs) == len(members):
            for i, m in enumerate(members):
                pairs.append((i, m, obs[i]))
        else:
            ser = [m for m in members if not m["ns"]]
            if len(obs) == len(ser):
                j = 0
                for i, m in enumerate(members):
                    if m["ns"]:
                        pairs.append((i, m, None))
                    else:
                        pairs.append((i, m, obs[j]))
                        j += 1
            else:
                mm("member_count", "-", len(members), len(obs))
                return
    ids = {r: assigned_ids(members, r) for r in ("xtypes", "derive", "xtypes_unmasked")}
    n_ser_before = 0
    for i, m, o in pairs:
        attr = member_attr_label(m)
        mname = m["name"] if m["name"] is not None else str(i)
        if m["ns"]:
            if o is not None:
                mm("non_serialized", "non_serialized", "member '%s' not described as a serialized member" % mname,
                   "an ordinary member (id=%s key=%s optional=%s)" % (o.get("id"), o.get("key"), o.get("opt")), "listed")
            continue
        if o is None:
            mm("member_missing", "-", "member '%s'" % mname, "no such member")
            n_ser_before += 1
            continue
        # index: declaration order (counting or not counting non-serialized members)
        if o.get("index") not in (i, n_ser_before):
            mm("member_index", "-", "%d for '%s'" % (i, mname), o.get("index"))
        n_ser_before += 1
        # id
        exp_id, src = ids["xtypes"][i]
        oid = o.get("id")
        if src == "id":
            if oid != exp_id:
                mm("member_id", "id", "%d (explicit) for '%s'" % (exp_id, mname), oid, "index" if oid == i else "other")
        elif src == "hashid":
            # README: "MD5 hash of the field's name (first 4 bytes as a little-endian integer)";
            # XTypes additionally masks with 0x0FFFFFFF. The documentation is ambiguous, so both the
            # documented (unmasked) and the XTypes (masked) value are accepted; anything else is flagged.
            if oid != exp_id and oid != ids["xtypes_unmasked"][i][0]:
                cls = "unmasked_md5" if oid == ids["xtypes_unmasked"][i][0] else "other"
                mm("member_id", "hashid", "0x%08X = md5('%s')[0..4] LE & 0x0FFFFFFF" % (exp_id, mname), "0x%08X" % oid if isinstance(oid, int) else oid, cls)
        else:
            acceptable = {exp_id, ids["derive"][i][0], i}
            if oid not in acceptable:
                mm("member_id", "auto", "one of %s for '%s'" % (sorted(acceptable), mname), oid)
        if bool(o.get("key")) != m["key"]:
            mm("is_key", "key" if m["key"] else "no_key", "%s for '%s'" % (m["key"], mname), o.get("key"))
        if bool(o.get("opt")) != m["optional"]:
            mm("is_optional", "optional" if m["optional"] else "no_optional", "%s for '%s'" % (m["optional"], mname), o.get("opt"))
        # outside the property's list: member type kind, external flag, default value
        for diff in kind_mismatch(expected_kind(m["ty"], by_name), o.get("type"), type_class(m["ty"])):
            note("unflagged_member_type_mismatch", diff)
        if bool(o.get("external")) != m["external"]:
            note("unflagged_external_flag", "external=%s described as %s" % (m["external"], o.get("external")))
        if m["default"] is not None and o.get("default") is None:
            note("unflagged_default_value", "default_value not present in MemberDescriptor.default_value")


def check_enum(d, t, res, mm, note):
    bb = d["attrs"]["bit_bound"] or 32     # README: defaults to "32"
    disc = (t.get("disc") or {}).get("kind")
    if disc != "INT%d" % bb:
        mm("enum_bit_bound", "bit_bound" if d["attrs"]["bit_bound"] else "-", "INT%d" % bb, disc)
    ev = {e["name"]: e["value"] for e in res.get("enum_values", [])}
    for v in d["variants"]:
        if ev.get(v["name"]) != v["value"]:
            mm("enum_value", "discriminant" if v["disc"] is not None else "-", "%s = %d" % (v["name"], v["value"]), ev.get(v["name"]))
    # literals listed in the description (if the implementation lists them at all)
    lits = t.get("members", [])
    if lits:
        names = [l.get("name") for l in lits]
        if names != [v["name"] for v in d["variants"]]:
            mm("enum_literals", "-", [v["name"] for v in d["variants"]], names)
    else:
        note("unflagged_enum_literals", "enum DynamicType lists no literals (member_count=0); values checked through create_dynamic_sample")


def check_union(d, t, by_name, mm, note):
    a = d["attrs"]
    sw = expected_kind(a["switch"], by_name)
    disc = t.get("disc") or {}
    if disc.get("kind") != sw["kind"] or (sw.get("name") is not None and disc.get("name") != sw["name"]):
        mm("union_discriminator", "switch", sw, {"kind": disc.get("kind"), "name": disc.get("name")})
    obs = t.get("members", [])
    # the discriminator may or may not be listed as a member; the variants follow in declaration order
    var_obs = [o for o in obs if not (o.get("name") == "discriminator" and not o.get("labels") and not o.get("default_label"))]
    disc_obs = [o for o in obs if o not in var_obs]
    if disc_obs:
        if bool(disc_obs[0].get("key")) != a["switch_key"]:
            mm("union_discriminator_key", "switch_key" if a["switch_key"] else "switch", a["switch_key"], disc_obs[0].get("key"))
    else:
        note("unflagged_union_discriminator_member", "discriminator not listed as member; key flag unchecked")
    vs = d["variants"]
    if len(var_obs) != len(vs):
        mm("union_member_count", "-", len(vs), len(var_obs))
        return
    all_labels = []
    for i, (v, o) in enumerate(zip(vs, var_obs)):
        names_ok = {v["name"]} | ({v["field"]} if v["field"] else set())
        if o.get("name") not in names_ok:
            mm("union_member_name", v["form"], sorted(names_ok), o.get("name"))
        labels = o.get("labels", [])
        all_labels += labels
        if bool(o.get("default_label")) != v["default"]:
            mm("union_default_label", "default" if v["default"] else "case", v["default"], o.get("default_label"))
        if v["cases"]:
            exp = [c["val"] for c in v["cases"]]
            if sorted(labels) != sorted(exp):
                mm("union_label", "case", exp, labels)
        elif not v["default"]:
            # README: "If omitted, defaults to the 0-indexed index of the variant."
            if labels != [i]:
                mm("union_label", "case_omitted", "[%d] (0-indexed position of variant %s)" % (i, v["name"]), labels,
                   "index_plus_1" if labels == [i + 1] else "other")
        if v["ty"] is not None:
            for diff in kind_mismatch(expected_kind(v["ty"], by_name), o.get("type"), type_class(v["ty"])):
                note("unflagged_member_type_mismatch", diff)
    if len(set(all_labels)) != len(all_labels):
        mm("union_label", "duplicate", "pairwise distinct labels", all_labels, "duplicate")
