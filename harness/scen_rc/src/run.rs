//! Executes a history against real dust-dds participants in the simulation and compares every
//! reader operation with the model.
use crate::common::*;
use crate::hist::*;
use crate::model::*;
use dust_dds::dds_async::data_reader::DataReaderAsync;
use dust_dds::dds_async::data_reader_listener::DataReaderListener;
use dust_dds::dds_async::data_writer::DataWriterAsync;
use dust_dds::dds_async::domain_participant::DomainParticipantAsync;
use dust_dds::dds_async::publisher::PublisherAsync;
use dust_dds::dds_async::subscriber::SubscriberAsync;
use dust_dds::dds_async::topic::TopicAsync;
use dust_dds::infrastructure::error::DdsResult;
use dust_dds::infrastructure::instance::InstanceHandle;
use dust_dds::infrastructure::listener::NO_LISTENER;
use dust_dds::infrastructure::qos::{DataReaderQos, DataWriterQos, QosKind};
use dust_dds::infrastructure::qos_policy::*;
use dust_dds::infrastructure::sample_info::{InstanceStateKind, Sample, SampleStateKind, ViewStateKind};
use dust_dds::infrastructure::status::{SampleRejectedStatus, SampleRejectedStatusKind, StatusKind};
use dust_dds::infrastructure::time::{DurationKind, Time};
use simnet::*;
use std::collections::BTreeMap;
use std::future::Future;
use std::sync::{Arc, Mutex};

pub const TS_BASE_S: i32 = 1000;

pub fn ts_to_time(ts: i64) -> Time {
    Time::new(TS_BASE_S + (ts / 1000) as i32, ((ts % 1000) * 1_000_000) as u32)
}
pub fn time_to_ts(t: Time) -> i64 {
    (t.sec() as i64 - TS_BASE_S as i64) * 1000 + (t.nanosec() as i64 + 500_000) / 1_000_000
}

#[derive(Clone, Debug)]
pub struct Found {
    pub sig: String,
    pub what: String,
    pub op_index: usize,
}

#[derive(Default, Debug)]
pub struct Outcome {
    pub findings: Vec<Found>,
    pub abandoned: Option<String>,
    pub inconclusive: Option<String>,
    pub stats: BTreeMap<String, i64>,
    pub shape: u64,
    pub states: Vec<u64>,
    pub trace: Vec<String>,
    pub nontrivial: bool,
    pub ops_executed: usize,
}

impl Outcome {
    pub fn stat(&mut self, k: &str, n: i64) {
        *self.stats.entry(k.to_string()).or_insert(0) += n;
    }
}

pub struct RejListener {
    pub log: Arc<Mutex<Vec<SampleRejectedStatus>>>,
}
impl DataReaderListener<Msg> for RejListener {
    fn on_sample_rejected(
        &mut self,
        _the_reader: DataReaderAsync<Msg>,
        status: SampleRejectedStatus,
    ) -> impl Future<Output = ()> + Send {
        self.log.lock().unwrap().push(status);
        core::future::ready(())
    }
}

pub struct Env {
    pub sim: Sim,
    pub wparts: Vec<(DomainParticipantAsync, TopicAsync, PublisherAsync)>,
    pub writers: Vec<Option<DataWriterAsync<Msg>>>,
    /// kept alive for the duration of the scenario
    #[allow(dead_code)]
    pub rpart: (DomainParticipantAsync, TopicAsync, SubscriberAsync),
    pub reader: DataReaderAsync<Msg>,
    pub rej_log: Arc<Mutex<Vec<SampleRejectedStatus>>>,
}

fn lim(x: Option<i32>) -> Length {
    match x {
        None => Length::Unlimited,
        Some(v) => Length::Limited(v),
    }
}

pub fn writer_qos(cfg: &Cfg, i: usize) -> DataWriterQos {
    DataWriterQos {
        reliability: reliable(1000),
        history: keep_all(),
        destination_order: DestinationOrderQosPolicy {
            kind: if cfg.by_source {
                DestinationOrderQosPolicyKind::BySourceTimestamp
            } else {
                DestinationOrderQosPolicyKind::ByReceptionTimestamp
            },
        },
        ownership: OwnershipQosPolicy {
            kind: if cfg.exclusive { OwnershipQosPolicyKind::Exclusive } else { OwnershipQosPolicyKind::Shared },
        },
        ownership_strength: OwnershipStrengthQosPolicy { value: cfg.strengths.get(i).copied().unwrap_or(0) },
        writer_data_lifecycle: WriterDataLifecycleQosPolicy {
            autodispose_unregistered_instances: cfg.autodispose.get(i).copied().unwrap_or(true),
        },
        deadline: DeadlineQosPolicy {
            period: if cfg.deadline_ms > 0 { finite_ms(cfg.deadline_ms) } else { DurationKind::Infinite },
        },
        ..Default::default()
    }
}

pub fn reader_qos(cfg: &Cfg) -> DataReaderQos {
    DataReaderQos {
        reliability: reliable(1000),
        history: match cfg.depth {
            None => keep_all(),
            Some(d) => keep_last(d),
        },
        resource_limits: ResourceLimitsQosPolicy {
            max_samples: lim(cfg.max_samples),
            max_instances: lim(cfg.max_instances),
            max_samples_per_instance: lim(cfg.max_spi),
        },
        destination_order: DestinationOrderQosPolicy {
            kind: if cfg.by_source {
                DestinationOrderQosPolicyKind::BySourceTimestamp
            } else {
                DestinationOrderQosPolicyKind::ByReceptionTimestamp
            },
        },
        ownership: OwnershipQosPolicy {
            kind: if cfg.exclusive { OwnershipQosPolicyKind::Exclusive } else { OwnershipQosPolicyKind::Shared },
        },
        time_based_filter: TimeBasedFilterQosPolicy {
            minimum_separation: if cfg.min_sep_ms > 0 { finite_ms(cfg.min_sep_ms) } else { DurationKind::Finite(dur_ms(0)) },
        },
        deadline: DeadlineQosPolicy {
            period: if cfg.deadline_ms > 0 { finite_ms(cfg.deadline_ms) } else { DurationKind::Infinite },
        },
        ..Default::default()
    }
}

pub async fn setup(w: &World, cfg: &Cfg, with_listener: bool) -> Result<Env, String> {
    let sim = w.sim.clone();
    let mut wparts = Vec::new();
    let mut writers = Vec::new();
    for i in 0..cfg.n_writers {
        let dp = new_participant(w, 0).await;
        let t = new_topic::<Msg>(&dp, "RC", "Msg").await;
        let pb = new_publisher(&dp).await;
        let dw = pb
            .create_datawriter::<Msg>(&t, QosKind::Specific(writer_qos(cfg, i)), NO_LISTENER, &[])
            .await
            .map_err(|e| format!("create_datawriter: {}", err_name(&e)))?;
        writers.push(Some(dw));
        wparts.push((dp, t, pb));
    }
    let dp = new_participant(w, 0).await;
    let t = new_topic::<Msg>(&dp, "RC", "Msg").await;
    let sb = new_subscriber(&dp).await;
    let rej_log = Arc::new(Mutex::new(Vec::new()));
    let rq = reader_qos(cfg);
    let reader = if with_listener {
        sb.create_datareader::<Msg>(
            &t,
            QosKind::Specific(rq),
            Some(RejListener { log: rej_log.clone() }),
            &[StatusKind::SampleRejected],
        )
        .await
    } else {
        sb.create_datareader::<Msg>(&t, QosKind::Specific(rq), NO_LISTENER, &[]).await
    }
    .map_err(|e| format!("create_datareader: {}", err_name(&e)))?;
    for dw in writers.iter().flatten() {
        if !wait_matched(&sim, dw, 1, 20 * SEC).await {
            return Err("writer did not match the reader within 20 s".into());
        }
    }
    if !wait_reader_matched(&sim, &reader, cfg.n_writers as i32, 20 * SEC).await {
        return Err("reader did not match all writers within 20 s".into());
    }
    Ok(Env { sim, wparts, writers, rpart: (dp, t, sb), reader, rej_log })
}

pub fn ss_vec(m: u8) -> Vec<SampleStateKind> {
    let mut v = Vec::new();
    if m & SS_READ != 0 {
        v.push(SampleStateKind::Read);
    }
    if m & SS_NOT_READ != 0 {
        v.push(SampleStateKind::NotRead);
    }
    v
}
pub fn vs_vec(m: u8) -> Vec<ViewStateKind> {
    let mut v = Vec::new();
    if m & VS_NEW != 0 {
        v.push(ViewStateKind::New);
    }
    if m & VS_NOT_NEW != 0 {
        v.push(ViewStateKind::NotNew);
    }
    v
}
pub fn is_vec(m: u8) -> Vec<InstanceStateKind> {
    let mut v = Vec::new();
    if m & IS_ALIVE != 0 {
        v.push(InstanceStateKind::Alive);
    }
    if m & IS_DISPOSED != 0 {
        v.push(InstanceStateKind::NotAliveDisposed);
    }
    if m & IS_NO_WRITERS != 0 {
        v.push(InstanceStateKind::NotAliveNoWriters);
    }
    v
}

pub fn to_obs(s: &Sample<Msg>) -> Obs {
    let i = &s.sample_info;
    Obs {
        valid: i.valid_data,
        id: s.data.as_ref().map(|m| (m.writer, m.seq)),
        dkey: s.data.as_ref().map(|m| m.key),
        payload_ok: s.data.as_ref().map(msg_ok).unwrap_or(true) && (s.data.is_some() == i.valid_data),
        handle: i.instance_handle,
        read: i.sample_state == SampleStateKind::Read,
        view_new: i.view_state == ViewStateKind::New,
        ist: match i.instance_state {
            InstanceStateKind::Alive => IState::Alive,
            InstanceStateKind::NotAliveDisposed => IState::Disposed,
            InstanceStateKind::NotAliveNoWriters => IState::NoWriters,
        },
        dgc: i.disposed_generation_count,
        nwgc: i.no_writers_generation_count,
        srank: i.sample_rank,
        grank: i.generation_rank,
        agrank: i.absolute_generation_rank,
        ts: i.source_timestamp.map(time_to_ts),
    }
}

pub fn res_to_obs(r: DdsResult<Vec<Sample<Msg>>>) -> Result<Vec<Obs>, String> {
    match r {
        Ok(v) => Ok(v.iter().map(to_obs).collect()),
        Err(e) => Err(err_name(&e)),
    }
}

pub fn obs_str(r: &Result<Vec<Obs>, String>) -> String {
    match r {
        Ok(v) => format!("[{}]", v.iter().map(|o| o.short()).collect::<Vec<_>>().join(", ")),
        Err(e) => e.clone(),
    }
}

/// None = the call did not return within 10 s of virtual time (dead worker / hang)
pub async fn do_read(env: &Env, handles: &BTreeMap<u32, InstanceHandle>, r: &ReadOp) -> Option<Result<Vec<Obs>, String>> {
    let (ss, vs, is) = (ss_vec(r.ss), vs_vec(r.vs), is_vec(r.is));
    let dr = &env.reader;
    let fut = async {
        match (r.sel, r.take) {
            (Sel::All, false) => dr.read(r.max, &ss, &vs, &is).await,
            (Sel::All, true) => dr.take(r.max, &ss, &vs, &is).await,
            (Sel::Inst(k), false) => dr.read_instance(r.max, handles[&k], &ss, &vs, &is).await,
            (Sel::Inst(k), true) => dr.take_instance(r.max, handles[&k], &ss, &vs, &is).await,
        }
    };
    env.sim.timeout(10 * SEC, fut).await.ok().map(res_to_obs)
}

fn reason_of(k: SampleRejectedStatusKind) -> Option<Reason> {
    match k {
        SampleRejectedStatusKind::NotRejected => None,
        SampleRejectedStatusKind::RejectedByInstancesLimit => Some(Reason::Instances),
        SampleRejectedStatusKind::RejectedBySamplesLimit => Some(Reason::Samples),
        SampleRejectedStatusKind::RejectedBySamplesPerInstanceLimit => Some(Reason::Spi),
    }
}

/// Wait until the network has delivered everything that is due: the number of delivered datagrams
/// is stable over three consecutive checks and nothing is in flight. (A fixed sleep is not enough
/// when the virtual clock advances per clock read and several timers expire at once.)
pub async fn settle_net(w: &World) {
    let mut stable = 0;
    let mut last = w.net.counters().delivered;
    for _ in 0..300 {
        w.sim.sleep(300 * US).await;
        let c = w.net.counters().delivered;
        if c == last && w.net.inflight() == 0 {
            stable += 1;
            if stable >= 3 {
                break;
            }
        } else {
            stable = 0;
            last = c;
        }
    }
}

pub enum Probe {
    /// the sample showed up after waiting: harness timing, never a verdict
    Late,
    /// still not stored after a second
    Absent,
    /// stored right now (so it is a selection question); first sample of the instance as observed
    Present(Obs),
}

/// A sample the model expects was not returned: is it stored at all (read the instance with ANY
/// masks), and if not, does it arrive within a second?
pub async fn probe_missing(w: &World, env: &Env, handles: &BTreeMap<u32, InstanceHandle>, key: u32, id: (u32, u32)) -> Probe {
    let probe = ReadOp { take: false, sel: Sel::Inst(key), max: MAX_ALL, ss: SS_ANY, vs: VS_ANY, is: IS_ANY };
    if !handles.contains_key(&key) {
        return Probe::Absent;
    }
    if let Some(Ok(v)) = do_read(env, handles, &probe).await {
        if v.iter().any(|o| o.id == Some(id)) {
            return Probe::Present(v[0].clone());
        }
    }
    w.sim.sleep(SEC).await;
    settle_net(w).await;
    match do_read(env, handles, &probe).await {
        Some(Ok(v)) if v.iter().any(|o| o.id == Some(id)) => Probe::Late,
        _ => Probe::Absent,
    }
}

/// C24 variant over all instances. Returns true if the sample is still absent after a second.
pub async fn confirm_absent(w: &World, env: &Env, handles: &BTreeMap<u32, InstanceHandle>, id: (u32, u32)) -> bool {
    w.sim.sleep(SEC).await;
    settle_net(w).await;
    match do_read(env, handles, &ALL_READ).await {
        Some(Ok(v)) => !v.iter().any(|o| o.id == Some(id)),
        _ => true,
    }
}

fn parse_instance_key(what: &str) -> Option<u32> {
    what.split("instance k")
        .nth(1)
        .and_then(|s| s.split(|c: char| !c.is_ascii_digit()).next())
        .and_then(|s| s.parse::<u32>().ok())
}

fn parse_missing_id(what: &str) -> Option<(u32, u32)> {
    let s = what.split("stored sample w").nth(1)?;
    let mut it = s.split(|c: char| !c.is_ascii_digit());
    let w = it.next()?.parse::<u32>().ok()?;
    let q = it.next()?.parse::<u32>().ok()?;
    Some((w, q))
}

const ALL_READ: ReadOp = ReadOp { take: false, sel: Sel::All, max: MAX_ALL, ss: SS_ANY, vs: VS_ANY, is: IS_ANY };

/// The model-based run for C18..C23 and C25.
pub async fn scenario(w: World, h: Hist, trace: bool) -> Outcome {
    let mut out = Outcome::default();
    let cfg = h.cfg.clone();
    let prop = cfg.prop.clone();
    let with_listener = prop == "C18" || prop == "C19";
    let env = match setup(&w, &cfg, with_listener).await {
        Ok(e) => e,
        Err(e) => {
            out.inconclusive = Some(e);
            return out;
        }
    };
    let sim = env.sim.clone();
    let mut model = Model::new(&cfg);
    let mut frozen = false;
    let mut rej_seen = 0usize;
    // per writer: keys it has registered (wrote and did not unregister)
    let mut wreg: Vec<Vec<u32>> = vec![Vec::new(); cfg.n_writers];
    // writer ops issued while the network is frozen: their expectations are checked at release
    let mut pending_expect: Vec<(usize, Expect, u32)> = Vec::new();
    let mut arrival_no = 0u64;
    // C25: arrival bookkeeping: id -> (arrival number, max accepted stamp before, taken ids at arrival)
    let mut arrivals: BTreeMap<(u32, u32), (u64, u32, i64)> = BTreeMap::new();

    macro_rules! settle {
        () => {
            settle_net(&w).await;
        };
    }

    'ops: for (oi, op) in h.ops.iter().enumerate() {
        out.ops_executed = oi + 1;
        if trace {
            out.trace.push(format!("#{oi} {}   (at +{} ms)", op.encode(), (sim.now() - EPOCH_NS) / MS));
        }
        match op {
            Op::Freeze(on) => {
                if *on && !frozen {
                    w.net.set_frozen(true);
                    frozen = true;
                    model.note_shape("freeze");
                } else if !*on && frozen {
                    w.net.set_frozen(false);
                    frozen = false;
                    settle!();
                    out.stat("batches_released", 1);
                    let pend = std::mem::take(&mut pending_expect);
                    if check_rejections(&env, &mut model, &mut out, &mut rej_seen, &pend, &prop, oi).await {
                        break 'ops;
                    }
                }
            }
            Op::Write { .. } | Op::Dispose { .. } | Op::Unreg { .. } => {
                let (wi, key) = match op {
                    Op::Write { w, key, .. } | Op::Dispose { w, key, .. } | Op::Unreg { w, key, .. } => (*w, *key),
                    _ => unreachable!(),
                };
                let Some(dw) = env.writers.get(wi).and_then(|x| x.as_ref()) else {
                    out.stat("ops_skipped_not_applicable", 1);
                    continue;
                };
                let registered = wreg[wi].contains(&key);
                let res = match op {
                    Op::Write { seq, ts, .. } => {
                        sim.timeout(10 * SEC, dw.write_w_timestamp(msg(key, wi as u32, *seq, 8), None, ts_to_time(*ts))).await
                    }
                    Op::Dispose { ts, .. } => {
                        if !registered || !model.writer_live(wi, key) || model.insts.get(&key).map(|i| i.ist == IState::NoWriters).unwrap_or(true) {
                            out.stat("ops_skipped_not_applicable", 1);
                            continue;
                        }
                        sim.timeout(10 * SEC, dw.dispose_w_timestamp(msg(key, wi as u32, 0, 0), None, ts_to_time(*ts))).await
                    }
                    Op::Unreg { ts, .. } => {
                        if !registered || !model.writer_live(wi, key) {
                            out.stat("ops_skipped_not_applicable", 1);
                            continue;
                        }
                        sim.timeout(10 * SEC, dw.unregister_instance_w_timestamp(msg(key, wi as u32, 0, 0), None, ts_to_time(*ts))).await
                    }
                    _ => unreachable!(),
                };
                let Ok(res) = res else {
                    out.inconclusive = Some(format!("op #{oi} ({}) did not return within 10 s virtual", op.encode()));
                    break 'ops;
                };
                if let Err(e) = res {
                    out.stat(&format!("writer_op_error_{}", err_name(&e)), 1);
                    if trace {
                        out.trace.push(format!("   -> {}", err_name(&e)));
                    }
                    continue;
                }
                if !model.handles.contains_key(&key) {
                    match sim.timeout(10 * SEC, dw.lookup_instance(msg(key, 0, 0, 0))).await {
                        Ok(Ok(Some(hd))) => {
                            model.handles.insert(key, hd);
                        }
                        _ => {
                            out.inconclusive = Some(format!("lookup_instance(k{key}) gave no handle after a successful write"));
                            break 'ops;
                        }
                    }
                }
                let expect = match op {
                    Op::Write { seq, ts, .. } => {
                        if !wreg[wi].contains(&key) {
                            wreg[wi].push(key);
                        }
                        arrival_no += 1;
                        model.arrival_clock = arrival_no;
                        let max_acc = model.insts.get(&key).and_then(|i| i.accepted_ts.iter().max().copied()).unwrap_or(i64::MIN);
                        arrivals.insert((wi as u32, *seq), (arrival_no, key, max_acc));
                        model.deliver_data(wi as u32, key, *seq, *ts)
                    }
                    Op::Dispose { ts, .. } => {
                        arrival_no += 1;
                        model.arrival_clock = arrival_no;
                        model.deliver_not_alive(wi as u32, key, *ts, false)
                    }
                    Op::Unreg { ts, .. } => {
                        wreg[wi].retain(|k| *k != key);
                        arrival_no += 1;
                        model.arrival_clock = arrival_no;
                        model.deliver_not_alive(wi as u32, key, *ts, true)
                    }
                    _ => unreachable!(),
                };
                if trace {
                    out.trace.push(format!("   model: {:?}", expect));
                }
                if let Expect::Unsure(why) = &expect {
                    out.abandoned = Some(format!("model unsure: {why}"));
                    break 'ops;
                }
                pending_expect.push((oi, expect, key));
                if !frozen {
                    settle!();
                    let pend = std::mem::take(&mut pending_expect);
                    if check_rejections(&env, &mut model, &mut out, &mut rej_seen, &pend, &prop, oi).await {
                        break 'ops;
                    }
                }
            }
            Op::Read(r) => {
                if frozen {
                    w.net.set_frozen(false);
                    frozen = false;
                    settle!();
                    let pend = std::mem::take(&mut pending_expect);
                    if check_rejections(&env, &mut model, &mut out, &mut rej_seen, &pend, &prop, oi).await {
                        break 'ops;
                    }
                }
                if let Sel::Inst(k) = r.sel {
                    if !model.handles.contains_key(&k) || !model.knows(k) {
                        out.stat("ops_skipped_not_applicable", 1);
                        continue;
                    }
                }
                let Some(res) = do_read(&env, &model.handles, r).await else {
                    out.inconclusive = Some(format!("op #{oi} ({}) did not return within 10 s virtual", op.encode()));
                    break 'ops;
                };
                if trace {
                    out.trace.push(format!("   -> {}", obs_str(&res)));
                }
                out.stat("reader_ops", 1);
                let stop = judge_collection(&w, &env, &mut model, &mut out, r, &res, oi, &arrivals).await;
                if stop {
                    break 'ops;
                }
            }
            Op::Walk { take, max, ss, vs, is } => {
                if frozen {
                    w.net.set_frozen(false);
                    frozen = false;
                    settle!();
                    pending_expect.clear();
                }
                let stop = walk(&w, &env, &mut model, &mut out, *take, *max, *ss, *vs, *is, oi, trace, &arrivals).await;
                if stop {
                    break 'ops;
                }
            }
            Op::RejStatus => {
                // the status getter itself (C19: "reported through the sample-rejected status")
                let dr = env.reader.clone();
                let before = sim.panics().len();
                let j = sim.spawn_local(async move { dr.get_sample_rejected_status().await });
                let mut waited = 0;
                while !j.is_done() && waited < 20 && sim.panics().len() == before {
                    sim.sleep(MS).await;
                    waited += 1;
                }
                match j.try_take() {
                    Some(Ok(st)) => {
                        out.stat("status_getter_calls", 1);
                        if st.total_count != model.rejections_expected {
                            push_finding(
                                &mut out,
                                "status_getter|wrong_total_count".into(),
                                format!("get_sample_rejected_status().total_count = {}, {} samples were rejected", st.total_count, model.rejections_expected),
                                oi,
                            );
                        }
                    }
                    Some(Err(e)) => {
                        push_finding(&mut out, format!("status_getter|error|{}", err_name(&e)), "get_sample_rejected_status returned an error".into(), oi);
                    }
                    None => {
                        let p = sim.panics();
                        if let Some(pi) = p.get(before..).and_then(|s| s.iter().find(|p| p.task == TaskKind::Local)) {
                            push_finding(
                                &mut out,
                                format!("status_getter|panic|{}", vcore::normalize_msg(&pi.msg)),
                                format!("DataReader::get_sample_rejected_status() panicked at {}: {}", pi.location, pi.msg),
                                oi,
                            );
                        } else {
                            out.inconclusive = Some("get_sample_rejected_status did not return within 20 ms virtual".into());
                            break 'ops;
                        }
                    }
                }
            }
            Op::DeleteWriter { .. } | Op::Sleep { .. } => {}
        }
    }
    if frozen {
        w.net.set_frozen(false);
    }
    // ---- evidence
    for (k, v) in model.stats.iter() {
        out.stat(k, *v);
    }
    if prop == "C25" {
        if !model.c25_notifs.is_empty() {
            out.stat("histories_with_dispose_or_unregister", 1);
        }
        if model.get("model_rebirths") > 0 {
            out.stat("histories_with_rebirth", 1);
            if out.abandoned.is_some() {
                out.stat("histories_with_rebirth_abandoned", 1);
            }
        }
    }
    out.shape = vcore::mix(model.shape, vcore::fnv_str(&cfg.class()));
    out.states = model.states_visited.iter().cloned().collect();
    out.nontrivial = match prop.as_str() {
        "C18" => model.get("model_replacements") >= 1 && model.get("collections_compared") >= 1,
        "C19" => model.get("model_rejections") >= 1,
        "C20" => model.get("collections_with_masks_or_max") >= 1 && model.get("samples_compared") >= 2,
        "C21" => model.get("c21_collections_with_2plus_samples_of_an_instance") >= 1,
        "C22" => {
            model.get("model_to_disposed") + model.get("model_to_no_writers") + model.get("model_unregister_other_writers_alive") >= 1
                && model.get("collections_compared") >= 1
        }
        "C23" => model.get("walk_instances_visited") >= 2 || model.get("walk_skipped_instances_without_match") >= 1,
        "C25" => model.get("model_filtered") >= 1 && model.get("model_stored") >= 1 && model.get("collections_compared") >= 1,
        _ => false,
    };
    out
}

/// Compare the sample-rejected notifications received since the last check with what the model
/// expects for the writer operations in `pend`. Returns true if the history must stop.
async fn check_rejections(
    env: &Env,
    model: &mut Model,
    out: &mut Outcome,
    rej_seen: &mut usize,
    pend: &[(usize, Expect, u32)],
    prop: &str,
    oi: usize,
) -> bool {
    if prop != "C18" && prop != "C19" {
        return false;
    }
    let log: Vec<SampleRejectedStatus> = env.rej_log.lock().unwrap().clone();
    let new: Vec<SampleRejectedStatus> = log[*rej_seen..].to_vec();
    *rej_seen = log.len();
    let expected: Vec<&(usize, Expect, u32)> = pend.iter().filter(|p| matches!(p.1, Expect::Rejected(_))).collect();
    out.stat("rejections_notified", new.len() as i64);
    let relation = match (model.cfg.depth, model.cfg.max_spi) {
        (Some(d), Some(m)) if d as i32 == m => "depth_eq_max_spi",
        (Some(_), Some(_)) => "depth_lt_max_spi",
        (Some(_), None) => "max_spi_unlimited",
        (None, _) => "keep_all",
    };
    if new.len() > expected.len() {
        // a rejection the model does not expect
        let st = &new[new.len() - 1];
        let reason = reason_of(st.last_reason).map(|r| r.kind()).unwrap_or("NOT_REJECTED");
        let replaced_expected = pend.iter().any(|p| p.1 == Expect::Replaced);
        if pend.iter().any(|p| p.1 == Expect::StateChange) {
            // a dispose / unregister notification was (possibly) rejected: whether such notifications
            // occupy resources is not specified
            out.abandoned = Some(format!("reader reported a rejection ({reason}) while a dispose/unregister was being delivered"));
            out.stat("abandoned_rejected_state_change", 1);
        } else if prop == "C18" {
            let relation = match st.last_reason {
                SampleRejectedStatusKind::RejectedBySamplesLimit => "max_samples_reached",
                SampleRejectedStatusKind::RejectedByInstancesLimit => "max_instances_reached",
                _ => relation,
            };
            let (sig, what) = if replaced_expected {
                (
                    format!("rejected_instead_of_replaced|limits={relation}"),
                    format!(
                        "KEEP_LAST({}) reader with max_samples_per_instance {:?}, max_samples {:?}: a sample arriving for an instance that already holds depth samples was rejected ({reason}) instead of replacing the oldest one",
                        model.cfg.depth.unwrap_or(0),
                        model.cfg.max_spi,
                        model.cfg.max_samples
                    ),
                )
            } else {
                (
                    format!("rejected_without_limit|reason={reason}|history={}", if model.cfg.depth.is_some() { "keep_last" } else { "keep_all" }),
                    format!("a sample was rejected ({reason}) although no resource limit was reached in the model ({:?})", pend.iter().map(|p| &p.1).collect::<Vec<_>>()),
                )
            };
            // what does the reader hold now?
            let mut what = what;
            if let Some(Ok(v)) = do_read(env, &model.handles, &ALL_READ).await {
                let key = pend.iter().rev().find(|p| p.1 == Expect::Replaced).map(|p| p.2).or(pend.last().map(|p| p.2));
                if let Some(key) = key {
                    let held: Vec<String> = v
                        .iter()
                        .filter(|o| o.valid && Some(&o.handle) == model.handles.get(&key))
                        .map(|o| format!("w{}#{}", o.id.unwrap().0, o.id.unwrap().1))
                        .collect();
                    let exp: Vec<String> = model.stored_ids(key).iter().map(|(w, q)| format!("w{w}#{q}")).collect();
                    what = format!("{what}; instance k{key} now holds {held:?}, the most recent depth samples received are {exp:?}");
                }
            }
            out.findings.push(Found { sig, what, op_index: oi });
        } else {
            out.abandoned = Some(format!("reader rejected a sample ({reason}) the model accepts (not demanded by C19)"));
            out.stat("abandoned_spurious_rejection", 1);
        }
        return true;
    }
    if prop == "C19" && !expected.is_empty() {
        let kind = |e: &Expect| -> String {
            match e {
                Expect::Rejected(r) => r[0].kind().to_string(),
                _ => String::new(),
            }
        };
        if new.len() < expected.len() {
            let e = expected[new.len()];
            out.findings.push(Found {
                sig: format!("{}|not_reported", kind(&e.1)),
                what: format!(
                    "op #{}: the model rejects the sample ({:?}) but only {} of {} expected sample-rejected notifications arrived",
                    e.0,
                    e.1,
                    new.len(),
                    expected.len()
                ),
                op_index: oi,
            });
            return true;
        }
        // same number: compare one by one (same order)
        let base = model.rejections_expected - expected.len() as i32;
        for (i, (e, st)) in expected.iter().zip(new.iter()).enumerate() {
            let Expect::Rejected(reasons) = &e.1 else { continue };
            let obs = reason_of(st.last_reason);
            if obs.map(|r| !reasons.contains(&r)).unwrap_or(true) {
                out.findings.push(Found {
                    sig: format!("{}|wrong_reason|obs={}", kind(&e.1), obs.map(|r| r.kind()).unwrap_or("NOT_REJECTED")),
                    what: format!("op #{}: rejection reported with last_reason {:?}, the limits reached in the model are {:?}", e.0, st.last_reason, reasons),
                    op_index: oi,
                });
                return true;
            }
            if st.total_count != base + i as i32 + 1 {
                out.findings.push(Found {
                    sig: format!("{}|wrong_total_count", kind(&e.1)),
                    what: format!("op #{}: sample_rejected.total_count {} but {} samples were rejected so far", e.0, st.total_count, base + i as i32 + 1),
                    op_index: oi,
                });
                return true;
            }
            if model.handles.get(&e.2) != Some(&st.last_instance_handle) {
                out.findings.push(Found {
                    sig: format!("{}|wrong_instance_handle", kind(&e.1)),
                    what: format!("op #{}: sample_rejected.last_instance_handle is not the handle of instance k{}", e.0, e.2),
                    op_index: oi,
                });
                return true;
            }
            model.stat("rejections_verified", 1);
        }
    }
    false
}

fn push_finding(out: &mut Outcome, sig: String, what: String, oi: usize) {
    if !out.findings.iter().any(|f| f.sig == sig) {
        out.findings.push(Found { sig, what, op_index: oi });
    }
}

/// Per-property judgement of one returned collection. Returns true if the history must stop.
async fn judge_collection(
    w: &World,
    env: &Env,
    model: &mut Model,
    out: &mut Outcome,
    r: &ReadOp,
    res: &Result<Vec<Obs>, String>,
    oi: usize,
    arrivals: &BTreeMap<(u32, u32), (u64, u32, i64)>,
) -> bool {
    let prop = model.cfg.prop.clone();
    let empty = Vec::new();
    let obs: &Vec<Obs> = res.as_ref().unwrap_or(&empty);
    // ---- property-specific checks that need only the observation
    if prop == "C21" {
        return judge_c21(model, out, res, oi, arrivals);
    }
    if prop == "C18" {
        if let Some(d) = model.cfg.depth {
            let mut per: BTreeMap<InstanceHandle, usize> = BTreeMap::new();
            for o in obs.iter().filter(|o| o.valid) {
                *per.entry(o.handle).or_default() += 1;
            }
            if let Some((_, n)) = per.iter().find(|(_, n)| **n > d as usize) {
                push_finding(out, "over_depth".into(), format!("{n} samples of one instance returned by a KEEP_LAST({d}) reader"), oi);
                return true;
            }
        }
    }
    if prop == "C19" {
        let valid: Vec<&Obs> = obs.iter().filter(|o| o.valid).collect();
        let mut per: BTreeMap<InstanceHandle, i32> = BTreeMap::new();
        for o in &valid {
            *per.entry(o.handle).or_default() += 1;
        }
        // instances: every instance of which the collection shows a sample of any kind
        let all_inst: std::collections::BTreeSet<InstanceHandle> = obs.iter().map(|o| o.handle).collect();
        let c = &model.cfg;
        let mut over: Option<(&str, String)> = None;
        if c.max_samples.map(|m| valid.len() as i32 > m).unwrap_or(false) {
            over = Some(("max_samples", format!("{} samples held, max_samples {}", valid.len(), c.max_samples.unwrap())));
        } else if c.max_instances.map(|m| all_inst.len() as i32 > m).unwrap_or(false) {
            over = Some(("max_instances", format!("samples (data or dispose/unregister notifications) of {} instances held, max_instances {}", all_inst.len(), c.max_instances.unwrap())));
        } else if let Some((_, n)) = per.iter().find(|(_, n)| c.max_spi.map(|m| **n > m).unwrap_or(false)) {
            over = Some(("max_samples_per_instance", format!("{n} samples of one instance held, max_samples_per_instance {}", c.max_spi.unwrap())));
        }
        if let Some((k, what)) = over {
            push_finding(out, format!("{k}|stored_over_limit"), what, oi);
            return true;
        }
    }
    // ---- model comparison
    let findings = model.check_read(r, res);
    let mut stop = false;
    for f in findings {
        if let Some(raw) = f.sig.strip_prefix('~') {
            // raw selection mismatch: attribute it per property
            stop = true;
            let mut probed: Option<Probe> = None;
            if raw.starts_with("missing") {
                if prop == "C25" {
                    // the returned collection was presented, whatever the model thinks of it
                    note_presented_c25(model, out, obs, oi, arrivals);
                }
                if let (Some(id), Some(key)) = (parse_missing_id(&f.what), parse_instance_key(&f.what)) {
                    let p = probe_missing(w, env, &model.handles, key, id).await;
                    if matches!(p, Probe::Late) {
                        out.abandoned = Some(format!("sample w{}#{} arrived late (harness timing, no verdict)", id.0, id.1));
                        out.stat("late_arrivals(no verdict)", 1);
                        continue;
                    }
                    probed = Some(p);
                }
            }
            if raw.starts_with("unsure") {
                out.abandoned = Some(format!("model unsure about an invalid sample: {}", f.what));
                out.stat("abandoned_unsure_invalid_sample", 1);
                continue;
            }
            match prop.as_str() {
                "C18" => {
                    let relation = match (model.cfg.depth, model.cfg.max_spi) {
                        (Some(d), Some(m)) if d as i32 == m => "depth_eq_max_spi",
                        (Some(_), Some(_)) => "depth_lt_max_spi",
                        (Some(_), None) => "max_spi_unlimited",
                        (None, _) => "keep_all",
                    };
                    let sig = match raw {
                        "evicted_sample_present" | "missing" | "missing|nodata" => format!("wrong_sample_evicted|limits={relation}"),
                        other => format!("other|{other}"),
                    };
                    push_finding(out, sig, f.what, oi);
                }
                "C19" => {
                    if raw == "rejected_sample_present" {
                        push_finding(out, "rejected_sample_stored".into(), f.what, oi);
                    } else {
                        out.abandoned = Some(format!("content differs from the model for a reason C19 does not cover: {}", f.what));
                        out.stat("abandoned_unexplained_difference", 1);
                    }
                }
                "C25" => {
                    // what this operation returned was presented; then present everything that is
                    // stored and judge the presented pairs
                    let before = out.findings.len();
                    note_presented_c25(model, out, obs, oi, arrivals);
                    if let Some(all) = do_read(env, &model.handles, &ALL_READ).await {
                        if let (Ok(v), true) = (&all, out.findings.len() == before) {
                            note_presented_c25(model, out, v, oi, arrivals);
                        }
                        if out.findings.len() == before {
                            if raw.starts_with("missing") {
                                // a sample at least minimum_separation away from every accepted one is absent
                                let sig = classify_c25_missing(model, &f.what, arrivals);
                                push_finding(out, sig, f.what, oi);
                            } else {
                                out.abandoned = Some(format!("difference without a too-close presented pair: {}", f.what));
                                out.stat("abandoned_unexplained_difference", 1);
                            }
                        }
                    }
                }
                "C22" => {
                    out.abandoned = Some(format!("selection differs with ANY masks (not a life-cycle question): {}", f.what));
                    out.stat("abandoned_unexplained_difference", 1);
                }
                _ => {
                    // C20 / C23: find out whether the instance's states explain the selection
                    let sig = diagnose_selection(env, model, probed, raw, &f.what).await;
                    if prop == "C23" && (sig.starts_with("view_state") || sig.starts_with("instance_state")) {
                        out.abandoned = Some(format!("instance state differs from the model (life cycle, not the walk): {sig}"));
                        out.stat("abandoned_state_differs_from_model", 1);
                    } else {
                        push_finding(out, sig, f.what, oi);
                    }
                }
            }
        } else {
            if f.fatal {
                stop = true;
            }
            if prop == "C23" && (f.sig.starts_with("view_state") || f.sig.starts_with("instance_state")) {
                out.abandoned = Some(format!("instance state differs from the model (life cycle, not the walk): {}", f.sig));
                out.stat("abandoned_state_differs_from_model", 1);
            } else {
                push_finding(out, f.sig, f.what, oi);
            }
        }
    }
    if prop == "C25" && !stop {
        let before = out.findings.len();
        note_presented_c25(model, out, obs, oi, arrivals);
        if out.findings.len() > before {
            stop = true;
        }
    }
    stop
}

/// C20/C23: a matching sample was not returned or a non-matching one was: read the instance with
/// ANY masks and see whether its view / instance state differs from the model.
async fn diagnose_selection(env: &Env, model: &Model, probed: Option<Probe>, raw: &str, what: &str) -> String {
    let Some(key) = parse_instance_key(what) else { return format!("selection|{raw}") };
    let Some(inst) = model.insts.get(&key) else { return format!("selection|{raw}") };
    let first: Option<Obs> = match probed {
        Some(Probe::Present(o)) => Some(o),
        Some(Probe::Absent) => return format!("selection|{raw}|sample_not_stored"),
        _ => {
            let probe = ReadOp { take: false, sel: Sel::Inst(key), max: MAX_ALL, ss: SS_ANY, vs: VS_ANY, is: IS_ANY };
            if !model.handles.contains_key(&key) {
                return format!("selection|{raw}");
            }
            match do_read(env, &model.handles, &probe).await {
                Some(Ok(v)) => v.first().cloned(),
                _ => None,
            }
        }
    };
    if let Some(o) = first {
        if o.view_new != inst.view_new {
            return inst.view_sig(o.view_new);
        }
        if o.ist != inst.ist {
            return inst.istate_sig(o.ist);
        }
    }
    format!("selection|{raw}")
}

fn judge_c21(
    model: &mut Model,
    out: &mut Outcome,
    res: &Result<Vec<Obs>, String>,
    oi: usize,
    arrivals: &BTreeMap<(u32, u32), (u64, u32, i64)>,
) -> bool {
    let Ok(obs) = res else { return false };
    model.stat("collections_compared", 1);
    model.stat("samples_compared", obs.len() as i64);
    let mut per: BTreeMap<InstanceHandle, Vec<&Obs>> = BTreeMap::new();
    for o in obs.iter().filter(|o| o.valid) {
        if let Some(id) = o.id {
            if !arrivals.contains_key(&id) {
                push_finding(out, "phantom_sample".into(), format!("sample {} was never written", o.short()), oi);
                return true;
            }
        }
        per.entry(o.handle).or_default().push(o);
    }
    for (_, v) in per {
        if v.len() >= 2 {
            model.stat("c21_collections_with_2plus_samples_of_an_instance", 1);
        }
        for p in v.windows(2) {
            let (a, b) = (p[0], p[1]);
            let (Some(ta), Some(tb)) = (a.ts, b.ts) else { continue };
            if ta > tb {
                // did the later-stamped sample arrive after the earlier-stamped one (in order)?
                let na = arrivals.get(&a.id.unwrap()).map(|x| x.0).unwrap_or(0);
                let nb = arrivals.get(&b.id.unwrap()).map(|x| x.0).unwrap_or(0);
                let arrival = if nb < na { "in_stamp_order" } else { "against_stamp_order" };
                push_finding(
                    out,
                    format!("not_sorted_by_source_timestamp|arrival={arrival}"),
                    format!(
                        "one instance's samples presented as {} (t{ta}) before {} (t{tb}); they arrived {}",
                        a.short(),
                        b.short(),
                        if nb < na { "in stamp order (t smaller first)" } else { "against stamp order (t larger first)" }
                    ),
                    oi,
                );
                return true;
            }
            if ta == tb {
                model.stat("c21_equal_stamp_neighbours", 1);
            }
        }
    }
    false
}

/// C25 safety clause on everything presented so far.
fn note_presented_c25(
    model: &mut Model,
    out: &mut Outcome,
    obs: &[Obs],
    oi: usize,
    arrivals: &BTreeMap<(u32, u32), (u64, u32, i64)>,
) {
    let sep = model.cfg.min_sep_ms;
    // model.presented is filled by check_read for matched samples; add the rest of this collection
    let mut now: Vec<(u32, i64, (u32, u32))> = Vec::new();
    for o in obs.iter().filter(|o| o.valid) {
        if let (Some(id), Some(ts), Some(key)) = (o.id, o.ts, o.dkey) {
            now.push((key, ts, id));
        }
    }
    for (key, ts, id) in now {
        let list = model.presented.entry(key).or_default();
        if !list.iter().any(|p| p.1 == id) {
            list.push((ts, id));
        }
    }
    for (key, list) in model.presented.iter() {
        for i in 0..list.len() {
            for j in 0..i {
                let (ta, ida) = list[j];
                let (tb, idb) = list[i];
                if ida != idb && (ta - tb).abs() < sep {
                    // order by arrival
                    let na = arrivals.get(&ida).map(|x| x.0).unwrap_or(0);
                    let nb = arrivals.get(&idb).map(|x| x.0).unwrap_or(0);
                    let ((t1, id1), (t2, id2)) = if na < nb { ((ta, ida), (tb, idb)) } else { ((tb, idb), (ta, ida)) };
                    let n2 = na.max(nb);
                    let earlier = match model.taken_at.get(&id1) {
                        Some(t) if *t < n2 => "taken_before_arrival",
                        _ => "still_stored_at_arrival",
                    };
                    let order = if t2 >= t1 { "in_order" } else { "out_of_order" };
                    // was the earlier sample the last one presented for this instance before the
                    // later one arrived, or did another presented sample arrive in between?
                    let n1 = na.min(nb);
                    let between = list.iter().any(|(_, idc)| {
                        let nc = arrivals.get(idc).map(|x| x.0).unwrap_or(0);
                        *idc != id1 && *idc != id2 && nc > n1 && nc < n2
                    });
                    // ... or a dispose / unregister notification at least the separation away from the
                    // earlier sample's stamp (a filter that also applies to notifications accepts it, so
                    // that it becomes the last accepted stamp)
                    let between = between
                        || model
                            .c25_notifs
                            .iter()
                            .any(|(nn, k, tn)| k == key && *nn > n1 && *nn < n2 && (tn - t1).abs() >= sep);
                    let vs = if between { "older_accepted" } else { "last_accepted" };
                    let sig = format!("too_close|earlier_sample={earlier}|stamps={order}|vs={vs}");
                    if !out.findings.iter().any(|f| f.sig == sig) {
                        out.findings.push(Found {
                            sig,
                            what: format!(
                                "instance k{key}: presented w{}#{} (t{t1}) and w{}#{} (t{t2}, arrived later): {} ms apart, minimum_separation {sep} ms",
                                id1.0,
                                id1.1,
                                id2.0,
                                id2.1,
                                (t1 - t2).abs()
                            ),
                            op_index: oi,
                        });
                    }
                    return;
                }
            }
        }
    }
}

fn classify_c25_missing(model: &Model, what: &str, arrivals: &BTreeMap<(u32, u32), (u64, u32, i64)>) -> String {
    // "stored sample w<w>#<seq> (t<ts>, ..."
    let id = what.split("stored sample w").nth(1).and_then(|s| {
        let mut it = s.split(|c: char| !c.is_ascii_digit());
        let w = it.next()?.parse::<u32>().ok()?;
        let q = it.next()?.parse::<u32>().ok()?;
        Some((w, q))
    });
    let mut order = "unknown";
    if let Some(id) = id {
        if let (Some(a), Some(f)) = (arrivals.get(&id), model.fate.get(&id)) {
            order = if f.1 >= a.2 { "in_order" } else { "out_of_order" };
        }
    }
    format!("wrongly_filtered|stamps={order}")
}

/// C23 (and C20): a complete read_next_instance / take_next_instance walk.
#[allow(clippy::too_many_arguments)]
async fn walk(
    w: &World,
    env: &Env,
    model: &mut Model,
    out: &mut Outcome,
    take: bool,
    max: i32,
    ss: u8,
    vs: u8,
    is: u8,
    oi: usize,
    trace: bool,
    arrivals: &BTreeMap<(u32, u32), (u64, u32, i64)>,
) -> bool {
    let (ssv, vsv, isv) = (ss_vec(ss), vs_vec(vs), is_vec(is));
    let mut prev: Option<InstanceHandle> = None;
    let mut visited: Vec<u32> = Vec::new();
    let (req0, _) = model.matching_instances(ss, vs, is);
    let known = model.insts.len();
    out.stat("walks", 1);
    for _step in 0..(known + 3) {
        let fut = async {
            if take {
                env.reader.take_next_instance(max, prev, &ssv, &vsv, &isv).await
            } else {
                env.reader.read_next_instance(max, prev, &ssv, &vsv, &isv).await
            }
        };
        let Ok(res) = env.sim.timeout(10 * SEC, fut).await else {
            out.inconclusive = Some(format!("op #{oi}: next_instance call did not return within 10 s virtual"));
            return true;
        };
        let res = res_to_obs(res);
        if trace {
            out.trace.push(format!("   next_instance(prev={}) -> {}", prev.map(|h| format!("k{:?}", model.key_of(&h))).unwrap_or("none".into()), obs_str(&res)));
        }
        out.stat("reader_ops", 1);
        let (req, _opt) = model.matching_instances(ss, vs, is);
        let remaining: Vec<u32> = req.iter().cloned().filter(|k| !visited.contains(k)).collect();
        match &res {
            Err(e) if e == "NoData" => {
                if !remaining.is_empty() {
                    // is the next known instance (in handle order) one without matching samples?
                    let mut after: Vec<(InstanceHandle, u32)> = model
                        .insts
                        .keys()
                        .filter_map(|k| model.handles.get(k).map(|h| (*h, *k)))
                        .filter(|(h, _)| prev.map(|p| *h > p).unwrap_or(true))
                        .collect();
                    after.sort();
                    let blocked = after.first().map(|(_, k)| !remaining.contains(k)).unwrap_or(false);
                    if !blocked {
                        // does the implementation's idea of the instance's states explain it?
                        let probe = ReadOp { take: false, sel: Sel::Inst(remaining[0]), max: MAX_ALL, ss: SS_ANY, vs: VS_ANY, is: IS_ANY };
                        let _ = probe;
                        let sig = diagnose_selection(env, model, None, "missing", &format!("instance k{}", remaining[0])).await;
                        if sig.starts_with("view_state") || sig.starts_with("instance_state") {
                            out.abandoned = Some(format!("instance state differs from the model (life cycle, not the walk): {sig}"));
                            out.stat("abandoned_state_differs_from_model", 1);
                            return true;
                        }
                    }
                    let feature = if blocked { "next_instance_in_handle_order_has_no_matching_sample" } else { "other" };
                    push_finding(
                        out,
                        format!("nodata_with_matching_instances_remaining|{feature}"),
                        format!(
                            "{}_next_instance(prev={}) returned NoData although instance(s) {:?} still have samples matching ss={} vs={} is={} (visited so far: {:?}; instances known to the reader in handle order after prev: {:?})",
                            if take { "take" } else { "read" },
                            prev.and_then(|h| model.key_of(&h)).map(|k| format!("k{k}")).unwrap_or("none".into()),
                            remaining.iter().map(|k| format!("k{k}")).collect::<Vec<_>>(),
                            ss_str(ss),
                            vs_str(vs),
                            is_str(is),
                            visited.iter().map(|k| format!("k{k}")).collect::<Vec<_>>(),
                            after.iter().map(|(_, k)| format!("k{k}")).collect::<Vec<_>>()
                        ),
                        oi,
                    );
                    return true;
                }
                model.stat("walks_completed", 1);
                model.stat("walk_instances_visited", visited.len() as i64);
                let skipped = model.insts.keys().filter(|k| !req0.contains(k)).count() as i64;
                if !visited.is_empty() || !req0.is_empty() {
                    model.stat("walk_skipped_instances_without_match", skipped);
                }
                return false;
            }
            Err(e) => {
                push_finding(out, format!("unexpected_error|{e}"), format!("next_instance returned {e}"), oi);
                return true;
            }
            Ok(v) => {
                let Some(first) = v.first() else {
                    push_finding(out, "empty_collection_instead_of_nodata".into(), "Ok with an empty collection".into(), oi);
                    return true;
                };
                let Some(k) = model.key_of(&first.handle) else {
                    push_finding(out, "unknown_instance_handle".into(), format!("sample {} has an unknown handle", first.short()), oi);
                    return true;
                };
                if visited.contains(&k) {
                    push_finding(out, "instance_visited_twice".into(), format!("instance k{k} returned a second time in one walk"), oi);
                    return true;
                }
                if let Some(p) = prev {
                    if first.handle <= p {
                        push_finding(out, "handle_not_greater_than_previous".into(), format!("instance k{k} returned although its handle is not greater than the previous handle"), oi);
                        return true;
                    }
                }
                // a matching instance with a smaller handle (still > prev) was skipped?
                let skipped: Vec<u32> = remaining
                    .iter()
                    .cloned()
                    .filter(|r| *r != k && model.handles.get(r).map(|h| *h < first.handle && prev.map(|p| *h > p).unwrap_or(true)).unwrap_or(false))
                    .collect();
                if !skipped.is_empty() {
                    push_finding(out, "matching_instance_skipped".into(), format!("instance k{k} returned although {:?} have smaller handles and matching samples", skipped), oi);
                    return true;
                }
                let r = ReadOp { take, sel: Sel::Inst(k), max, ss, vs, is };
                if judge_collection(w, env, model, out, &r, &res, oi, arrivals).await {
                    return true;
                }
                visited.push(k);
                prev = Some(first.handle);
            }
        }
    }
    push_finding(out, "walk_does_not_terminate".into(), "more next_instance steps than instances".into(), oi);
    true
}
