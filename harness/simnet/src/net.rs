//! In-memory faulty network implementing dust-dds' public transport interface.
use crate::exec::{Notify, Shared, Sim, US};
use dust_dds::transport::interface::{
    RtpsTransportParticipant, TransportDataReceiver, TransportParticipantFactory, WriteMessage,
};
use dust_dds::transport::types::{LOCATOR_KIND_UDP_V4, Locator};
use std::collections::BTreeMap;
use std::sync::{Arc, Mutex};
use vcore::Rng;
use vcore::rtpswalk::{self, Class, Walk};

/// What the fault policy sees for one (datagram, destination) pair.
pub struct Pkt<'a> {
    pub src: usize,
    pub dst: usize,
    pub bytes: &'a [u8],
    pub walk: &'a Walk,
    pub class: Class,
    /// virtual ns since the unix epoch
    pub now: i64,
    pub multicast: bool,
    /// running number of datagrams submitted to the network
    pub seq: u64,
}

/// One scheduled delivery; `bytes == None` means the original bytes.
pub struct Delivery {
    pub delay_ns: i64,
    pub bytes: Option<Vec<u8>>,
}
impl Delivery {
    pub fn after(delay_ns: i64) -> Delivery {
        Delivery {
            delay_ns,
            bytes: None,
        }
    }
}

/// Returns the deliveries for this packet (empty = dropped).
pub type FaultFn = Box<dyn FnMut(&Pkt, &mut Rng) -> Vec<Delivery> + Send>;

pub const BASE_LATENCY: i64 = 100 * US;

struct PartNet {
    domain_id: i32,
    receiver: TransportDataReceiver,
    locators: [Locator; 3], // default unicast, metatraffic unicast, metatraffic multicast
    partitioned: bool,
    removed: bool,
}

struct InFlight {
    dst: usize,
    bytes: Vec<u8>,
}

#[derive(Default, Clone, Debug)]
pub struct NetCounters {
    pub submitted: u64,
    pub delivered: u64,
    pub dropped: u64,
    pub duplicated: u64,
    pub delayed: u64,
    pub user_submitted: u64,
    pub user_dropped: u64,
    pub user_dup: u64,
    pub user_delayed: u64,
    pub bytes_submitted: u64,
    pub unroutable: u64,
    /// datagrams dropped because the receiver's queue ("socket buffer") was full
    pub rx_overflow: u64,
    pub max_rxq: u64,
}

/// Record of a datagram handed to the network by dust-dds.
#[derive(Clone, Debug)]
pub struct SentRecord {
    pub at_ns: i64,
    pub src: usize,
    /// destination participant indices resolved from the locators
    pub dsts: Vec<usize>,
    pub summary: String,
    pub class: Class,
    pub bytes: Option<Vec<u8>>,
}

struct NetSt {
    parts: Vec<PartNet>,
    inflight: BTreeMap<(i64, u64), InFlight>,
    seq: u64,
    policy: Option<FaultFn>,
    rng: Rng,
    counters: NetCounters,
    sent_log: Option<Vec<SentRecord>>,
    sent_log_cap: usize,
    capture_bytes: bool,
    frozen: bool,
    fragment_size: usize,
    /// hash of the realised fault schedule (fate of every user datagram)
    fate_hash: u64,
    /// virtual processing time charged per delivered datagram (receive-side service time)
    service_ns: i64,
    /// earliest virtual time the next datagram may be handed to each participant
    next_free: Vec<i64>,
    /// per-participant receive queue ("socket buffer"): arrived but not yet processed
    rxq: Vec<std::collections::VecDeque<Vec<u8>>>,
    rxq_cap: usize,
}

pub struct Net {
    sh: Arc<Shared>,
    st: Mutex<NetSt>,
    notify: Notify,
}

impl Net {
    pub fn new(sim: &Sim, seed: u64, fragment_size: usize) -> Arc<Net> {
        Arc::new(Net {
            sh: sim.sh.clone(),
            st: Mutex::new(NetSt {
                parts: Vec::new(),
                inflight: BTreeMap::new(),
                seq: 0,
                policy: None,
                rng: Rng::new(seed ^ 0x6e65_7477),
                counters: NetCounters::default(),
                sent_log: None,
                sent_log_cap: 0,
                capture_bytes: false,
                frozen: false,
                fragment_size,
                fate_hash: 0,
                service_ns: 20 * US,
                next_free: Vec::new(),
                rxq: Vec::new(),
                rxq_cap: 32768,
            }),
            notify: Notify::new(),
        })
    }

    pub fn set_policy(&self, p: Option<FaultFn>) {
        self.st.lock().unwrap().policy = p;
    }
    /// virtual time a participant needs per received datagram (models finite CPU; keeps message
    /// storms from being free in virtual time)
    pub fn set_service_time(&self, ns: i64) {
        self.st.lock().unwrap().service_ns = ns;
    }
    pub fn set_fragment_size(&self, f: usize) {
        self.st.lock().unwrap().fragment_size = f;
    }
    pub fn enable_sent_log(&self, cap: usize, capture_bytes: bool) {
        let mut st = self.st.lock().unwrap();
        st.sent_log = Some(Vec::new());
        st.sent_log_cap = cap;
        st.capture_bytes = capture_bytes;
    }
    pub fn take_sent_log(&self) -> Vec<SentRecord> {
        let mut st = self.st.lock().unwrap();
        match st.sent_log.as_mut() {
            Some(l) => std::mem::take(l),
            None => Vec::new(),
        }
    }
    pub fn counters(&self) -> NetCounters {
        self.st.lock().unwrap().counters.clone()
    }
    pub fn fate_hash(&self) -> u64 {
        self.st.lock().unwrap().fate_hash
    }
    pub fn participants(&self) -> usize {
        self.st.lock().unwrap().parts.len()
    }
    /// cut a participant off in both directions (its datagrams are dropped)
    pub fn set_partitioned(&self, idx: usize, on: bool) {
        self.st.lock().unwrap().parts[idx].partitioned = on;
    }
    /// While frozen nothing is delivered (datagrams stay in flight).
    pub fn set_frozen(&self, on: bool) {
        self.st.lock().unwrap().frozen = on;
        self.notify.notify();
    }
    pub fn inflight(&self) -> usize {
        self.st.lock().unwrap().inflight.len()
    }
    pub fn locators(&self, idx: usize) -> [Locator; 3] {
        self.st.lock().unwrap().parts[idx].locators
    }

    /// Push raw bytes into participant `dst` exactly as a UDP receive thread would (after `delay_ns`).
    pub fn inject(&self, dst: usize, bytes: Vec<u8>, delay_ns: i64) {
        let now = self.sh.now();
        let mut st = self.st.lock().unwrap();
        st.seq += 1;
        let k = (now + delay_ns, st.seq);
        st.inflight.insert(k, InFlight { dst, bytes });
        drop(st);
        self.notify.notify();
    }

    fn submit(&self, src: usize, buf: &[u8], locators: &[Locator]) {
        let now = self.sh.now();
        let mut st = self.st.lock().unwrap();
        let st = &mut *st;
        st.counters.submitted += 1;
        st.counters.bytes_submitted += buf.len() as u64;
        // resolve destinations
        let mut dsts: Vec<(usize, bool)> = Vec::new();
        for loc in locators {
            let mut found = false;
            for (i, p) in st.parts.iter().enumerate() {
                if p.removed {
                    continue;
                }
                if p.locators[0] == *loc || p.locators[1] == *loc {
                    if !dsts.iter().any(|d| d.0 == i) {
                        dsts.push((i, false));
                    }
                    found = true;
                } else if p.locators[2] == *loc {
                    // multicast group: every member of the domain, including the sender (loopback)
                    if !dsts.iter().any(|d| d.0 == i) {
                        dsts.push((i, true));
                    }
                    found = true;
                }
            }
            if !found {
                st.counters.unroutable += 1;
            }
        }
        let walk = rtpswalk::walk(buf);
        let class = rtpswalk::classify(&walk);
        if class == Class::User {
            st.counters.user_submitted += 1;
        }
        if let Some(log) = st.sent_log.as_mut() {
            if log.len() < st.sent_log_cap {
                log.push(SentRecord {
                    at_ns: now,
                    src,
                    dsts: dsts.iter().map(|d| d.0).collect(),
                    summary: rtpswalk::summary(&walk),
                    class,
                    bytes: if st.capture_bytes {
                        Some(buf.to_vec())
                    } else {
                        None
                    },
                });
            }
        }
        let src_partitioned = st.parts.get(src).map(|p| p.partitioned).unwrap_or(false);
        for (dst, multicast) in dsts {
            if src_partitioned || st.parts[dst].partitioned {
                st.counters.dropped += 1;
                continue;
            }
            st.seq += 1;
            let seq = st.seq;
            let deliveries = match st.policy.as_mut() {
                Some(pol) => {
                    let pkt = Pkt {
                        src,
                        dst,
                        bytes: buf,
                        walk: &walk,
                        class,
                        now,
                        multicast,
                        seq,
                    };
                    pol(&pkt, &mut st.rng)
                }
                None => vec![Delivery::after(BASE_LATENCY)],
            };
            let user = class == Class::User;
            if user {
                let mut h = vcore::mix(st.fate_hash, deliveries.len() as u64);
                for d in &deliveries {
                    h = vcore::mix(h, (d.delay_ns / (50 * US)) as u64);
                }
                st.fate_hash = h;
            }
            if deliveries.is_empty() {
                st.counters.dropped += 1;
                if user {
                    st.counters.user_dropped += 1;
                }
            }
            if deliveries.len() > 1 {
                st.counters.duplicated += 1;
                if user {
                    st.counters.user_dup += 1;
                }
            }
            for d in deliveries {
                if d.delay_ns > 2 * BASE_LATENCY {
                    st.counters.delayed += 1;
                    if user {
                        st.counters.user_delayed += 1;
                    }
                }
                st.seq += 1;
                let k = (now + d.delay_ns.max(1), st.seq);
                st.inflight.insert(
                    k,
                    InFlight {
                        dst,
                        bytes: d.bytes.unwrap_or_else(|| buf.to_vec()),
                    },
                );
            }
        }
        self.notify.notify();
    }

    /// The delivery pump; spawn it as a local task. Never returns.
    ///
    /// Datagrams whose delivery time has come are moved to the destination's receive queue (a
    /// bounded "socket buffer"); each participant takes one datagram from its queue per
    /// `service_ns` of virtual time. This models finite receive-side CPU: without it a message
    /// storm costs no virtual time and the simulation can be kept busy for ever at one instant.
    pub async fn pump(self: Arc<Net>, sim: Sim) {
        loop {
            let now = sim.now();
            // Ok(delivery) | Err(next wake time, if any)
            let next = {
                let mut st = self.st.lock().unwrap();
                let st = &mut *st;
                if st.frozen {
                    Err(None)
                } else {
                    // arrivals
                    while let Some(k) = st.inflight.keys().next().cloned() {
                        if k.0 > now {
                            break;
                        }
                        let f = st.inflight.remove(&k).unwrap();
                        if st.rxq.len() <= f.dst {
                            st.rxq.resize_with(f.dst + 1, Default::default);
                            st.next_free.resize(f.dst + 1, 0);
                        }
                        let p = &st.parts[f.dst];
                        if p.removed || p.partitioned {
                            st.counters.dropped += 1;
                        } else if st.rxq[f.dst].len() >= st.rxq_cap {
                            st.counters.rx_overflow += 1;
                        } else {
                            st.rxq[f.dst].push_back(f.bytes);
                            let l = st.rxq[f.dst].len() as u64;
                            if l > st.counters.max_rxq {
                                st.counters.max_rxq = l;
                            }
                        }
                    }
                    // service
                    let mut pick = None;
                    let mut wake: Option<i64> = st.inflight.keys().next().map(|k| k.0);
                    for dst in 0..st.rxq.len() {
                        if st.rxq[dst].is_empty() {
                            continue;
                        }
                        if st.next_free[dst] <= now {
                            pick = Some(dst);
                            break;
                        }
                        wake = Some(wake.map_or(st.next_free[dst], |w| w.min(st.next_free[dst])));
                    }
                    match pick {
                        Some(dst) => {
                            let bytes = st.rxq[dst].pop_front().unwrap();
                            st.next_free[dst] = now + st.service_ns;
                            st.counters.delivered += 1;
                            Ok((st.parts[dst].receiver.clone(), bytes))
                        }
                        None => Err(wake),
                    }
                }
            };
            match next {
                Ok((receiver, bytes)) => {
                    receiver.receive_message(bytes).await;
                }
                Err(Some(t)) => {
                    // sleep until due or until something new is submitted
                    let mut sl = std::pin::pin!(sim.sleep((t - now - 1).max(0)));
                    let mut nw = std::pin::pin!(self.notify.wait());
                    std::future::poll_fn(|cx| {
                        use std::future::Future;
                        if sl.as_mut().poll(cx).is_ready() {
                            return std::task::Poll::Ready(());
                        }
                        if nw.as_mut().poll(cx).is_ready() {
                            return std::task::Poll::Ready(());
                        }
                        std::task::Poll::Pending
                    })
                    .await;
                }
                Err(None) => {
                    self.notify.wait().await;
                }
            }
        }
    }
}

struct NetWriter {
    net: Arc<Net>,
    src: usize,
}
impl WriteMessage for NetWriter {
    fn write_message(&self, buf: &[u8], locators: &[Locator]) {
        self.net.submit(self.src, buf, locators);
    }
}

/// The `TransportParticipantFactory` handed to `DomainParticipantFactoryAsync::new`.
pub struct SimTransport {
    pub net: Arc<Net>,
}

pub fn unicast_locator(idx: usize, meta: bool) -> Locator {
    let mut a = [0u8; 16];
    a[12] = 10;
    a[13] = 0;
    a[14] = (idx / 250) as u8;
    a[15] = (idx % 250) as u8 + 1;
    Locator::new(
        LOCATOR_KIND_UDP_V4,
        if meta { 7410 } else { 7411 } + 2 * idx as u32,
        a,
    )
}
pub fn multicast_locator(domain_id: i32) -> Locator {
    let mut a = [0u8; 16];
    a[12] = 239;
    a[13] = 255;
    a[14] = 0;
    a[15] = 1;
    Locator::new(LOCATOR_KIND_UDP_V4, (7400 + 250 * domain_id) as u32, a)
}

impl TransportParticipantFactory for SimTransport {
    fn create_participant(
        &self,
        domain_id: i32,
        data_receiver: TransportDataReceiver,
    ) -> RtpsTransportParticipant {
        let mut st = self.net.st.lock().unwrap();
        let idx = st.parts.len();
        let locs = [
            unicast_locator(idx, false),
            unicast_locator(idx, true),
            multicast_locator(domain_id),
        ];
        st.parts.push(PartNet {
            domain_id,
            receiver: data_receiver,
            locators: locs,
            partitioned: false,
            removed: false,
        });
        let _ = st.parts[idx].domain_id;
        RtpsTransportParticipant {
            message_writer: Box::new(NetWriter {
                net: self.net.clone(),
                src: idx,
            }),
            default_unicast_locator_list: vec![locs[0]],
            metatraffic_unicast_locator_list: vec![locs[1]],
            metatraffic_multicast_locator_list: vec![locs[2]],
            default_multicast_locator_list: Vec::new(),
            fragment_size: st.fragment_size,
        }
    }
}

// ---------------------------------------------------------------------------------------------
// Standard fault plan

/// A finite, seeded fault schedule: until `until_ns` (virtual, absolute) faults are applied to the
/// selected traffic; afterwards the network delivers everything with `BASE_LATENCY` ("healing").
#[derive(Clone, Debug)]
pub struct FaultPlan {
    pub until_ns: i64,
    pub loss: f64,
    pub dup: f64,
    /// probability of an extra delay (=> reordering)
    pub delay: f64,
    pub delay_max_ns: i64,
    /// apply to user traffic only (discovery stays clean)
    pub user_only: bool,
    /// burst loss: with this probability start a burst dropping the next `burst_len` selected packets
    pub burst: f64,
    pub burst_len: u32,
}

impl Default for FaultPlan {
    fn default() -> Self {
        FaultPlan {
            until_ns: 0,
            loss: 0.0,
            dup: 0.0,
            delay: 0.0,
            delay_max_ns: 0,
            user_only: true,
            burst: 0.0,
            burst_len: 0,
        }
    }
}

impl FaultPlan {
    pub fn into_fn(self) -> FaultFn {
        let plan = self;
        let mut burst_left = 0u32;
        Box::new(move |p: &Pkt, rng: &mut Rng| {
            let selected = p.now < plan.until_ns && (!plan.user_only || p.class == Class::User);
            if !selected {
                return vec![Delivery::after(BASE_LATENCY)];
            }
            if burst_left > 0 {
                burst_left -= 1;
                return vec![];
            }
            if plan.burst > 0.0 && rng.chance(plan.burst) {
                burst_left = plan.burst_len;
                return vec![];
            }
            if rng.chance(plan.loss) {
                return vec![];
            }
            let mut out = Vec::new();
            let n = if rng.chance(plan.dup) {
                2 + rng.below(2) as usize
            } else {
                1
            };
            for _ in 0..n {
                let d = if rng.chance(plan.delay) {
                    BASE_LATENCY + rng.below(plan.delay_max_ns.max(1) as u64) as i64
                } else {
                    BASE_LATENCY
                };
                out.push(Delivery::after(d));
            }
            out
        })
    }
    pub fn describe(&self) -> String {
        format!(
            "loss={:.2} dup={:.2} delay={:.2}/{}ms burst={:.2}x{} user_only={} until=+{}ms",
            self.loss,
            self.dup,
            self.delay,
            self.delay_max_ns / 1_000_000,
            self.burst,
            self.burst_len,
            self.user_only,
            (self.until_ns - crate::exec::EPOCH_NS) / 1_000_000
        )
    }
}
