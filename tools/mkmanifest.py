#!/usr/bin/env python3
"""Regenerate /verif/MANIFEST.json from registry/*.json + tools/manifest_texts.json."""
import json, os, glob
ROOT = os.path.dirname(os.path.dirname(os.path.abspath(__file__)))
reg = {}
for f in sorted(glob.glob(os.path.join(ROOT, "registry", "*.json"))):
    reg.update(json.load(open(f)))
texts = json.load(open(os.path.join(ROOT, "tools", "manifest_texts.json")))
props = [json.loads(l) for l in open(os.path.join(ROOT, "properties.jsonl"))]
checks = []
na = []
for p in props:
    pid = p["id"]
    t = texts.get(pid, {})
    if pid in reg and t.get("level_text") and not t.get("not_applicable"):
        c = {
            "property_id": pid,
            "quick_cmd": f"./check {pid} quick",
            "thorough_cmd": f"./check {pid} thorough",
            "evidence_file": f"evidence/{pid}.json",
            "replay_cmd_template": f"./check {pid} quick --replay {{path}}",
            "engine": t.get("engine", ""),
            "level_claimed": {"category": "exploration", "text": t.get("level_text", ""), "design_ref": t.get("design_ref", "DESIGN.md section 4")},
            "level_note": t.get("level_note", ""),
            "technique": t.get("technique", "runtime monitoring"),
        }
        checks.append(c)
    else:
        na.append({"property_id": pid, "reason": t.get("reason", "check not built yet (work in progress)")})
hooks_commits = texts.get("_hooks_commits", [])
m = {
    "version": 1,
    "setup_cmd": "./setup.sh",
    "hooks": {
        "guard": "cargo feature `verif_hooks` of crate dust_dds (dds/Cargo.toml), off by default",
        "enable": "harness/Cargo.toml depends on dust_dds { path = /repo/dds, features = [\"verif_hooks\"] }; the generated-program engine (C40/C41) and the repository suite build without it",
        "baseline_off_cmd": "cd /repo && cargo nextest run --workspace --no-fail-fast --tool-config-file pb:/w/lib/nextest.toml --profile pb --test-threads 8 --offline || cargo test --workspace --no-fail-fast --offline",
        "source_commits": hooks_commits,
        "add_only": True,
    },
    "engines": texts.get("_engines", []),
    "checks": checks,
    "notes": texts.get("_notes", ""),
    "not_applicable": na,
}
json.dump(m, open(os.path.join(ROOT, "MANIFEST.json"), "w"), indent=1)
print(f"{len(checks)} checks, {len(na)} not_applicable")
