//! Recording listeners: every callback appends (level, participant, entity handle, status kind,
//! total_count / total_count_change carried in the status, virtual time) to a shared log.
#![allow(dead_code)]
use crate::common::Msg;
use dust_dds::dds_async::data_reader::DataReaderAsync;
use dust_dds::dds_async::data_reader_listener::DataReaderListener;
use dust_dds::dds_async::data_writer::DataWriterAsync;
use dust_dds::dds_async::data_writer_listener::DataWriterListener;
use dust_dds::dds_async::domain_participant_listener::DomainParticipantListener;
use dust_dds::dds_async::publisher_listener::PublisherListener;
use dust_dds::dds_async::subscriber::SubscriberAsync;
use dust_dds::dds_async::subscriber_listener::SubscriberListener;
use dust_dds::infrastructure::instance::InstanceHandle;
use dust_dds::infrastructure::status::*;
use simnet::Shared;
use std::sync::{Arc, Mutex};

pub const L_ENTITY: u8 = 0;
pub const L_GROUP: u8 = 1;
pub const L_PARTICIPANT: u8 = 2;

pub fn level_name(l: u8, reader_side: bool) -> &'static str {
    match (l, reader_side) {
        (0, true) => "reader",
        (0, false) => "writer",
        (1, true) => "subscriber",
        (1, false) => "publisher",
        (2, _) => "participant",
        _ => "none",
    }
}

#[derive(Clone, Debug)]
pub struct Cb {
    pub level: u8,
    /// participant index the listener belongs to (0 = writer side, 1 = reader side)
    pub side: u8,
    pub kind: StatusKind,
    pub entity: [u8; 16],
    pub total: i32,
    pub change: i32,
    pub t: i64,
}

pub type Log = Arc<Mutex<Vec<Cb>>>;

#[derive(Clone)]
pub struct Rec {
    pub log: Log,
    pub sh: Arc<Shared>,
    pub level: u8,
    pub side: u8,
}

impl Rec {
    pub fn new(log: &Log, sh: &Arc<Shared>, level: u8, side: u8) -> Rec {
        Rec {
            log: log.clone(),
            sh: sh.clone(),
            level,
            side,
        }
    }
    fn push(&self, kind: StatusKind, entity: InstanceHandle, total: i32, change: i32) {
        let t = self.sh.now();
        self.log.lock().unwrap().push(Cb {
            level: self.level,
            side: self.side,
            kind,
            entity: entity.into(),
            total,
            change,
            t,
        });
    }
}

macro_rules! reader_callbacks {
    ($foo:ty) => {
        async fn on_data_available(&mut self, r: DataReaderAsync<$foo>) {
            self.push(StatusKind::DataAvailable, r.get_instance_handle(), 0, 0);
        }
        async fn on_sample_rejected(&mut self, r: DataReaderAsync<$foo>, s: SampleRejectedStatus) {
            self.push(StatusKind::SampleRejected, r.get_instance_handle(), s.total_count, s.total_count_change);
        }
        async fn on_liveliness_changed(&mut self, r: DataReaderAsync<$foo>, s: LivelinessChangedStatus) {
            self.push(StatusKind::LivelinessChanged, r.get_instance_handle(), s.alive_count, s.alive_count_change);
        }
        async fn on_requested_deadline_missed(&mut self, r: DataReaderAsync<$foo>, s: RequestedDeadlineMissedStatus) {
            self.push(StatusKind::RequestedDeadlineMissed, r.get_instance_handle(), s.total_count, s.total_count_change);
        }
        async fn on_requested_incompatible_qos(&mut self, r: DataReaderAsync<$foo>, s: RequestedIncompatibleQosStatus) {
            self.push(StatusKind::RequestedIncompatibleQos, r.get_instance_handle(), s.total_count, s.total_count_change);
        }
        async fn on_subscription_matched(&mut self, r: DataReaderAsync<$foo>, s: SubscriptionMatchedStatus) {
            self.push(StatusKind::SubscriptionMatched, r.get_instance_handle(), s.total_count, s.total_count_change);
        }
        async fn on_sample_lost(&mut self, r: DataReaderAsync<$foo>, s: SampleLostStatus) {
            self.push(StatusKind::SampleLost, r.get_instance_handle(), s.total_count, s.total_count_change);
        }
    };
}

macro_rules! writer_callbacks {
    ($foo:ty) => {
        async fn on_liveliness_lost(&mut self, w: DataWriterAsync<$foo>, s: LivelinessLostStatus) {
            self.push(StatusKind::LivelinessLost, w.get_instance_handle(), s.total_count, s.total_count_change);
        }
        async fn on_offered_deadline_missed(&mut self, w: DataWriterAsync<$foo>, s: OfferedDeadlineMissedStatus) {
            self.push(StatusKind::OfferedDeadlineMissed, w.get_instance_handle(), s.total_count, s.total_count_change);
        }
        async fn on_offered_incompatible_qos(&mut self, w: DataWriterAsync<$foo>, s: OfferedIncompatibleQosStatus) {
            self.push(StatusKind::OfferedIncompatibleQos, w.get_instance_handle(), s.total_count, s.total_count_change);
        }
        async fn on_publication_matched(&mut self, w: DataWriterAsync<$foo>, s: PublicationMatchedStatus) {
            self.push(StatusKind::PublicationMatched, w.get_instance_handle(), s.total_count, s.total_count_change);
        }
    };
}

impl DataReaderListener<Msg> for Rec {
    reader_callbacks!(Msg);
}
impl DataWriterListener<Msg> for Rec {
    writer_callbacks!(Msg);
}
impl SubscriberListener for Rec {
    async fn on_data_on_readers(&mut self, s: SubscriberAsync) {
        self.push(StatusKind::DataOnReaders, s.get_instance_handle(), 0, 0);
    }
    reader_callbacks!(());
}
impl PublisherListener for Rec {
    writer_callbacks!(());
}
impl DomainParticipantListener for Rec {
    reader_callbacks!(());
    writer_callbacks!(());
}

pub fn kind_name(k: StatusKind) -> &'static str {
    match k {
        StatusKind::InconsistentTopic => "InconsistentTopic",
        StatusKind::OfferedDeadlineMissed => "OfferedDeadlineMissed",
        StatusKind::RequestedDeadlineMissed => "RequestedDeadlineMissed",
        StatusKind::OfferedIncompatibleQos => "OfferedIncompatibleQos",
        StatusKind::RequestedIncompatibleQos => "RequestedIncompatibleQos",
        StatusKind::SampleLost => "SampleLost",
        StatusKind::SampleRejected => "SampleRejected",
        StatusKind::DataOnReaders => "DataOnReaders",
        StatusKind::DataAvailable => "DataAvailable",
        StatusKind::LivelinessLost => "LivelinessLost",
        StatusKind::LivelinessChanged => "LivelinessChanged",
        StatusKind::PublicationMatched => "PublicationMatched",
        StatusKind::SubscriptionMatched => "SubscriptionMatched",
    }
}
