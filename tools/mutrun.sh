#!/bin/bash
# Apply a seeded change to /repo, run the given checks (quick), undo the change straight afterwards.
# usage: tools/mutrun.sh <patch.diff> <Cxx> [<Cyy> ...]     (env TIER=quick|thorough, VERIF_SEED)
set -u
patch="$1"; shift
cd /repo || exit 2
if [ -n "$(git status --porcelain --untracked-files=no)" ]; then echo "/repo has uncommitted changes; refusing"; exit 2; fi
git apply "$patch" || { echo "patch does not apply"; exit 2; }
trap 'git -C /repo checkout -- . ; git -C /repo status --short | head -3' EXIT
cd /verif
for c in "$@"; do
  echo "##### $c with $(basename $(dirname $patch))/$(basename $patch)"
  timeout 3000 ./check "$c" "${TIER:-quick}" 2>&1 | grep -E "^(VIOLATION|HELD|INCONCLUSIVE|NOTE|  sig=|  what=)" | cut -c1-260 | head -12
done
