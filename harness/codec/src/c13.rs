//! C13: participant / publication / subscription / topic announcements decode back to the data
//! that was announced (all QoS values, locator lists, partitions, type information, user/topic/
//! group data of any size); unknown or vendor-specific parameters in a received announcement are
//! ignored.
//!
//! A case: generate one discovery value v (hook constructors), check every public getter of the
//! builtin-topic data against the generated parts, `from_bytes(into_bytes(v)) == v`, the getters of
//! the decoded value, and - when the plain round trip holds - splice 1..3 parameters with ids
//! dust-dds does not use (vendor range 0x8000|x, unused standard ids, PID_PAD; 4-byte aligned
//! lengths) between the parameters of the encoding and require the decode to be unchanged.
use crate::{Run, util};
use dust_dds::builtin_topics::{
    BuiltInTopicKey, ParticipantBuiltinTopicData, PublicationBuiltinTopicData,
    SubscriptionBuiltinTopicData, TopicBuiltinTopicData,
};
use dust_dds::infrastructure::instance::InstanceHandle;
use dust_dds::infrastructure::qos_policy::*;
use dust_dds::infrastructure::time::{Duration, DurationKind};
use dust_dds::transport::types::{EntityId, Guid, Locator, ProtocolVersion};
use dust_dds::verif_hooks::data_representation_builtin_endpoints::{
    discovered_reader_data::{DiscoveredReaderData, ReaderProxy},
    discovered_topic_data::DiscoveredTopicData,
    discovered_writer_data::{DiscoveredWriterData, WriterProxy},
    spdp_discovered_participant_data::{
        BuiltinEndpointQos, BuiltinEndpointSet, ParticipantProxy, SpdpDiscoveredParticipantData,
    },
};
use dust_dds::xtypes::type_object::{
    TypeIdentifier, TypeIdentifierWithDependencies, TypeIdentifierWithSize, TypeInformation,
};
use std::fmt::Debug;
use vcore::{Json, Report, Rng};

/// largest octet sequence whose parameter (4 length octets + data, padded) still has a 16-bit length
const MAX_SEQ_IN_ONE_PARAMETER: usize = 65528;

fn seq_size_class(n: usize) -> &'static str {
    if n <= MAX_SEQ_IN_ONE_PARAMETER {
        "le65535"
    } else if n <= 65535 {
        "65529..65535"
    } else {
        "gt65535"
    }
}

// ------------------------------------------------------------------ generators

fn gen_duration(rng: &mut Rng) -> (DurationKind, &'static str) {
    match rng.below(9) {
        0 => (DurationKind::Infinite, "inf"),
        1 => (DurationKind::Finite(Duration::new(0, 0)), "0"),
        2 => (DurationKind::Finite(Duration::new(0, 1)), "1ns"),
        3 => (DurationKind::Finite(Duration::new(i32::MAX, 0)), "maxs"),
        4 => (DurationKind::Finite(Duration::new(i32::MAX, 999_999_999)), "maxs_maxns"),
        5 => (DurationKind::Finite(Duration::new(0, 999_999_999)), "maxns"),
        6 => (DurationKind::Finite(Duration::new(1, 0)), "1s"),
        7 => (DurationKind::Finite(Duration::new(0, 100_000_000)), "100ms"),
        _ => (
            DurationKind::Finite(Duration::new(rng.range(0, i32::MAX as i64) as i32, rng.below(1_000_000_000) as u32)),
            "any",
        ),
    }
}

fn gen_length(rng: &mut Rng) -> Length {
    match rng.below(6) {
        0 => Length::Unlimited,
        1 => Length::Limited(1),
        2 => Length::Limited(i32::MAX - 1),
        3 => Length::Limited(65536),
        _ => Length::Limited(rng.range(1, 1_000_000) as i32),
    }
}

fn gen_octets(rng: &mut Rng, len: usize) -> Vec<u8> {
    match rng.below(3) {
        0 => vec![0u8; len],
        1 => (0..len).map(|i| i as u8).collect(),
        _ => rng.bytes(len),
    }
}

/// ordinary octet sequence lengths (all representable in one parameter)
fn gen_small_len(rng: &mut Rng) -> usize {
    match rng.below(10) {
        0..=3 => 0,
        4 => 1,
        5 => rng.below(64) as usize + 1,
        6 => rng.below(1500) as usize,
        7 => *rng.pick(&[3usize, 4, 5, 255, 256, 1023, 1024]),
        8 => rng.below(9000) as usize,
        _ => *rng.pick(&[32767usize, 32768, 65527, 65528]),
    }
}

fn gen_string(rng: &mut Rng) -> String {
    const PARTS: [&str; 12] = ["", "a", "Topic", "HelloWorld", "*", "?", "ä", "日本語", "🦀", "with space", "x/y.z", "[a-z]"];
    match rng.below(6) {
        0 => String::new(),
        1 => (*rng.pick(&PARTS)).to_string(),
        2 => {
            let n = rng.below(4) + 1;
            (0..n).map(|_| *rng.pick(&PARTS)).collect::<Vec<_>>().join("_")
        }
        3 => "n".repeat(rng.below(300) as usize),
        4 => "ü".repeat(rng.below(130) as usize),
        _ => (0..rng.below(20)).map(|_| (b'a' + rng.below(26) as u8) as char).collect(),
    }
}

fn gen_locator(rng: &mut Rng) -> Locator {
    let mut addr = [0u8; 16];
    if rng.bool() {
        addr[12..].copy_from_slice(&rng.bytes(4));
    } else {
        addr.copy_from_slice(&rng.bytes(16));
    }
    Locator::new(
        *rng.pick(&[1, 1, 2, -1, 0, i32::MAX, i32::MIN]),
        *rng.pick(&[0u32, 7400, 7410, 7411, 65535, 65536, u32::MAX]),
        addr,
    )
}

fn gen_locators(rng: &mut Rng) -> Vec<Locator> {
    (0..rng.below(5)).map(|_| gen_locator(rng)).collect()
}

fn gen_key(rng: &mut Rng) -> BuiltInTopicKey {
    let mut value = [0u8; 16];
    match rng.below(4) {
        0 => {}
        1 => value = [0xff; 16],
        _ => value.copy_from_slice(&rng.bytes(16)),
    }
    BuiltInTopicKey { value }
}

fn gen_type_information(rng: &mut Rng) -> Option<TypeInformation> {
    if rng.chance(0.4) {
        return None;
    }
    let mut hash = |rng: &mut Rng| {
        let mut h = [0u8; 14];
        h.copy_from_slice(&rng.bytes(14));
        h
    };
    let with_size = |id: TypeIdentifier, rng: &mut Rng| TypeIdentifierWithSize {
        type_id: id,
        typeobject_serialized_size: *rng.pick(&[0u32, 1, 100, 65535, 65536, u32::MAX]),
    };
    let deps = |rng: &mut Rng, hash: &mut dyn FnMut(&mut Rng) -> [u8; 14]| -> Vec<TypeIdentifierWithSize> {
        (0..rng.below(3))
            .map(|_| TypeIdentifierWithSize {
                type_id: TypeIdentifier::EkMinimal { equivalence_hash: hash(rng) },
                typeobject_serialized_size: rng.next_u32(),
            })
            .collect()
    };
    let min_id = TypeIdentifier::EkMinimal { equivalence_hash: hash(rng) };
    let com_id = TypeIdentifier::EkComplete { equivalence_hash: hash(rng) };
    let dmin = deps(rng, &mut hash);
    let dcom = deps(rng, &mut hash);
    Some(TypeInformation {
        minimal: TypeIdentifierWithDependencies {
            typeid_with_size: with_size(min_id, rng),
            dependent_typeid_count: *rng.pick(&[0i32, -1, dmin.len() as i32]),
            dependent_typeids: dmin,
        },
        complete: TypeIdentifierWithDependencies {
            typeid_with_size: with_size(com_id, rng),
            dependent_typeid_count: *rng.pick(&[0i32, -1, dcom.len() as i32]),
            dependent_typeids: dcom,
        },
    })
}

/// All QoS policies a builtin topic can carry; generated at once, used per kind.
#[derive(Clone, Debug)]
struct Parts {
    key: BuiltInTopicKey,
    participant_key: BuiltInTopicKey,
    topic_name: String,
    type_name: String,
    type_information: Option<TypeInformation>,
    durability: DurabilityQosPolicy,
    deadline: DeadlineQosPolicy,
    latency_budget: LatencyBudgetQosPolicy,
    liveliness: LivelinessQosPolicy,
    reliability: ReliabilityQosPolicy,
    lifespan: LifespanQosPolicy,
    user_data: UserDataQosPolicy,
    ownership: OwnershipQosPolicy,
    ownership_strength: OwnershipStrengthQosPolicy,
    destination_order: DestinationOrderQosPolicy,
    presentation: PresentationQosPolicy,
    partition: PartitionQosPolicy,
    topic_data: TopicDataQosPolicy,
    group_data: GroupDataQosPolicy,
    representation: DataRepresentationQosPolicy,
    time_based_filter: TimeBasedFilterQosPolicy,
    type_consistency: TypeConsistencyEnforcementQosPolicy,
    transport_priority: TransportPriorityQosPolicy,
    history: HistoryQosPolicy,
    resource_limits: ResourceLimitsQosPolicy,
    /// feature classes exercised (hashed as evidence)
    classes: Vec<String>,
}

fn gen_parts(rng: &mut Rng) -> Parts {
    let mut classes = Vec::new();
    // each policy stays at its default with some probability so that "omitted" is exercised too
    let dur = |rng: &mut Rng, name: &str, classes: &mut Vec<String>| {
        let (d, c) = gen_duration(rng);
        classes.push(format!("{name}={c}"));
        d
    };
    let durability = DurabilityQosPolicy {
        kind: *rng.pick(&[
            DurabilityQosPolicyKind::Volatile,
            DurabilityQosPolicyKind::TransientLocal,
            DurabilityQosPolicyKind::Transient,
            DurabilityQosPolicyKind::Persistent,
        ]),
    };
    classes.push(format!("durability={:?}", durability.kind));
    let deadline = DeadlineQosPolicy { period: dur(rng, "deadline", &mut classes) };
    let latency_budget = LatencyBudgetQosPolicy { duration: dur(rng, "latency", &mut classes) };
    let liveliness = LivelinessQosPolicy {
        kind: *rng.pick(&[
            LivelinessQosPolicyKind::Automatic,
            LivelinessQosPolicyKind::ManualByParticipant,
            LivelinessQosPolicyKind::ManualByTopic,
        ]),
        lease_duration: dur(rng, "lease", &mut classes),
    };
    classes.push(format!("liveliness={:?}", liveliness.kind));
    let reliability = ReliabilityQosPolicy {
        kind: *rng.pick(&[ReliabilityQosPolicyKind::BestEffort, ReliabilityQosPolicyKind::Reliable]),
        max_blocking_time: dur(rng, "max_blocking", &mut classes),
    };
    classes.push(format!("reliability={:?}", reliability.kind));
    let lifespan = LifespanQosPolicy { duration: dur(rng, "lifespan", &mut classes) };
    let time_based_filter = TimeBasedFilterQosPolicy { minimum_separation: dur(rng, "tbf", &mut classes) };
    let ownership = OwnershipQosPolicy {
        kind: *rng.pick(&[OwnershipQosPolicyKind::Shared, OwnershipQosPolicyKind::Exclusive]),
    };
    classes.push(format!("ownership={:?}", ownership.kind));
    let ownership_strength = OwnershipStrengthQosPolicy { value: *rng.pick(&[0i32, 1, -1, i32::MAX, i32::MIN, 42]) };
    let destination_order = DestinationOrderQosPolicy {
        kind: *rng.pick(&[
            DestinationOrderQosPolicyKind::ByReceptionTimestamp,
            DestinationOrderQosPolicyKind::BySourceTimestamp,
        ]),
    };
    classes.push(format!("dest_order={:?}", destination_order.kind));
    let presentation = PresentationQosPolicy {
        access_scope: *rng.pick(&[
            PresentationQosPolicyAccessScopeKind::Instance,
            PresentationQosPolicyAccessScopeKind::Topic,
        ]),
        coherent_access: rng.bool(),
        ordered_access: rng.bool(),
    };
    classes.push(format!(
        "presentation={:?}/{}{}",
        presentation.access_scope, presentation.coherent_access as u8, presentation.ordered_access as u8
    ));
    let npart = rng.below(5) as usize;
    let partition = PartitionQosPolicy { name: (0..npart).map(|_| gen_string(rng)).collect() };
    classes.push(format!(
        "partitions={}{}",
        npart,
        if partition.name.iter().any(|s| s.is_empty()) { "+empty" } else { "" }
    ));
    let representation = DataRepresentationQosPolicy {
        value: match rng.below(5) {
            0 => vec![],
            1 => vec![XCDR_DATA_REPRESENTATION],
            2 => vec![XCDR2_DATA_REPRESENTATION],
            3 => vec![XCDR_DATA_REPRESENTATION, XCDR2_DATA_REPRESENTATION],
            _ => vec![XCDR2_DATA_REPRESENTATION, XML_DATA_REPRESENTATION, XCDR_DATA_REPRESENTATION],
        },
    };
    classes.push(format!("representation={}", representation.value.len()));
    let type_consistency = TypeConsistencyEnforcementQosPolicy {
        kind: *rng.pick(&[TypeConsistencyKind::DisallowTypeCoercion, TypeConsistencyKind::AllowTypeCoercion]),
        ignore_sequence_bounds: rng.bool(),
        ignore_string_bounds: rng.bool(),
        ignore_member_names: rng.bool(),
        prevent_type_widening: rng.bool(),
        force_type_validation: rng.bool(),
    };
    let history = HistoryQosPolicy {
        kind: match rng.below(6) {
            0 => HistoryQosPolicyKind::KeepAll,
            1 => HistoryQosPolicyKind::KeepLast(1),
            2 => HistoryQosPolicyKind::KeepLast(2),
            3 => HistoryQosPolicyKind::KeepLast(i32::MAX as u32),
            4 => HistoryQosPolicyKind::KeepLast(65536),
            _ => HistoryQosPolicyKind::KeepLast(rng.range(1, 100_000) as u32),
        },
    };
    classes.push(match history.kind {
        HistoryQosPolicyKind::KeepAll => "history=all".into(),
        HistoryQosPolicyKind::KeepLast(d) => format!("history=last{}", if d == 1 { "1" } else if d == i32::MAX as u32 { "max" } else { "n" }),
    });
    let resource_limits = ResourceLimitsQosPolicy {
        max_samples: gen_length(rng),
        max_instances: gen_length(rng),
        max_samples_per_instance: gen_length(rng),
    };
    let type_information = gen_type_information(rng);
    classes.push(format!("type_info={}", type_information.is_some()));
    Parts {
        key: gen_key(rng),
        participant_key: gen_key(rng),
        topic_name: gen_string(rng),
        type_name: gen_string(rng),
        type_information,
        durability,
        deadline,
        latency_budget,
        liveliness,
        reliability,
        lifespan,
        user_data: UserDataQosPolicy { value: { let n = gen_small_len(rng); gen_octets(rng, n) } },
        ownership,
        ownership_strength,
        destination_order,
        presentation,
        partition,
        topic_data: TopicDataQosPolicy { value: { let n = gen_small_len(rng); gen_octets(rng, n) } },
        group_data: GroupDataQosPolicy { value: { let n = gen_small_len(rng); gen_octets(rng, n) } },
        representation,
        time_based_filter,
        type_consistency,
        transport_priority: TransportPriorityQosPolicy { value: *rng.pick(&[0i32, 1, -1, i32::MAX, i32::MIN]) },
        history,
        resource_limits,
        classes,
    }
}

// ------------------------------------------------------------------ the four kinds

/// What the engine needs from a discovery data type.
trait Disc: Clone + PartialEq + Debug {
    const KIND: &'static str;
    /// parameter ids dust-dds reads for this kind (a spliced "unknown" id must avoid them)
    fn encode(self) -> Vec<u8>;
    fn decode(b: &[u8]) -> Result<Self, String>;
    /// getters of the (decoded) value against the generated parts: first getter that disagrees
    fn getters(&self, p: &Parts) -> Option<&'static str>;
}

macro_rules! g {
    ($cond:expr, $name:expr) => {
        if !($cond) {
            return Some($name);
        }
    };
}

fn pub_getters(d: &PublicationBuiltinTopicData, p: &Parts) -> Option<&'static str> {
    g!(d.key() == &p.key, "key");
    g!(d.participant_key() == &p.participant_key, "participant_key");
    g!(d.topic_name() == p.topic_name, "topic_name");
    g!(d.get_type_name() == p.type_name, "type_name");
    g!(d.durability() == &p.durability, "durability");
    g!(d.deadline() == &p.deadline, "deadline");
    g!(d.latency_budget() == &p.latency_budget, "latency_budget");
    g!(d.liveliness() == &p.liveliness, "liveliness");
    g!(d.reliability() == &p.reliability, "reliability");
    g!(d.lifespan() == &p.lifespan, "lifespan");
    g!(d.user_data() == &p.user_data, "user_data");
    g!(d.ownership() == &p.ownership, "ownership");
    g!(d.ownership_strength() == &p.ownership_strength, "ownership_strength");
    g!(d.destination_order() == &p.destination_order, "destination_order");
    g!(d.presentation() == &p.presentation, "presentation");
    g!(d.partition() == &p.partition, "partition");
    g!(d.topic_data() == &p.topic_data, "topic_data");
    g!(d.group_data() == &p.group_data, "group_data");
    g!(d.representation() == &p.representation, "representation");
    None
}

fn sub_getters(d: &SubscriptionBuiltinTopicData, p: &Parts) -> Option<&'static str> {
    g!(d.key() == &p.key, "key");
    g!(d.participant_key() == &p.participant_key, "participant_key");
    g!(d.topic_name() == p.topic_name, "topic_name");
    g!(d.get_type_name() == p.type_name, "type_name");
    g!(d.durability() == &p.durability, "durability");
    g!(d.deadline() == &p.deadline, "deadline");
    g!(d.latency_budget() == &p.latency_budget, "latency_budget");
    g!(d.liveliness() == &p.liveliness, "liveliness");
    g!(d.reliability() == &p.reliability, "reliability");
    g!(d.ownership() == &p.ownership, "ownership");
    g!(d.destination_order() == &p.destination_order, "destination_order");
    g!(d.user_data() == &p.user_data, "user_data");
    g!(d.time_based_filter() == &p.time_based_filter, "time_based_filter");
    g!(d.presentation() == &p.presentation, "presentation");
    g!(d.partition() == &p.partition, "partition");
    g!(d.topic_data() == &p.topic_data, "topic_data");
    g!(d.group_data() == &p.group_data, "group_data");
    g!(d.representation() == &p.representation, "representation");
    g!(d.type_consistency() == &p.type_consistency, "type_consistency");
    None
}

fn topic_getters(d: &TopicBuiltinTopicData, p: &Parts) -> Option<&'static str> {
    g!(d.key() == &p.key, "key");
    g!(d.name() == p.topic_name, "name");
    g!(d.get_type_name() == p.type_name, "type_name");
    g!(d.durability() == &p.durability, "durability");
    g!(d.deadline() == &p.deadline, "deadline");
    g!(d.latency_budget() == &p.latency_budget, "latency_budget");
    g!(d.liveliness() == &p.liveliness, "liveliness");
    g!(d.reliability() == &p.reliability, "reliability");
    g!(d.transport_priority() == &p.transport_priority, "transport_priority");
    g!(d.lifespan() == &p.lifespan, "lifespan");
    g!(d.destination_order() == &p.destination_order, "destination_order");
    g!(d.history() == &p.history, "history");
    g!(d.resource_limits() == &p.resource_limits, "resource_limits");
    g!(d.ownership() == &p.ownership, "ownership");
    g!(d.topic_data() == &p.topic_data, "topic_data");
    g!(d.representation() == &p.representation, "representation");
    None
}

impl Disc for DiscoveredWriterData {
    const KIND: &'static str = "writer";
    fn encode(self) -> Vec<u8> {
        self.into_bytes()
    }
    fn decode(b: &[u8]) -> Result<Self, String> {
        Self::from_bytes(b).map_err(|e| format!("{e:?}"))
    }
    fn getters(&self, p: &Parts) -> Option<&'static str> {
        pub_getters(self.verif_dds_publication_data(), p)
    }
}
impl Disc for DiscoveredReaderData {
    const KIND: &'static str = "reader";
    fn encode(self) -> Vec<u8> {
        self.into_bytes()
    }
    fn decode(b: &[u8]) -> Result<Self, String> {
        Self::from_bytes(b).map_err(|e| format!("{e:?}"))
    }
    fn getters(&self, p: &Parts) -> Option<&'static str> {
        sub_getters(self.verif_dds_subscription_data(), p)
    }
}
impl Disc for DiscoveredTopicData {
    const KIND: &'static str = "topic";
    fn encode(self) -> Vec<u8> {
        self.into_bytes()
    }
    fn decode(b: &[u8]) -> Result<Self, String> {
        Self::from_bytes(b).map_err(|e| format!("{e:?}"))
    }
    fn getters(&self, p: &Parts) -> Option<&'static str> {
        topic_getters(self.verif_topic_builtin_topic_data(), p)
    }
}
impl Disc for SpdpDiscoveredParticipantData {
    const KIND: &'static str = "participant";
    fn encode(self) -> Vec<u8> {
        self.into_bytes()
    }
    fn decode(b: &[u8]) -> Result<Self, String> {
        Self::from_bytes(b).map_err(|e| format!("{e:?}"))
    }
    fn getters(&self, p: &Parts) -> Option<&'static str> {
        let d = self.verif_dds_participant_data();
        g!(d.key() == &p.key, "key");
        g!(d.user_data() == &p.user_data, "user_data");
        None
    }
}

fn make_writer(rng: &mut Rng, p: &Parts) -> DiscoveredWriterData {
    let data = PublicationBuiltinTopicData::verif_new(
        p.key.clone(),
        p.participant_key.clone(),
        &p.topic_name,
        &p.type_name,
        p.type_information.clone(),
        p.durability.clone(),
        p.deadline.clone(),
        p.latency_budget.clone(),
        p.liveliness.clone(),
        p.reliability.clone(),
        p.lifespan.clone(),
        p.user_data.clone(),
        p.ownership.clone(),
        p.ownership_strength.clone(),
        p.destination_order.clone(),
        p.presentation.clone(),
        p.partition.clone(),
        p.topic_data.clone(),
        p.group_data.clone(),
        p.representation.clone(),
    );
    let proxy = WriterProxy {
        // the remote guid is not a parameter of its own: it is the endpoint key
        remote_writer_guid: Guid::from(p.key.value),
        remote_group_entity_id: gen_entity_id(rng),
        unicast_locator_list: gen_locators(rng),
        multicast_locator_list: gen_locators(rng),
    };
    DiscoveredWriterData::verif_new(data, proxy)
}

fn make_reader(rng: &mut Rng, p: &Parts) -> DiscoveredReaderData {
    let data = SubscriptionBuiltinTopicData::verif_new(
        p.key.clone(),
        p.participant_key.clone(),
        &p.topic_name,
        &p.type_name,
        p.type_information.clone(),
        p.durability.clone(),
        p.deadline.clone(),
        p.latency_budget.clone(),
        p.liveliness.clone(),
        p.reliability.clone(),
        p.ownership.clone(),
        p.destination_order.clone(),
        p.user_data.clone(),
        p.time_based_filter.clone(),
        p.presentation.clone(),
        p.partition.clone(),
        p.topic_data.clone(),
        p.group_data.clone(),
        p.representation.clone(),
        p.type_consistency.clone(),
    );
    let proxy = ReaderProxy {
        remote_reader_guid: Guid::from(p.key.value),
        remote_group_entity_id: gen_entity_id(rng),
        unicast_locator_list: gen_locators(rng),
        multicast_locator_list: gen_locators(rng),
        expects_inline_qos: rng.bool(),
    };
    DiscoveredReaderData::verif_new(data, proxy)
}

fn make_topic(p: &Parts) -> DiscoveredTopicData {
    DiscoveredTopicData::verif_new(TopicBuiltinTopicData::verif_new(
        p.key.clone(),
        &p.topic_name,
        &p.type_name,
        p.type_information.clone(),
        p.durability.clone(),
        p.deadline.clone(),
        p.latency_budget.clone(),
        p.liveliness.clone(),
        p.reliability.clone(),
        p.transport_priority.clone(),
        p.lifespan.clone(),
        p.destination_order.clone(),
        p.history.clone(),
        p.resource_limits.clone(),
        p.ownership.clone(),
        p.topic_data.clone(),
        p.representation.clone(),
    ))
}

fn make_participant(rng: &mut Rng, p: &Parts) -> SpdpDiscoveredParticipantData {
    let data = ParticipantBuiltinTopicData::verif_new(p.key.clone(), p.user_data.clone());
    let proxy = ParticipantProxy::verif_new(
        match rng.below(4) {
            0 => None,
            1 => Some(0),
            2 => Some(*rng.pick(&[1, 232, i32::MAX, -1])),
            _ => Some(rng.range(0, 232) as i32),
        },
        if rng.bool() { String::new() } else { gen_string(rng) },
        ProtocolVersion::new(*rng.pick(&[2u8, 1, 255]), *rng.pick(&[4u8, 3, 1, 0, 255])),
        // the guid prefix is not a parameter of its own: it is the prefix of the participant key
        Guid::from(p.key.value).prefix(),
        [rng.next_u32() as u8, rng.next_u32() as u8],
        rng.bool(),
        gen_locators(rng),
        gen_locators(rng),
        gen_locators(rng),
        gen_locators(rng),
        BuiltinEndpointSet(match rng.below(4) {
            0 => 0,
            1 => u32::MAX,
            2 => BuiltinEndpointSet::default().0,
            _ => rng.next_u32(),
        }),
        *rng.pick(&[0i32, 1, -1, i32::MAX, i32::MIN, 77]),
        BuiltinEndpointQos(*rng.pick(&[0u32, 1 << 29, u32::MAX, 5])),
    );
    let lease = match rng.below(5) {
        0 => Duration::new(100, 0),
        1 => Duration::new(0, 0),
        2 => Duration::new(0, 1),
        3 => Duration::new(i32::MAX, 999_999_999),
        _ => Duration::new(rng.range(0, 100_000) as i32, rng.below(1_000_000_000) as u32),
    };
    // discovered_participant_list is local bookkeeping, not part of the announcement
    SpdpDiscoveredParticipantData::verif_new(data, proxy, lease, Vec::<InstanceHandle>::new())
}

fn gen_entity_id(rng: &mut Rng) -> EntityId {
    match rng.below(3) {
        0 => EntityId::new([0; 3], 0),
        1 => EntityId::new([0xff; 3], 0xff),
        _ => {
            let b = rng.next_u32().to_le_bytes();
            EntityId::new([b[0], b[1], b[2]], *rng.pick(&[0x08u8, 0x09, 0xc8, 0xc9, b[3]]))
        }
    }
}

// ------------------------------------------------------------------ unknown parameter splicing

/// standard ids that exist in the RTPS / XTypes tables but are not read by dust-dds for any kind
/// (durability service, content filter, group guid, property list, type max size, entity name,
/// type object v1, 0x0076)
const UNUSED_STANDARD_PIDS: [u16; 8] = [0x001e, 0x0035, 0x0052, 0x0059, 0x0060, 0x0062, 0x0072, 0x0076];

/// Offsets at which a parameter starts (including the sentinel's); None if the list does not walk.
fn parameter_offsets(b: &[u8]) -> Option<Vec<usize>> {
    if b.len() < 8 || b[0] != 0 || b[1] != 3 {
        return None;
    }
    let mut offs = Vec::new();
    let mut p = 4;
    loop {
        if p + 4 > b.len() {
            return None;
        }
        offs.push(p);
        let pid = u16::from_le_bytes([b[p], b[p + 1]]);
        let len = u16::from_le_bytes([b[p + 2], b[p + 3]]) as usize;
        if pid == 1 {
            return Some(offs);
        }
        p += 4 + len;
    }
}

fn gen_unknown(rng: &mut Rng) -> (u16, Vec<u8>, &'static str) {
    let (pid, class) = match rng.below(6) {
        0 => (0u16, "pad"),
        1 | 2 => (*rng.pick(&UNUSED_STANDARD_PIDS), "unused_standard"),
        // vendor-specific range, without the must-understand bit (0x4000); dust-dds reads no id
        // of this range (parameter_id_values.rs)
        _ => (0x8000u16 | rng.below(0x4000) as u16, "vendor"),
    };
    let len = match rng.below(8) {
        0 => 0usize,
        1 => 4,
        2 => 8,
        3 => 4 * rng.below(64) as usize,
        4 => 1024,
        5 => *rng.pick(&[32764usize, 32768, 65532]),
        _ => 4 * rng.below(8) as usize,
    };
    (pid, rng.bytes(len), class)
}

// ------------------------------------------------------------------ one case

struct Over {
    field: &'static str,
    len: usize,
}

fn check<T: Disc>(r: &mut Report, rng: &mut Rng, v: T, p: &Parts, over: &Option<Over>, replay: &Json, sample: bool) {
    let kind = T::KIND;
    r.stat(&format!("values_{kind}"), 1);
    let size = over.as_ref().map(|o| seq_size_class(o.len)).unwrap_or("le65535");
    for c in &p.classes {
        r.nontrivial(util::hash_str(&format!("{kind}|{c}")));
    }
    r.nontrivial(util::hash_str(&format!(
        "{kind}|sizes|ud={}|td={}|gd={}",
        size_bucket(p.user_data.value.len()),
        size_bucket(p.topic_data.value.len()),
        size_bucket(p.group_data.value.len())
    )));
    // getters of the value as constructed
    if let Some(f) = v.getters(p) {
        r.violation(
            format!("getter|kind={kind}|field={f}|stage=constructed"),
            format!("{kind}: getter `{f}` of the constructed value does not return the generated value"),
            replay.clone(),
        );
        return;
    }
    let oversize_sig = |o: &Over| format!("roundtrip|kind={kind}|field={}|size={}", o.field, seq_size_class(o.len));
    // encode
    let bytes = match util::guarded(|| v.clone().encode()) {
        Ok(b) => b,
        Err(pn) => {
            r.stat("panics", 1);
            match over {
                Some(o) => r.violation(
                    oversize_sig(o),
                    format!("{kind} with {} of {} octets: into_bytes panicked: {} at {}", o.field, o.len, pn.msg, pn.loc),
                    replay.clone(),
                ),
                None => r.violation(util::panic_sig(&pn), format!("{kind}: into_bytes panicked: {} at {}", pn.msg, pn.loc), replay.clone()),
            }
            return;
        }
    };
    r.stat("octets_encoded", bytes.len() as i128);
    r.maxstat("max_encoding_octets", bytes.len() as i128);
    // decode
    let dec = util::guarded(|| T::decode(&bytes));
    let outcome: Result<(), String> = match &dec {
        Err(pn) => Err(format!("from_bytes panicked: {} at {}", pn.msg, pn.loc)),
        Ok(Err(e)) => Err(format!("from_bytes failed: {e}")),
        Ok(Ok(d)) if *d != v => Err(format!("decoded value differs in `{}`", first_diff_field(&v, d))),
        Ok(Ok(_)) => Ok(()),
    };
    match &dec {
        Err(_) => r.stat("decode_panics", 1),
        Ok(Err(e)) => {
            r.stat("decode_errors", 1);
            r.set("decode_error_variants", e.split('(').next().unwrap_or("").to_string());
        }
        Ok(Ok(_)) => r.stat("decoded", 1),
    }
    if sample {
        r.sample(
            Json::obj()
                .set("kind", kind)
                .set("encoding_octets", bytes.len())
                .set("user_data_octets", p.user_data.value.len())
                .set("topic_data_octets", p.topic_data.value.len())
                .set("group_data_octets", p.group_data.value.len())
                .set("partitions", p.partition.name.iter().map(|s| Json::s(clip(s))).collect::<Vec<_>>())
                .set("topic_name", clip(&p.topic_name))
                .set("type_information", p.type_information.is_some())
                .set("deadline", format!("{:?}", p.deadline.period))
                .set("oversize_field", over.as_ref().map(|o| Json::s(format!("{}={}", o.field, o.len))))
                .set("outcome", match &outcome {
                    Ok(()) => "round trip ok".to_string(),
                    Err(e) => e.clone(),
                }),
        );
    }
    if let Err(why) = outcome {
        match over {
            // a value with an octet sequence that does not fit a 16-bit parameter length: whatever
            // happens next (error, garbage, panic on the garbage) has this one root cause
            Some(o) => r.violation(
                oversize_sig(o),
                format!(
                    "{kind} with {} of {} octets ({} octets encoded) does not round trip: {why}",
                    o.field,
                    o.len,
                    bytes.len()
                ),
                replay.clone(),
            ),
            None => match &dec {
                Err(pn) => r.violation(util::panic_sig(pn), format!("{kind}: {why}"), replay.clone()),
                Ok(Err(e)) => r.violation(
                    format!("decode_error|kind={kind}|error={}|size=le65535", e.split('(').next().unwrap_or("")),
                    format!("{kind}: {why}"),
                    replay.clone(),
                ),
                Ok(Ok(d)) => r.violation(
                    format!("roundtrip|kind={kind}|field={}|size=le65535", first_diff_field(&v, d)),
                    format!("{kind}: {why}"),
                    replay.clone(),
                ),
            },
        }
        return;
    }
    r.stat("roundtrip_ok", 1);
    if over.is_some() {
        r.stat("roundtrip_ok_oversize", 1);
    }
    let _ = size;
    let decoded = match dec {
        Ok(Ok(d)) => d,
        _ => return,
    };
    if let Some(f) = decoded.getters(p) {
        r.violation(
            format!("getter|kind={kind}|field={f}|stage=decoded"),
            format!("{kind}: getter `{f}` of the decoded value does not return the announced value"),
            replay.clone(),
        );
        return;
    }
    // unknown / vendor-specific parameters must be ignored
    let Some(offs) = parameter_offsets(&bytes) else {
        r.stat("encoding_not_walkable", 1);
        return;
    };
    r.stat("parameters_encoded", offs.len() as i128 - 1);
    let n = rng.below(3) as usize + 1;
    let mut inserts: Vec<(usize, u16, Vec<u8>, &'static str)> = (0..n)
        .map(|_| {
            let (pid, val, class) = gen_unknown(rng);
            (*rng.pick(&offs), pid, val, class)
        })
        .collect();
    inserts.sort_by_key(|x| x.0);
    let mut spliced = Vec::with_capacity(bytes.len() + 70_000);
    let mut at = 0;
    for (off, pid, val, _) in &inserts {
        spliced.extend_from_slice(&bytes[at..*off]);
        at = *off;
        spliced.extend_from_slice(&pid.to_le_bytes());
        spliced.extend_from_slice(&(val.len() as u16).to_le_bytes());
        spliced.extend_from_slice(val);
    }
    spliced.extend_from_slice(&bytes[at..]);
    let classes: Vec<&str> = inserts.iter().map(|x| x.3).collect();
    let pos_class = |off: usize| {
        if off == offs[0] {
            "first"
        } else if off == *offs.last().unwrap() {
            "before_sentinel"
        } else {
            "middle"
        }
    };
    for (off, _, val, class) in &inserts {
        r.stat(&format!("unknown_pid_{class}"), 1);
        r.nontrivial(util::hash_str(&format!(
            "{kind}|unknown|{class}|{}|len={}",
            pos_class(*off),
            match val.len() {
                0 => "0",
                1..=64 => "small",
                65..=4096 => "medium",
                _ => "large",
            }
        )));
    }
    let desc = inserts
        .iter()
        .map(|(off, pid, val, class)| format!("pid {pid:#06x} ({class}, {} octets) at offset {off}", val.len()))
        .collect::<Vec<_>>()
        .join("; ");
    match util::guarded(|| T::decode(&spliced)) {
        Err(pn) => r.violation(
            util::panic_sig(&pn),
            format!("{kind}: from_bytes panicked with unknown parameters spliced in ({desc}): {} at {}", pn.msg, pn.loc),
            replay.clone(),
        ),
        Ok(Err(e)) => r.violation(
            format!("unknown_pid|kind={kind}|pid={}|outcome=decode_error", classes[0]),
            format!("{kind}: announcement with unknown parameters ({desc}) is rejected: {e}"),
            replay.clone(),
        ),
        Ok(Ok(d)) => {
            if d != v {
                r.violation(
                    format!("unknown_pid|kind={kind}|pid={}|outcome=changed_{}", classes[0], first_diff_field(&v, &d)),
                    format!("{kind}: unknown parameters ({desc}) change the decoded value in `{}`", first_diff_field(&v, &d)),
                    replay.clone(),
                );
            } else {
                r.stat("unknown_pid_ignored_ok", 1);
            }
        }
    }
}

fn clip(s: &str) -> String {
    if s.chars().count() > 24 {
        format!("{}...({} chars)", s.chars().take(24).collect::<String>(), s.chars().count())
    } else {
        s.to_string()
    }
}

fn size_bucket(n: usize) -> &'static str {
    match n {
        0 => "0",
        1..=64 => "1-64",
        65..=1500 => "65-1500",
        1501..=32767 => "1501-32767",
        32768..=65527 => "32768-65527",
        65528 => "65528",
        65529..=65535 => "65529-65535",
        _ => "gt65535",
    }
}

/// Name of the struct field in which the `Debug` renderings of two values first differ.
fn first_diff_field<T: Debug>(a: &T, b: &T) -> String {
    let sa = format!("{a:?}");
    let sb = format!("{b:?}");
    let pos = sa
        .bytes()
        .zip(sb.bytes())
        .position(|(x, y)| x != y)
        .unwrap_or(sa.len().min(sb.len()));
    // walk back to the last `name: ` at nesting depth <= 2 (field of the value or of its two parts)
    let bytes = sa.as_bytes();
    let mut depth = 0i32;
    let mut best: Option<(i32, String)> = None;
    let mut i = 0;
    let mut in_str = false;
    while i < pos.min(bytes.len()) {
        let c = bytes[i];
        if in_str {
            if c == b'\\' {
                i += 1;
            } else if c == b'"' {
                in_str = false;
            }
        } else {
            match c {
                b'"' => in_str = true,
                b'{' | b'[' | b'(' => depth += 1,
                b'}' | b']' | b')' => depth -= 1,
                b':' if i + 1 < bytes.len() && bytes[i + 1] == b' ' => {
                    let mut s = i;
                    while s > 0 && (bytes[s - 1].is_ascii_alphanumeric() || bytes[s - 1] == b'_') {
                        s -= 1;
                    }
                    if s < i && depth <= 2 {
                        best = Some((depth, sa[s..i].to_string()));
                    }
                }
                _ => {}
            }
        }
        i += 1;
    }
    best.map(|x| x.1).unwrap_or_else(|| "value".into())
}

/// Everything about a case that is decided before dust-dds code runs.
fn plan(case_seed: u64, force_kind: Option<u64>) -> (u64, Parts, Option<Over>, Rng) {
    let mut rng = Rng::new(case_seed);
    let kind = force_kind.unwrap_or_else(|| rng.below(4));
    let mut p = gen_parts(&mut rng);
    // aim point: one octet sequence that does not fit a single parameter (at most one per value so
    // that the failing field is unambiguous)
    let mut over: Option<Over> = None;
    if rng.chance(0.12) {
        let fields: &[&'static str] = match kind {
            0 => &["user_data"],
            1 | 2 => &["user_data", "topic_data", "group_data"],
            _ => &["topic_data"],
        };
        let field = *rng.pick(fields);
        let len = match rng.below(6) {
            0 => 65529 + rng.below(7) as usize,
            1 => 65536,
            2 => 65537,
            3 => 70000,
            _ => 65536 + rng.below(4465) as usize,
        };
        let data = gen_octets(&mut rng, len);
        match field {
            "user_data" => p.user_data.value = data,
            "topic_data" => p.topic_data.value = data,
            _ => p.group_data.value = data,
        }
        over = Some(Over { field, len });
    }
    (kind, p, over, rng)
}

fn replay_json(case_seed: u64, kind: u64, over: &Option<Over>) -> Json {
    Json::obj()
        .set("case_seed", util::u64_json(case_seed))
        .set("kind", kind)
        .set("oversize", over.as_ref().map(|o| Json::s(format!("{}={}", o.field, o.len))))
}

const KIND_NAMES: [&str; 4] = ["participant", "writer", "reader", "topic"];

fn one(r: &mut Report, case_seed: u64, force_kind: Option<u64>, sample: bool) {
    let (kind, p, over, mut rng) = plan(case_seed, force_kind);
    if let Some(o) = &over {
        r.stat(&format!("oversize_{}", seq_size_class(o.len)), 1);
    }
    r.eval();
    let replay = replay_json(case_seed, kind, &over);
    match kind {
        0 => {
            let v = make_participant(&mut rng, &p);
            check(r, &mut rng, v, &p, &over, &replay, sample)
        }
        1 => {
            let v = make_writer(&mut rng, &p);
            check(r, &mut rng, v, &p, &over, &replay, sample)
        }
        2 => {
            let v = make_reader(&mut rng, &p);
            check(r, &mut rng, v, &p, &over, &replay, sample)
        }
        _ => {
            let v = make_topic(&p);
            check(r, &mut rng, v, &p, &over, &replay, sample)
        }
    }
}

// ------------------------------------------------------------------ supervision
//
// Decoding the garbage that an over-long parameter leaves behind can abort the process (e.g. an
// allocation of a length taken from the wire). Cases therefore run in worker processes (this
// binary with `--worker <list>`); the worker announces every case on stdout before running it, so
// that the supervisor can attribute an abort to the case that caused it and carry on.

#[derive(Clone, Copy)]
struct CaseRef {
    case_seed: u64,
    kind: u64,
    sample: bool,
}

const CHUNK: usize = 4000;
const CHUNK_TIMEOUT_S: u64 = 150;

pub fn worker(list_file: &str) -> Report {
    use std::io::Write;
    let mut r = Report::new("C13");
    r.max_samples = 4;
    let Ok(list) = std::fs::read_to_string(list_file) else {
        r.inconclusive(format!("worker: cannot read {list_file}"));
        return r;
    };
    let stdout = std::io::stdout();
    for (i, line) in list.lines().enumerate() {
        let mut it = line.split_whitespace();
        let (Some(cs), Some(k), Some(s)) = (it.next(), it.next(), it.next()) else { continue };
        let (Ok(cs), Ok(k)) = (cs.parse::<u64>(), k.parse::<u64>()) else { continue };
        {
            let mut o = stdout.lock();
            let _ = writeln!(o, "@ {i}");
            let _ = o.flush();
        }
        one(&mut r, cs, Some(k), s == "1");
    }
    r
}

enum ChunkEnd {
    Done,
    /// died while running the case with this index inside the chunk
    Died { at: Option<usize>, how: String },
}

fn run_chunk(r: &mut Report, cases: &[CaseRef], scratch: &str, tag: &str) -> ChunkEnd {
    let list = format!("{scratch}.{tag}.list");
    let out = format!("{scratch}.{tag}.json");
    let so = format!("{scratch}.{tag}.stdout");
    let se = format!("{scratch}.{tag}.stderr");
    let cleanup = |keep_err: bool| {
        for f in [&list, &out, &so] {
            let _ = std::fs::remove_file(f);
        }
        if !keep_err {
            let _ = std::fs::remove_file(&se);
        }
    };
    let text: String = cases
        .iter()
        .map(|c| format!("{} {} {}\n", c.case_seed, c.kind, c.sample as u8))
        .collect();
    if std::fs::write(&list, text).is_err() {
        r.inconclusive("supervisor: cannot write the case list");
        return ChunkEnd::Done;
    }
    let exe = match std::env::current_exe() {
        Ok(e) => e,
        Err(e) => {
            r.inconclusive(format!("supervisor: current_exe: {e}"));
            return ChunkEnd::Done;
        }
    };
    let (Ok(fo), Ok(fe)) = (std::fs::File::create(&so), std::fs::File::create(&se)) else {
        r.inconclusive("supervisor: cannot create scratch files");
        return ChunkEnd::Done;
    };
    let child = std::process::Command::new(exe)
        .args(["c13", "--worker", &list, "--out", &out])
        .stdin(std::process::Stdio::null())
        .stdout(fo)
        .stderr(fe)
        .spawn();
    let mut child = match child {
        Ok(c) => c,
        Err(e) => {
            r.inconclusive(format!("supervisor: cannot start worker: {e}"));
            cleanup(false);
            return ChunkEnd::Done;
        }
    };
    let t0 = std::time::Instant::now();
    let status = loop {
        match child.try_wait() {
            Ok(Some(st)) => break Some(st),
            Ok(None) => {
                if t0.elapsed().as_secs() > CHUNK_TIMEOUT_S {
                    let _ = child.kill();
                    let _ = child.wait();
                    break None;
                }
                std::thread::sleep(std::time::Duration::from_millis(2));
            }
            Err(_) => break None,
        }
    };
    let report = std::fs::read_to_string(&out).ok().and_then(|s| Json::parse(&s).ok());
    if let (Some(st), Some(j)) = (&status, &report) {
        if st.success() {
            util::merge_report(r, j);
            cleanup(false);
            return ChunkEnd::Done;
        }
    }
    // abnormal end: which case was running?
    let announced = std::fs::read_to_string(&so).unwrap_or_default();
    let at = announced
        .lines()
        .rev()
        .find_map(|l| l.strip_prefix("@ ").and_then(|n| n.trim().parse::<usize>().ok()));
    let err = std::fs::read_to_string(&se).unwrap_or_default();
    let first = err.lines().next().unwrap_or("").to_string();
    let sym = err
        .lines()
        .filter_map(|l| {
            let t = l.trim();
            t.split_once(": ").map(|x| x.1).filter(|s| s.contains("deserialize") || s.contains("dust_dds"))
        })
        .next()
        .unwrap_or("")
        .to_string();
    let how = match status {
        None => format!("worker exceeded {CHUNK_TIMEOUT_S}s and was killed"),
        Some(st) => format!("worker ended with {st}: {first} [{sym}]"),
    };
    cleanup(false);
    ChunkEnd::Died { at, how }
}

fn supervise(r: &mut Report, cases: &[CaseRef], scratch: &str) {
    let mut queue: Vec<(usize, usize)> = Vec::new(); // half-open index ranges, processed in order
    let mut i = 0;
    while i < cases.len() {
        let j = (i + CHUNK).min(cases.len());
        queue.push((i, j));
        i = j;
    }
    queue.reverse();
    let mut n = 0usize;
    let mut deaths = 0usize;
    while let Some((a, b)) = queue.pop() {
        if a >= b {
            continue;
        }
        n += 1;
        match run_chunk(r, &cases[a..b], scratch, &format!("w{n}")) {
            ChunkEnd::Done => {}
            ChunkEnd::Died { at, how } => {
                deaths += 1;
                let Some(k) = at.filter(|k| a + k < b) else {
                    r.inconclusive(format!("worker for cases {a}..{b} of this shard died before announcing a case: {how}"));
                    continue;
                };
                if deaths > 200 {
                    r.inconclusive(format!("more than 200 worker deaths in this shard, giving up at case {}: {how}", a + k));
                    return;
                }
                let c = cases[a + k];
                let (kind, _p, over, _) = plan(c.case_seed, Some(c.kind));
                let kname = KIND_NAMES[kind as usize % 4];
                r.eval();
                r.stat(&format!("values_{kname}"), 1);
                r.stat("worker_aborts", 1);
                let replay = replay_json(c.case_seed, kind, &over);
                let timed_out = how.contains("was killed");
                match (&over, timed_out) {
                    (_, true) => r.inconclusive(format!("case {} ({kname}): {how}", c.case_seed)),
                    (Some(o), false) => {
                        r.stat(&format!("oversize_{}", seq_size_class(o.len)), 1);
                        r.violation(
                            format!("roundtrip|kind={kname}|field={}|size={}", o.field, seq_size_class(o.len)),
                            format!(
                                "{kname} with {} of {} octets does not round trip: decoding its own encoding killed the process ({how})",
                                o.field, o.len
                            ),
                            replay,
                        );
                    }
                    (None, false) => r.violation(
                        format!("abort|kind={kname}|{}", vcore::normalize_msg(how.split(": ").nth(1).unwrap_or(&how))),
                        format!("{kname}: round trip of an ordinary value killed the process ({how})"),
                        replay,
                    ),
                }
                // the rest of the chunk: before k is known to be safe and deterministic -> rerun; after k -> run
                queue.push((a + k + 1, b));
                queue.push((a, a + k));
            }
        }
    }
}

pub fn run(run: &Run) -> Report {
    if let Some(list) = &run.worker {
        return worker(list);
    }
    let mut r = Report::new("C13");
    r.max_samples = 4;
    let scratch = if run.out == "-" || run.out.is_empty() {
        format!("{}/codec-c13-{}", std::env::temp_dir().display(), std::process::id())
    } else {
        run.out.clone()
    };
    let mut cases: Vec<CaseRef> = Vec::new();
    if let Some(rep) = &run.replay {
        for w in util::replay_objects(rep) {
            match util::json_u64(w.get("case_seed")) {
                Some(cs) => {
                    // the kind is stored; older witnesses without it derive it from the seed
                    let kind = w
                        .get("kind")
                        .and_then(|k| k.as_u64())
                        .unwrap_or_else(|| plan(cs, None).0);
                    cases.push(CaseRef { case_seed: cs, kind, sample: true });
                }
                None => r.inconclusive("replay witness without case_seed"),
            }
        }
    } else {
        let (lo, hi) = run.my_range(run.cases);
        for i in lo..hi {
            cases.push(CaseRef { case_seed: vcore::mix(run.seed ^ 0xC13, i), kind: i % 4, sample: i - lo < 4 });
        }
    }
    supervise(&mut r, &cases, &scratch);
    r
}
