//! Dev entry point for the C07 engine (same as `xcdr c07 ...`), so C07 can be built and run while
//! other checks in main.rs are under construction.
fn main() {
    let args = vcore::Args::parse();
    std::process::exit(xcdrlib::c07::main(&args));
}
