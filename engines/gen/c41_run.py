"""C41 orchestration: generate IDL specifications -> real IDL compiler (driver bin around
dust_dds_gen::compile_idl) -> one cargo build per round (several bins, each including many
generated modules) -> run -> oracle.  IDL compiler failures and rustc errors are attributed to the
definition (and member) they point at; those definitions and their dependents are removed from the
specification and the remainder is re-checked in the next round."""
import json, os, re, shutil, subprocess, time

import common
from common import Rng, h64
import c41

IDLC_TOML = """[package]
name = "gen_idlc"
version = "0.0.0"
edition = "2024"

[workspace]

[dependencies]
dust_dds_gen = { path = "%s/dds_gen" }
""" % common.REPO + common.PROFILE


def build_idlc(rep):
    d = os.path.join(common.BUILD, "gen", "idlc")
    os.makedirs(os.path.join(d, "src"), exist_ok=True)
    common.write_if_changed(os.path.join(d, "Cargo.toml"), IDLC_TOML)
    common.write_if_changed(os.path.join(d, ".cargo", "config.toml"), common.CARGO_CONFIG)
    common.write_if_changed(os.path.join(d, "src", "main.rs"), open(os.path.join(common.ENGINE_DIR, "idlc_main.rs")).read())
    if os.path.exists(os.path.join(common.REPO, "Cargo.lock")):
        shutil.copy(os.path.join(common.REPO, "Cargo.lock"), os.path.join(d, "Cargo.lock"))
    t0 = time.time()
    r = subprocess.run(["cargo", "build", "--offline"], cwd=d, env=common.cargo_env(), stdout=subprocess.PIPE, stderr=subprocess.STDOUT, text=True)
    rep.stat("idlc_build_ms", int((time.time() - t0) * 1000))
    if r.returncode != 0:
        rep.inconclusive.append("IDL compiler driver does not build (does /repo/dds_gen still compile?): " + r.stdout[-600:])
        return None
    return os.path.join(common.GEN_TARGET, "debug", "gen_idlc")


def run_idlc(idlc, pairs, workdir):
    man = os.path.join(workdir, "manifest.txt")
    with open(man, "w") as fh:
        for a, b in pairs:
            fh.write("%s\t%s\n" % (a, b))
    r = subprocess.run([idlc, man], stdout=subprocess.PIPE, stderr=subprocess.PIPE, text=True, timeout=300)
    out = {}
    for line in r.stdout.splitlines():
        try:
            m = json.loads(line)
            out[m["idl"]] = m
        except ValueError:
            pass
    return out, r.returncode, r.stderr[-500:]


def dependents(sg, bad_paths):
    """marks the definitions in bad_paths and everything depending on them as removed"""
    bad = set(bad_paths)
    changed = True
    while changed:
        changed = False
        for d in sg.defs:
            p = tuple(d["scope"] + [d["name"]])
            if p not in bad and any(x in bad for x in d["deps"]):
                bad.add(p)
                changed = True
    n = 0
    for d in sg.defs:
        if tuple(d["scope"] + [d["name"]]) in bad and not d.get("removed"):
            d["removed"] = True
            n += 1
    return n


def locate_rust(sg, text, offset):
    """(definition, part) owning byte `offset` of the generated Rust text"""
    items = []
    for d in c41.present_defs(sg):
        kw = {"struct": "pub struct %s ", "enum": "pub enum %s ", "union": "pub enum %s ", "typedef": "pub type %s=", "const": "pub const %s:"}[d["k"]] % d["name"]
        pos = text.find(kw)
        if pos < 0:
            continue
        start = pos
        if d["k"] in ("struct", "enum", "union"):
            s2 = text.rfind("#[derive(", 0, pos)
            if s2 >= 0:
                start = s2
        items.append((start, pos, d))
    items.sort(key=lambda x: x[0])
    owner = None
    for i, (start, pos, d) in enumerate(items):
        end = items[i + 1][0] if i + 1 < len(items) else len(text)
        if start <= offset < end:
            owner = (start, pos, end, d)
            break
    if owner is None:
        return None, None
    start, pos, end, d = owner
    if offset < pos:
        return d, "head"
    region = text[pos:end]
    rel = offset - pos
    if d["k"] == "struct":
        best = None
        for mi, m in enumerate(d["members"]):
            for dc in m["decls"]:
                for mm in re.finditer(r"pub %s:" % re.escape(dc["name"]), region):
                    # attributes of the member precede `pub name:`; search back to the previous ',' or '{'
                    a = max(region.rfind(",", 0, mm.start()), region.rfind("{", 0, mm.start()))
                    if a <= rel and (best is None or a > best[0]):
                        best = (a, "member:%d" % mi)
        return d, (best[1] if best else "head")
    if d["k"] == "union":
        best = None
        for ci, c in enumerate(d["cases"]):
            first = c["labels"][0]
            vn = "Default" if first == "default" else "Case%d" % first
            p = region.find(vn + "{")
            if p >= 0:
                a = region.rfind("#[dust_dds(", 0, p)
                a = a if a >= 0 else p
                if a <= rel and (best is None or a > best[0]):
                    best = (a, "case:%d" % ci)
        return d, (best[1] if best else "head")
    return d, "head"


def spec_replay(sg):
    main, inc, _ = sg.emit()
    return {"prop": "c41", "idl": main, "include": inc, "include_name": sg.include_name if inc else None,
            "model": {"defs": [{k: v for k, v in d.items()} for d in sg.defs], "defines": sg.defines, "index": sg.index,
                      "tree": tree_to_json(sg.tree)}}


def tree_to_json(nodes):
    out = []
    for n in nodes:
        if n[0] == "def":
            out.append(["def", n[1]["scope"] + [n[1]["name"]]])
        elif n[0] == "module":
            out.append(["module", n[1], tree_to_json(n[2])])
        else:
            out.append([n[0], n[1], n[2], tree_to_json(n[3])])
    return out


def tree_from_json(nodes, by_path):
    out = []
    for n in nodes:
        if n[0] == "def":
            out.append(("def", by_path[tuple(n[1])]))
        elif n[0] == "module":
            out.append(("module", n[1], tree_from_json(n[2], by_path)))
        else:
            out.append((n[0], n[1], n[2], tree_from_json(n[3], by_path)))
    return out


def spec_from_replay(rp):
    m = rp["model"]
    sg = c41.SpecGen(Rng("replay"), m["index"])
    sg.defs = m["defs"]
    for d in sg.defs:
        d["deps"] = [tuple(x) for x in d["deps"]]
        d.pop("removed", None)
        sg.by_path[tuple(d["scope"] + [d["name"]])] = d
    sg.defines = [tuple(x) for x in m["defines"]]
    sg.tree = tree_from_json(m["tree"], sg.by_path)
    sg.use_include = rp.get("include") is not None
    sg.include_name = rp.get("include_name") or "spec_inc.idl"
    sg.probe_names = [dc["name"] for d in sg.defs if d["k"] == "struct" for mm in d["members"] for dc in mm["decls"] if dc["name"].endswith("_x")]
    return sg


def count_stats(sg, rep):
    for d in sg.defs:
        rep.stat("def_" + d["k"])
        if d["k"] == "struct":
            rep.stat("struct_ext_%s" % (d["ext"] or "unspecified"))
            if d["base"]:
                rep.stat("struct_inheritance")
            for m in d["members"]:
                rep.stat("struct_members", len(m["decls"]))
                for a in m["ann"]:
                    rep.stat("annotation_@" + a)
                if len(m["decls"]) > 1:
                    rep.stat("member_with_several_declarators")
                if any(dc["arr"] for dc in m["decls"]):
                    rep.stat("array_declarators")
                rep.note("member_type_classes", c41.type_class(m["ty"]))
        elif d["k"] == "enum":
            if d["bit_bound"] is not None:
                rep.stat("annotation_@bit_bound")
            if any(e["value_ann"] is not None for e in d["enumerators"]):
                rep.stat("enum_with_@value")
            rep.stat("enumerators", len(d["enumerators"]))
        elif d["k"] == "union":
            rep.stat("union_cases", len(d["cases"]))
            if any("default" in c["labels"] for c in d["cases"]):
                rep.stat("union_default")
            for c in d["cases"]:
                rep.note("member_type_classes", c41.type_class(c["ty"]))
        elif d["k"] == "typedef":
            rep.note("typedef_classes", c41.type_class(d["ty"]))
        if d["scope"]:
            rep.stat("defs_in_modules")
        if "present" in d:
            rep.stat("defs_under_ifdef")
    if sg.defines:
        rep.stat("specs_with_define")
    if getattr(sg, "use_include", False):
        rep.stat("specs_with_include")


def process_batch(args, rep, idlc, crate_dir, specs, tag):
    """specs: [(mod name, SpecGen)]"""
    bin_dir = os.path.join(common.GEN_TARGET, "debug")
    idl_dir = os.path.join(crate_dir, "idl")
    active = list(specs)
    finished = set()

    def finish(mod, sg, checked):
        if mod in finished:
            return
        finished.add(mod)
        rep.evaluations += 1
        if checked:
            rep.nontrivial.add(h64(c41.shape_of(sg)))

    def violation(sig, what, sg, d=None):
        rp = original_replay[id(sg)]
        rep.violation(sig, what + (" | IDL: " + c41.def_idl(d).replace("\n", " ") if d is not None else ""), rp)

    original_replay = {id(sg): spec_replay(sg) for _, sg in specs}

    for rnd in range(6):
        if not active:
            break
        common.prepare_crate(crate_dir, "gen_c41_s%d" % args.shard, 'dust_dds = { path = "%s/dds" }' % common.REPO)
        shutil.rmtree(idl_dir, ignore_errors=True)
        os.makedirs(idl_dir)
        os.makedirs(os.path.join(crate_dir, "src", "specs"))
        pairs = []
        pre_tags = {}
        for mod, sg in active:
            main, inc, pre = sg.emit()
            pre_tags[mod] = pre
            p = os.path.join(idl_dir, mod + ".idl")
            with open(p, "w") as fh:
                fh.write(main)
            if inc is not None:
                with open(os.path.join(idl_dir, sg.include_name), "w") as fh:
                    fh.write(inc)
            pairs.append((p, os.path.join(crate_dir, "src", "specs", mod + ".rs")))
        res, rc, err = run_idlc(idlc, pairs, crate_dir)
        rep.stat("idl_compiler_runs", len(pairs))
        compiled = []
        nxt = []
        for (mod, sg), (p, outp) in zip(active, pairs):
            r = res.get(p)
            if r is None:
                rep.inconclusive.append("%s: IDL driver produced no result for %s (rc=%s %s)" % (tag, mod, rc, err[-200:]))
                continue
            if r["ok"]:
                compiled.append((mod, sg))
                continue
            # ---- IDL compiler failed: attribute through the position in the (preprocessed) text
            msg = r.get("msg", "")
            d = part = None
            m = re.search(r"-->\s*(\d+):(\d+)", msg)
            if m:
                ln = int(m.group(1))
                pre = pre_tags[mod]
                if 1 <= ln <= len(pre) and pre[ln - 1][0] is not None:
                    d = sg.by_path.get(pre[ln - 1][0])
                    part = pre[ln - 1][1]
            kind = "generator_panic" if r.get("kind") == "panic" else "parse_error"
            if d is not None:
                tg = c41.part_tag(sg, d, part)
                first = msg.strip().split("\n")[-1].strip() if kind == "parse_error" else msg
                violation("%s|construct=%s" % (kind, tg), "%s: %s" % (mod, first[:300]), sg, d)
                rep.stat("idl_failures_attributed")
                left = dependents(sg, [tuple(d["scope"] + [d["name"]])])
                if c41.present_defs(sg):
                    nxt.append((mod, sg))
                else:
                    finish(mod, sg, False)
            else:
                # no usable position (e.g. a panic inside the generator): try every definition alone
                cands = []
                for dd in c41.present_defs(sg):
                    cands.append(dd)
                sub_pairs = []
                sub = {}
                for i, dd in enumerate(cands):
                    keep = set([tuple(dd["scope"] + [dd["name"]])])
                    grow = True
                    while grow:
                        grow = False
                        for x in sg.defs:
                            px = tuple(x["scope"] + [x["name"]])
                            if px in keep:
                                for dep in x["deps"]:
                                    if dep not in keep:
                                        keep.add(dep)
                                        grow = True
                    saved = [(x, x.get("removed")) for x in sg.defs]
                    for x in sg.defs:
                        if tuple(x["scope"] + [x["name"]]) not in keep:
                            x["removed"] = True
                    main, inc, _ = sg.emit()
                    for x, was in saved:
                        if was:
                            x["removed"] = True
                        else:
                            x.pop("removed", None)
                    sp = os.path.join(idl_dir, "%s_only%d.idl" % (mod, i))
                    with open(sp, "w") as fh:
                        fh.write(main)
                    if inc is not None:
                        with open(os.path.join(idl_dir, sg.include_name), "w") as fh:
                            fh.write(inc)
                    sub_pairs.append((sp, sp + ".rs"))
                    sub[sp] = (dd, len(keep))
                sres, _, _ = run_idlc(idlc, sub_pairs, crate_dir)
                failing = [(sub[p2][1], sub[p2][0], sres[p2]) for p2, _ in sub_pairs if p2 in sres and not sres[p2]["ok"]]
                if failing:
                    failing.sort(key=lambda x: x[0])
                    _, dd, rr = failing[0]
                    violation("%s|construct=%s" % (kind, c41.part_tag(sg, dd, None)), "%s: %s" % (mod, rr.get("msg", "")[:300]), sg, dd)
                    dependents(sg, [tuple(x[1]["scope"] + [x[1]["name"]]) for x in failing if x[0] == failing[0][0]])
                    if c41.present_defs(sg):
                        nxt.append((mod, sg))
                    else:
                        finish(mod, sg, False)
                else:
                    violation("%s|construct=whole_specification" % kind, "%s: %s" % (mod, msg[:300]), sg)
                    finish(mod, sg, False)
        # ---- compile what the IDL compiler produced
        if compiled:
            nb = max(1, min(16, -(-len(compiled) // 4)))
            bins = {}
            for i, (mod, sg) in enumerate(compiled):
                bins.setdefault("c41_s%d_b%d" % (args.shard, i % nb), []).append((mod, sg, mod + ".rs"))
            srcs = {}
            for b, lst in bins.items():
                src, line_map = c41.bin_source(lst)
                srcs[b] = (src, line_map)
                with open(os.path.join(crate_dir, "src", "bin", b + ".rs"), "w") as fh:
                    fh.write(src)
            t0 = time.time()
            ok, errors, stderr_tail, rc = common.cargo_build(crate_dir)
            rep.stat("cargo_builds")
            rep.stat("cargo_build_ms", int((time.time() - t0) * 1000))
            if rc is None:
                rep.inconclusive.append("%s: %s" % (tag, stderr_tail))
                return
            dep_err = [k for k in errors if k.startswith("<dep:")]
            if dep_err:
                rep.inconclusive.append("%s: dependency does not compile (%s): %s" % (tag, dep_err[0], common.diag_text(errors[dep_err[0]][0], 400)))
                return
            good = [b for b in bins if b in ok]
            outs = common.run_bins([os.path.join(bin_dir, b) for b in good])
            for b in good:
                rc_b, so, se = outs[os.path.join(bin_dir, b)]
                if rc_b != 0:
                    rep.inconclusive.append("%s: generated program %s exited %s: %s" % (tag, b, rc_b, se[-300:]))
                    continue
                try:
                    results = {r["spec"]: r for r in json.loads(so)}
                except ValueError as ex:
                    rep.inconclusive.append("%s: unparsable output of %s: %s" % (tag, b, str(ex)[:200]))
                    continue
                for mod, sg, _ in bins[b]:
                    r = results.get(mod)
                    if r is None or "panic" in r:
                        violation("dump_panic|construct=whole_specification", "%s: dumping the generated types panicked: %s" % (mod, (r or {}).get("panic")), sg)
                        finish(mod, sg, False)
                        continue
                    c41.check_spec(sg, mod, r, lambda sig, what, d=None, sg=sg: violation(sig, what, sg, d), rep.note, rep.stat)
                    finish(mod, sg, True)
                    if len(rep.samples) < 3 and len(sg.defs) <= 6 and not any(d.get("removed") for d in sg.defs):
                        main, inc, _ = sg.emit()
                        rep.samples.append({"idl": main.split("\n"), "include_file": inc,
                                            "generated_rust": open(os.path.join(crate_dir, "src", "specs", mod + ".rs")).read()[:1500],
                                            "dumped_types": {k: common.compact_dump(v) for k, v in r.get("types", {}).items()},
                                            "dumped_enumerators": r.get("enums"), "dumped_constants": r.get("consts")})
            # ---- attribute rustc errors
            for b, lst in bins.items():
                if b in ok:
                    continue
                diags = errors.get(b, [])
                src, line_map = srcs[b]
                by_mod = {mod: sg for mod, sg, _ in lst}
                hit = {}
                unmapped = []
                for dg in diags:
                    sp = common.primary_span(dg)
                    if not sp:
                        unmapped.append(dg)
                        continue
                    fn = sp[0]
                    mm = re.search(r"specs/(\w+)\.rs$", fn)
                    if mm and mm.group(1) in by_mod:
                        hit.setdefault(mm.group(1), []).append((dg, sp, "spec"))
                    elif fn.endswith(b + ".rs"):
                        for lo, hi, mod in line_map:
                            if lo <= sp[1] <= hi:
                                hit.setdefault(mod, []).append((dg, sp, "harness"))
                                break
                        else:
                            unmapped.append(dg)
                    else:
                        unmapped.append(dg)
                if not hit:
                    msg = common.diag_text(unmapped[0], 500) if unmapped else stderr_tail[-500:]
                    rep.inconclusive.append("%s: %s does not compile and no error maps to a specification: %s" % (tag, b, msg))
                    continue
                for mod, sg, _ in lst:
                    if mod not in hit:
                        nxt.append((mod, sg))      # innocent bystander: retried next round
                        continue
                    text = open(os.path.join(crate_dir, "src", "specs", mod + ".rs")).read()
                    bad_defs = {}
                    harness_only = []
                    for dg, sp, where in hit[mod]:
                        if where == "harness":
                            harness_only.append(dg)
                            continue
                        d, part = locate_rust(sg, text, sp[3])
                        if d is None:
                            harness_only.append(dg)
                            continue
                        bad_defs.setdefault(tuple(d["scope"] + [d["name"]]), (d, part, dg))
                    if bad_defs:
                        # offenders: definitions with errors none of whose dependencies has errors
                        def dep_bad(d, seen=None):
                            seen = seen or set()
                            for x in d["deps"]:
                                if x in bad_defs:
                                    return True
                                if x not in seen and x in sg.by_path:
                                    seen.add(x)
                                    if dep_bad(sg.by_path[x], seen):
                                        return True
                            return False
                        offenders = [v for k, v in bad_defs.items() if not dep_bad(v[0])]
                        for d, part, dg in offenders:
                            code = (dg.get("code") or {}).get("code") or "derive"
                            sig = "rustc_error|construct=%s|code=%s|msg=%s" % (c41.classify_rustc(sg, d, part, dg), code, common.normalize_rustc_msg(dg.get("message", ""))[:60])
                            violation(sig, "%s: generated Rust does not compile: %s" % (mod, common.diag_text(dg, 700).replace("\n", " ")[:700]), sg, d)
                            rep.stat("rustc_errors_attributed")
                        dependents(sg, [tuple(d["scope"] + [d["name"]]) for d, _, _ in offenders])
                        if c41.present_defs(sg):
                            nxt.append((mod, sg))
                        else:
                            finish(mod, sg, False)
                    else:
                        dg = harness_only[0]
                        code = (dg.get("code") or {}).get("code") or "-"
                        violation("rustc_error|construct=declared_item_missing_in_generated_rust|code=%s|msg=%s" % (code, common.normalize_rustc_msg(dg.get("message", ""))[:60]),
                                  "%s: the dumping code cannot refer to a declared item: %s" % (mod, common.diag_text(dg, 600).replace("\n", " ")), sg)
                        finish(mod, sg, False)
        active = nxt
    for mod, sg in active:
        rep.stat("specs_unfinished_after_6_rounds")
    if active:
        rep.inconclusive.append("%s: %d specifications still not compiling after 6 attribution rounds" % (tag, len(active)))


def run(args, rep):
    idlc = build_idlc(rep)
    if idlc is None:
        return
    if args.replay:
        return replay(args, rep, idlc)
    share = args.cases // args.nshards + (1 if args.shard < args.cases % args.nshards else 0)
    batch = args.batch or (512 if args.tier == "thorough" else share)
    crate_dir = os.path.join(common.BUILD, "gen", "c41-s%d" % args.shard)
    t_start = time.time()
    done = 0
    bno = 0
    while done < share:
        if args.budget_s and time.time() - t_start > args.budget_s:
            rep.stat("batches_skipped_for_budget")
            break
        n = min(batch, share - done)
        specs = []
        for i in range(n):
            idx = bno * 100000 + i
            sg = c41.SpecGen(Rng("c41", args.seed, args.shard, bno, i), idx).generate()
            count_stats(sg, rep)
            specs.append(("spec_%d" % idx, sg))
        process_batch(args, rep, idlc, crate_dir, specs, "batch %d" % bno)
        done += n
        bno += 1
    rep.stat("batches", bno)


def replay(args, rep, idlc):
    doc = json.load(open(args.replay))
    specs = []
    seen = set()
    for i, w in enumerate(doc.get("witnesses", [])):
        rp = w.get("replay") or {}
        if rp.get("prop") != "c41":
            continue
        key = json.dumps(rp["model"]["defs"], sort_keys=True)
        if key in seen:
            continue
        seen.add(key)
        sg = spec_from_replay(rp)
        specs.append(("spec_r%d" % i, sg))
    crate_dir = os.path.join(common.BUILD, "gen", "c41-replay")
    process_batch(args, rep, idlc, crate_dir, specs, "replay")
    if not rep.samples:
        rep.samples.append({"replayed_specifications": len(specs)})
