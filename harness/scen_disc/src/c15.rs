//! C15: endpoints match exactly when topic, type, partition and RxO QoS are compatible.
//!
//! (a) direct differential of dust-dds' two compatibility functions (hook wrappers) against the
//!     RxO table of DDS 1.4 2.2.3 (function `rxo` below);
//! (b) end to end in the simulation: two participants, many writer/reader pairs on distinct
//!     topics, generated QoS / topic / type / partitions; verdicts on both sides and the
//!     offered/requested incompatible QoS reports (delivered through listeners).
use crate::common::*;
use crate::fnm::{self, Tri};
use dust_dds::builtin_topics::{BuiltInTopicKey, PublicationBuiltinTopicData, SubscriptionBuiltinTopicData};
use dust_dds::dds_async::data_reader::DataReaderAsync;
use dust_dds::dds_async::data_reader_listener::DataReaderListener;
use dust_dds::dds_async::data_writer::DataWriterAsync;
use dust_dds::dds_async::data_writer_listener::DataWriterListener;
use dust_dds::infrastructure::instance::InstanceHandle;
use dust_dds::infrastructure::listener::NO_LISTENER;
use dust_dds::infrastructure::qos::{DataReaderQos, DataWriterQos, PublisherQos, QosKind, SubscriberQos};
use dust_dds::infrastructure::qos_policy::*;
use dust_dds::infrastructure::status::{
    NO_STATUS, OfferedIncompatibleQosStatus, QosPolicyCount, RequestedIncompatibleQosStatus, StatusKind,
};
use dust_dds::infrastructure::time::{Duration, DurationKind};
use dust_dds::infrastructure::type_support::DdsType;
use dust_dds::transport::types::CacheChange;
use dust_dds::verif_hooks::dcps_domain_participant::data_reader_entity::DataReaderEntity;
use dust_dds::verif_hooks::dcps_domain_participant::discovery_methods::{
    verif_reader_incompatible_qos, verif_writer_incompatible_qos,
};
use dust_dds::verif_hooks::dcps_domain_participant::rtps_traits::RtpsReader;
use simnet::*;
use std::collections::BTreeSet;
use std::future::Future;
use std::sync::{Arc, Mutex};
use vcore::{Json, Report, Rng};

// ------------------------------------------------------------------------------------------
// QoS model

pub const DUR_NAMES: [&str; 4] = ["1ms", "1s", "1s+1ns", "inf"];
pub fn dur_kind(i: u8) -> DurationKind {
    match i {
        0 => DurationKind::Finite(Duration::new(0, 1_000_000)),
        1 => DurationKind::Finite(Duration::new(1, 0)),
        2 => DurationKind::Finite(Duration::new(1, 1)),
        _ => DurationKind::Infinite,
    }
}
fn dur_ns(i: u8) -> i128 {
    match i {
        0 => 1_000_000,
        1 => 1_000_000_000,
        2 => 1_000_000_001,
        _ => i128::MAX,
    }
}
const REPR_LISTS: [&[u16]; 5] = [&[], &[0], &[2], &[0, 2], &[2, 0]];
const REPR_NAMES: [&str; 5] = ["[]", "[XCDR1]", "[XCDR2]", "[XCDR1,XCDR2]", "[XCDR2,XCDR1]"];

/// One side's request/offered relevant QoS (indices into small value sets).
#[derive(Clone, Debug, PartialEq, Eq, Hash)]
pub struct Side {
    pub durability: u8,
    pub reliability: u8,
    pub dest_order: u8,
    pub ownership: u8,
    pub live_kind: u8,
    pub live_lease: u8,
    pub deadline: u8,
    pub latency: u8,
    pub scope: u8,
    pub coherent: bool,
    pub ordered: bool,
    pub repr: u8,
}

impl Side {
    pub fn random(rng: &mut Rng, max_repr: u64) -> Side {
        Side {
            durability: rng.below(4) as u8,
            reliability: rng.below(2) as u8,
            dest_order: rng.below(2) as u8,
            ownership: rng.below(2) as u8,
            live_kind: rng.below(3) as u8,
            live_lease: rng.below(4) as u8,
            deadline: rng.below(4) as u8,
            latency: rng.below(4) as u8,
            scope: rng.below(2) as u8,
            coherent: rng.bool(),
            ordered: rng.bool(),
            repr: rng.below(max_repr) as u8,
        }
    }
    pub fn to_json(&self) -> Json {
        Json::obj()
            .set("durability", ["VOLATILE", "TRANSIENT_LOCAL", "TRANSIENT", "PERSISTENT"][self.durability as usize])
            .set("reliability", ["BEST_EFFORT", "RELIABLE"][self.reliability as usize])
            .set("destination_order", ["BY_RECEPTION", "BY_SOURCE"][self.dest_order as usize])
            .set("ownership", ["SHARED", "EXCLUSIVE"][self.ownership as usize])
            .set(
                "liveliness",
                format!(
                    "{}/{}",
                    ["AUTOMATIC", "MANUAL_BY_PARTICIPANT", "MANUAL_BY_TOPIC"][self.live_kind as usize],
                    DUR_NAMES[self.live_lease as usize]
                ),
            )
            .set("deadline", DUR_NAMES[self.deadline as usize])
            .set("latency_budget", DUR_NAMES[self.latency as usize])
            .set(
                "presentation",
                format!(
                    "{}/coherent={}/ordered={}",
                    ["INSTANCE", "TOPIC"][self.scope as usize],
                    self.coherent,
                    self.ordered
                ),
            )
            .set("representation", REPR_NAMES[self.repr as usize])
    }
    fn durability_q(&self) -> DurabilityQosPolicy {
        DurabilityQosPolicy {
            kind: [
                DurabilityQosPolicyKind::Volatile,
                DurabilityQosPolicyKind::TransientLocal,
                DurabilityQosPolicyKind::Transient,
                DurabilityQosPolicyKind::Persistent,
            ][self.durability as usize],
        }
    }
    fn reliability_q(&self) -> ReliabilityQosPolicy {
        ReliabilityQosPolicy {
            kind: [ReliabilityQosPolicyKind::BestEffort, ReliabilityQosPolicyKind::Reliable][self.reliability as usize],
            max_blocking_time: DurationKind::Finite(Duration::new(0, 100_000_000)),
        }
    }
    fn dest_q(&self) -> DestinationOrderQosPolicy {
        DestinationOrderQosPolicy {
            kind: [
                DestinationOrderQosPolicyKind::ByReceptionTimestamp,
                DestinationOrderQosPolicyKind::BySourceTimestamp,
            ][self.dest_order as usize],
        }
    }
    fn ownership_q(&self) -> OwnershipQosPolicy {
        OwnershipQosPolicy {
            kind: [OwnershipQosPolicyKind::Shared, OwnershipQosPolicyKind::Exclusive][self.ownership as usize],
        }
    }
    fn liveliness_q(&self) -> LivelinessQosPolicy {
        LivelinessQosPolicy {
            kind: [
                LivelinessQosPolicyKind::Automatic,
                LivelinessQosPolicyKind::ManualByParticipant,
                LivelinessQosPolicyKind::ManualByTopic,
            ][self.live_kind as usize],
            lease_duration: dur_kind(self.live_lease),
        }
    }
    fn deadline_q(&self) -> DeadlineQosPolicy {
        DeadlineQosPolicy {
            period: dur_kind(self.deadline),
        }
    }
    fn latency_q(&self) -> LatencyBudgetQosPolicy {
        LatencyBudgetQosPolicy {
            duration: dur_kind(self.latency),
        }
    }
    fn presentation_q(&self) -> PresentationQosPolicy {
        PresentationQosPolicy {
            access_scope: [
                PresentationQosPolicyAccessScopeKind::Instance,
                PresentationQosPolicyAccessScopeKind::Topic,
            ][self.scope as usize],
            coherent_access: self.coherent,
            ordered_access: self.ordered,
        }
    }
    fn repr_q(&self) -> DataRepresentationQosPolicy {
        DataRepresentationQosPolicy {
            value: REPR_LISTS[self.repr as usize].to_vec(),
        }
    }
    pub fn writer_qos(&self) -> DataWriterQos {
        DataWriterQos {
            durability: self.durability_q(),
            deadline: self.deadline_q(),
            latency_budget: self.latency_q(),
            liveliness: self.liveliness_q(),
            reliability: self.reliability_q(),
            destination_order: self.dest_q(),
            ownership: self.ownership_q(),
            representation: self.repr_q(),
            ..Default::default()
        }
    }
    pub fn reader_qos(&self) -> DataReaderQos {
        DataReaderQos {
            durability: self.durability_q(),
            deadline: self.deadline_q(),
            latency_budget: self.latency_q(),
            liveliness: self.liveliness_q(),
            reliability: self.reliability_q(),
            destination_order: self.dest_q(),
            ownership: self.ownership_q(),
            representation: self.repr_q(),
            ..Default::default()
        }
    }
    pub fn publisher_qos(&self, partition: &[String]) -> PublisherQos {
        PublisherQos {
            presentation: self.presentation_q(),
            partition: PartitionQosPolicy {
                name: partition.to_vec(),
            },
            ..Default::default()
        }
    }
    pub fn subscriber_qos(&self, partition: &[String]) -> SubscriberQos {
        SubscriberQos {
            presentation: self.presentation_q(),
            partition: PartitionQosPolicy {
                name: partition.to_vec(),
            },
            ..Default::default()
        }
    }
}

pub fn policy_name(id: QosPolicyId) -> String {
    match id {
        DURABILITY_QOS_POLICY_ID => "DURABILITY".into(),
        PRESENTATION_QOS_POLICY_ID => "PRESENTATION".into(),
        DEADLINE_QOS_POLICY_ID => "DEADLINE".into(),
        LATENCYBUDGET_QOS_POLICY_ID => "LATENCYBUDGET".into(),
        OWNERSHIP_QOS_POLICY_ID => "OWNERSHIP".into(),
        LIVELINESS_QOS_POLICY_ID => "LIVELINESS".into(),
        RELIABILITY_QOS_POLICY_ID => "RELIABILITY".into(),
        DESTINATIONORDER_QOS_POLICY_ID => "DESTINATIONORDER".into(),
        DATA_REPRESENTATION_QOS_POLICY_ID => "DATA_REPRESENTATION".into(),
        other => format!("ID{other}"),
    }
}

/// THE ORACLE: request/offered compatibility of DDS 1.4 2.2.3 (Table 9 and the per-policy
/// sections) and DDS-XTypes 7.6.3.1.1 for the data representation. Returns the ids of the
/// policies whose offered value is incompatible with the requested value.
pub fn rxo(off: &Side, req: &Side) -> BTreeSet<QosPolicyId> {
    let mut s = BTreeSet::new();
    // DURABILITY: offered kind >= requested kind, VOLATILE < TRANSIENT_LOCAL < TRANSIENT < PERSISTENT
    if off.durability < req.durability {
        s.insert(DURABILITY_QOS_POLICY_ID);
    }
    // PRESENTATION: offered access_scope >= requested; requested coherent_access FALSE or both
    // TRUE; requested ordered_access FALSE or both TRUE
    if off.scope < req.scope || (req.coherent && !off.coherent) || (req.ordered && !off.ordered) {
        s.insert(PRESENTATION_QOS_POLICY_ID);
    }
    // DEADLINE: offered period <= requested period
    if dur_ns(off.deadline) > dur_ns(req.deadline) {
        s.insert(DEADLINE_QOS_POLICY_ID);
    }
    // LATENCY_BUDGET: offered duration <= requested duration
    if dur_ns(off.latency) > dur_ns(req.latency) {
        s.insert(LATENCYBUDGET_QOS_POLICY_ID);
    }
    // OWNERSHIP: offered kind == requested kind
    if off.ownership != req.ownership {
        s.insert(OWNERSHIP_QOS_POLICY_ID);
    }
    // LIVELINESS: offered kind >= requested kind (AUTOMATIC < MANUAL_BY_PARTICIPANT <
    // MANUAL_BY_TOPIC) AND offered lease_duration <= requested lease_duration
    if off.live_kind < req.live_kind || dur_ns(off.live_lease) > dur_ns(req.live_lease) {
        s.insert(LIVELINESS_QOS_POLICY_ID);
    }
    // RELIABILITY: offered kind >= requested kind, BEST_EFFORT < RELIABLE
    if off.reliability < req.reliability {
        s.insert(RELIABILITY_QOS_POLICY_ID);
    }
    // DESTINATION_ORDER: offered kind >= requested kind, BY_RECEPTION < BY_SOURCE
    if off.dest_order < req.dest_order {
        s.insert(DESTINATIONORDER_QOS_POLICY_ID);
    }
    // DATA_REPRESENTATION: the writer offers its first value ([] = [XCDR1]); it must be
    // contained in the reader's list ([] = [XCDR1])
    let offered = REPR_LISTS[off.repr as usize].first().copied().unwrap_or(0);
    let requested: &[u16] = if REPR_LISTS[req.repr as usize].is_empty() {
        &[0]
    } else {
        REPR_LISTS[req.repr as usize]
    };
    if !requested.contains(&offered) {
        s.insert(DATA_REPRESENTATION_QOS_POLICY_ID);
    }
    s
}

const ALL_POLICIES: [QosPolicyId; 9] = [
    DURABILITY_QOS_POLICY_ID,
    PRESENTATION_QOS_POLICY_ID,
    DEADLINE_QOS_POLICY_ID,
    LATENCYBUDGET_QOS_POLICY_ID,
    OWNERSHIP_QOS_POLICY_ID,
    LIVELINESS_QOS_POLICY_ID,
    RELIABILITY_QOS_POLICY_ID,
    DESTINATIONORDER_QOS_POLICY_ID,
    DATA_REPRESENTATION_QOS_POLICY_ID,
];

/// File a violation; the (expensive) witness is only built for the first three per signature.
pub fn viol(rep: &mut Report, sig: String, what: impl FnOnce() -> String, replay: impl FnOnce() -> Json) {
    if rep.violation_counts.get(&sig).copied().unwrap_or(0) >= 3 {
        *rep.violation_counts.get_mut(&sig).unwrap() += 1;
    } else {
        rep.violation(sig, what(), replay());
    }
}

// ------------------------------------------------------------------------------------------
// (a) direct differential

struct DummyReader(Vec<CacheChange>);
impl RtpsReader for DummyReader {
    fn changes_mut(&mut self) -> &mut Vec<CacheChange> {
        &mut self.0
    }
}

pub const SUBDOMAIN: u64 = 16 + 4 + 4 + 4 + 144 + 16 + 16 + 64 + 25;

/// Overwrite one policy of (off, req) with the `k`-th element of the enumeration of all
/// sub-domains (every value combination of every single policy). Returns the policy's name.
fn apply_focus(off: &mut Side, req: &mut Side, k: u64) -> &'static str {
    let mut k = k % SUBDOMAIN;
    if k < 16 {
        off.durability = (k / 4) as u8;
        req.durability = (k % 4) as u8;
        return "DURABILITY";
    }
    k -= 16;
    if k < 4 {
        off.reliability = (k / 2) as u8;
        req.reliability = (k % 2) as u8;
        return "RELIABILITY";
    }
    k -= 4;
    if k < 4 {
        off.dest_order = (k / 2) as u8;
        req.dest_order = (k % 2) as u8;
        return "DESTINATIONORDER";
    }
    k -= 4;
    if k < 4 {
        off.ownership = (k / 2) as u8;
        req.ownership = (k % 2) as u8;
        return "OWNERSHIP";
    }
    k -= 4;
    if k < 144 {
        off.live_kind = (k / 48) as u8;
        req.live_kind = ((k / 16) % 3) as u8;
        off.live_lease = ((k / 4) % 4) as u8;
        req.live_lease = (k % 4) as u8;
        return "LIVELINESS";
    }
    k -= 144;
    if k < 16 {
        off.deadline = (k / 4) as u8;
        req.deadline = (k % 4) as u8;
        return "DEADLINE";
    }
    k -= 16;
    if k < 16 {
        off.latency = (k / 4) as u8;
        req.latency = (k % 4) as u8;
        return "LATENCYBUDGET";
    }
    k -= 16;
    if k < 64 {
        off.scope = (k / 32) as u8;
        req.scope = ((k / 16) % 2) as u8;
        off.coherent = (k / 8) % 2 == 1;
        req.coherent = (k / 4) % 2 == 1;
        off.ordered = (k / 2) % 2 == 1;
        req.ordered = k % 2 == 1;
        return "PRESENTATION";
    }
    k -= 64;
    off.repr = (k / 5) as u8;
    req.repr = (k % 5) as u8;
    "DATA_REPRESENTATION"
}

fn key(n: u8) -> BuiltInTopicKey {
    BuiltInTopicKey { value: [n; 16] }
}

fn sub_data(req: &Side) -> SubscriptionBuiltinTopicData {
    SubscriptionBuiltinTopicData::verif_new(
        key(2),
        key(3),
        "T",
        "Ty",
        None,
        req.durability_q(),
        req.deadline_q(),
        req.latency_q(),
        req.liveliness_q(),
        req.reliability_q(),
        req.ownership_q(),
        req.dest_q(),
        UserDataQosPolicy::default(),
        TimeBasedFilterQosPolicy::default(),
        req.presentation_q(),
        PartitionQosPolicy::default(),
        TopicDataQosPolicy::default(),
        GroupDataQosPolicy::default(),
        req.repr_q(),
        TypeConsistencyEnforcementQosPolicy::default(),
    )
}

fn pub_data(off: &Side) -> PublicationBuiltinTopicData {
    PublicationBuiltinTopicData::verif_new(
        key(4),
        key(5),
        "T",
        "Ty",
        None,
        off.durability_q(),
        off.deadline_q(),
        off.latency_q(),
        off.liveliness_q(),
        off.reliability_q(),
        LifespanQosPolicy::default(),
        UserDataQosPolicy::default(),
        off.ownership_q(),
        OwnershipStrengthQosPolicy::default(),
        off.dest_q(),
        off.presentation_q(),
        PartitionQosPolicy::default(),
        TopicDataQosPolicy::default(),
        GroupDataQosPolicy::default(),
        off.repr_q(),
    )
}

pub fn writer_side(off: &Side, req: &Side) -> BTreeSet<QosPolicyId> {
    verif_reader_incompatible_qos(&off.writer_qos(), &sub_data(req), &off.publisher_qos(&[]))
        .into_iter()
        .collect()
}

pub fn reader_side(off: &Side, req: &Side) -> BTreeSet<QosPolicyId> {
    let ent = DataReaderEntity::new(
        InstanceHandle::new([2; 16]),
        req.reader_qos(),
        "T".to_string(),
        DummyReader(Vec::new()),
    );
    verif_writer_incompatible_qos(&ent, &pub_data(off), &req.subscriber_qos(&[]))
        .into_iter()
        .collect()
}

fn direct_case(shard: &Shard, rep: &mut Report, case: u64, trace: bool) {
    let cs = vcore::mix(shard.case_seed(case), 0xd1);
    let mut rng = Rng::new(cs);
    // a third of the cases: fully random; the rest: one policy's sub-domain enumerated by the
    // case number with the other policies random
    let mut off = Side::random(&mut rng, 5);
    let mut req = Side::random(&mut rng, 5);
    let focus = if case % 3 == 2 {
        "random"
    } else {
        // compatible-ish context half of the time so that single-policy verdicts decide the match
        if rng.bool() {
            off = req.clone();
        }
        apply_focus(&mut off, &mut req, case - case / 3)
    };
    let exp = rxo(&off, &req);
    let w = writer_side(&off, &req);
    let r = reader_side(&off, &req);
    rep.eval();
    rep.stat("direct_cases", 1);
    if exp.is_empty() {
        rep.stat("direct_compatible", 1);
    } else {
        rep.stat("direct_incompatible", 1);
    }
    if trace {
        eprintln!("direct {case}: focus={focus} exp={exp:?} w={w:?} r={r:?}");
    }
    let mut mask = 0u64;
    for (i, p) in ALL_POLICIES.iter().enumerate() {
        if exp.contains(p) {
            mask |= 1 << i;
            rep.set("policies_incompatible(oracle)", policy_name(*p));
        }
    }
    let set_mask = |s: &BTreeSet<QosPolicyId>| -> u64 {
        ALL_POLICIES.iter().enumerate().filter(|(_, p)| s.contains(p)).map(|(i, _)| 1u64 << i).sum()
    };
    // distinct = (which sub-domain element was enumerated, oracle verdict set, both observed sets)
    let focus_k = if focus == "random" { u64::MAX } else { (case - case / 3) % SUBDOMAIN };
    rep.nontrivial(vcore::mix(vcore::mix(focus_k, mask), set_mask(&w) << 16 | set_mask(&r)));
    let replay = || {
        shard
            .base_replay("c15/direct", case)
            .set("engine", "scen_disc")
            .set("offered", off.to_json())
            .set("requested", req.to_json())
            .set("oracle", exp.iter().map(|p| Json::Str(policy_name(*p))).collect::<Vec<_>>())
            .set("writer_side", w.iter().map(|p| Json::Str(policy_name(*p))).collect::<Vec<_>>())
            .set("reader_side", r.iter().map(|p| Json::Str(policy_name(*p))).collect::<Vec<_>>())
    };
    for (side, got) in [("writer", &w), ("reader", &r)] {
        for p in got.iter().chain(exp.iter()).collect::<BTreeSet<_>>() {
            let e = exp.contains(p);
            let g = got.contains(p);
            if e == g {
                continue;
            }
            let dir = if e { "false_match" } else { "false_mismatch" };
            viol(
                rep,
                format!("policy={}|{}|side={}", policy_name(*p), dir, side),
                || {
                    format!(
                        "{}-side RxO evaluation: {} is {} per DDS 1.4 table but dust-dds {} it (offered {} / requested {})",
                        side,
                        policy_name(*p),
                        if e { "incompatible" } else { "compatible" },
                        if g { "lists" } else { "does not list" },
                        policy_value(&off, *p),
                        policy_value(&req, *p)
                    )
                },
                || replay().set("policy", policy_name(*p)).set("side", side),
            );
        }
    }
    if rep.samples.len() < 2 {
        rep.sample(replay().set("kind", "direct").set("focus", focus));
    }
}

fn policy_value(s: &Side, p: QosPolicyId) -> String {
    let j = s.to_json();
    let k = match p {
        DURABILITY_QOS_POLICY_ID => "durability",
        PRESENTATION_QOS_POLICY_ID => "presentation",
        DEADLINE_QOS_POLICY_ID => "deadline",
        LATENCYBUDGET_QOS_POLICY_ID => "latency_budget",
        OWNERSHIP_QOS_POLICY_ID => "ownership",
        LIVELINESS_QOS_POLICY_ID => "liveliness",
        RELIABILITY_QOS_POLICY_ID => "reliability",
        DESTINATIONORDER_QOS_POLICY_ID => "destination_order",
        _ => "representation",
    };
    j.get(k).and_then(|v| v.as_str()).unwrap_or("?").to_string()
}

// ------------------------------------------------------------------------------------------
// (b) end to end

#[derive(Debug, Clone, PartialEq, DdsType)]
pub struct TA {
    #[dust_dds(key)]
    pub id: u32,
    pub v: u32,
}
/// Not assignable from/to TA (different member count, names and kinds).
#[derive(Debug, Clone, PartialEq, DdsType)]
pub struct TB {
    pub name: String,
    pub x: f64,
    pub y: u8,
}

#[derive(Clone, Debug)]
struct PairSpec {
    off: Side,
    req: Side,
    wpart: Vec<String>,
    rpart: Vec<String>,
    topic_differs: bool,
    /// 0 same type same name; 1 same type, different registered names; 2 different type and
    /// name; 3 different type, same name
    type_mode: u8,
    focus: String,
    reader_first: bool,
}

impl PairSpec {
    fn to_json(&self) -> Json {
        Json::obj()
            .set("focus", self.focus.clone())
            .set("offered", self.off.to_json())
            .set("requested", self.req.to_json())
            .set("publisher_partition", self.wpart.clone())
            .set("subscriber_partition", self.rpart.clone())
            .set("topic_differs", self.topic_differs)
            .set(
                "type",
                ["same", "same_type_different_type_name", "different_type_and_name", "different_type_same_name"]
                    [self.type_mode as usize],
            )
            .set("reader_created_first", self.reader_first)
    }
}

const PLAIN_NAMES: [&str; 10] = ["", "a", "b", "ab", "abc", "aa", "d", "a+", "a.b", "A"];
const PATTERNS: [&str; 11] = [
    "*", "?", "a*", "*b", "a?c", "[a-c]", "[!a]", "[abc]b", "??", "a[!b]c", "[[:alpha:]]",
];

fn gen_partition(rng: &mut Rng, allow_pattern: bool) -> Vec<String> {
    let n = match rng.below(10) {
        0..=2 => 0,
        3..=7 => 1,
        _ => 2,
    };
    let mut v = Vec::new();
    for _ in 0..n {
        if allow_pattern && rng.chance(0.45) {
            v.push(rng.pick(&PATTERNS).to_string());
        } else {
            v.push(rng.pick(&PLAIN_NAMES).to_string());
        }
    }
    v
}

/// A random configuration that is compatible per the oracle.
fn gen_compatible(rng: &mut Rng) -> (Side, Side) {
    loop {
        let req = Side::random(rng, 5);
        let mut off = Side::random(rng, 3);
        // repair policy by policy
        if off.durability < req.durability {
            off.durability = req.durability;
        }
        if off.reliability < req.reliability {
            off.reliability = req.reliability;
        }
        if off.dest_order < req.dest_order {
            off.dest_order = req.dest_order;
        }
        off.ownership = req.ownership;
        if off.live_kind < req.live_kind {
            off.live_kind = req.live_kind;
        }
        if off.live_lease > req.live_lease {
            off.live_lease = req.live_lease;
        }
        if off.deadline > req.deadline {
            off.deadline = req.deadline;
        }
        if off.latency > req.latency {
            off.latency = req.latency;
        }
        if off.scope < req.scope {
            off.scope = req.scope;
        }
        if req.coherent {
            off.coherent = true;
        }
        if req.ordered {
            off.ordered = true;
        }
        if rxo(&off, &req).is_empty() {
            return (off, req);
        }
        // only the representation can still be incompatible: retry
    }
}

fn gen_pair(rng: &mut Rng) -> PairSpec {
    let (mut off, mut req) = gen_compatible(rng);
    // plain defaults now and then (what the repository's own tests use)
    if rng.chance(0.1) {
        off = Side {
            durability: 0,
            reliability: 1,
            dest_order: 0,
            ownership: 0,
            live_kind: 0,
            live_lease: 3,
            deadline: 3,
            latency: 0,
            scope: 0,
            coherent: false,
            ordered: false,
            repr: 0,
        };
        req = off.clone();
        req.reliability = 0;
        req.latency = 3;
    }
    let mut spec = PairSpec {
        off,
        req,
        wpart: Vec::new(),
        rpart: Vec::new(),
        topic_differs: false,
        type_mode: 0,
        focus: "compatible".into(),
        reader_first: rng.bool(),
    };
    // equal literal partitions on a few otherwise untouched pairs
    if rng.chance(0.2) {
        let n = rng.pick(&["a", "b", "abc"]).to_string();
        spec.wpart = vec![n.clone()];
        spec.rpart = vec![n];
    }
    match rng.below(100) {
        0..=14 => {}
        15..=54 => {
            // one policy fully random on both sides
            let k = rng.below(SUBDOMAIN);
            let mut o2 = spec.off.clone();
            let mut r2 = spec.req.clone();
            let name = apply_focus(&mut o2, &mut r2, k);
            if o2.repr > 2 {
                o2.repr = rng.below(3) as u8; // a writer may hold at most one representation
            }
            spec.off = o2;
            spec.req = r2;
            spec.focus = format!("policy:{name}");
        }
        55..=79 => {
            if rng.chance(0.35) {
                // boundary pairs of the DDS partition rule
                const CURATED: [(&[&str], &[&str]); 16] = [
                    (&[], &[""]),
                    (&[], &["*"]),
                    (&[], &["?"]),
                    (&[], &["a"]),
                    (&["a+"], &["aa"]),
                    (&["a+"], &["a+"]),
                    (&["a*"], &["abc"]),
                    (&["[a-c]"], &["b"]),
                    (&["[!a]"], &["a"]),
                    (&["[!a]"], &["b"]),
                    (&["a?c"], &["abc"]),
                    (&["a.b"], &["axb"]),
                    (&["*"], &["*"]),
                    (&["a"], &["b", "a"]),
                    (&["[[:alpha:]]"], &["a"]),
                    (&["??"], &["a"]),
                ];
                let (a, b) = *rng.pick(&CURATED);
                let a: Vec<String> = a.iter().map(|x| x.to_string()).collect();
                let b: Vec<String> = b.iter().map(|x| x.to_string()).collect();
                if rng.bool() {
                    spec.wpart = a;
                    spec.rpart = b;
                } else {
                    spec.wpart = b;
                    spec.rpart = a;
                }
            } else {
                spec.wpart = gen_partition(rng, true);
                spec.rpart = gen_partition(rng, true);
            }
            spec.focus = "partition".into();
        }
        80..=84 => {
            spec.topic_differs = true;
            spec.focus = "topic".into();
        }
        85..=92 => {
            spec.type_mode = 1 + rng.below(3) as u8;
            spec.focus = "type".into();
        }
        _ => {
            spec.off = Side::random(rng, 3);
            spec.req = Side::random(rng, 5);
            if rng.bool() {
                spec.wpart = gen_partition(rng, true);
                spec.rpart = gen_partition(rng, true);
            }
            spec.focus = "multi".into();
        }
    }
    spec
}

#[derive(Default)]
struct CapInner {
    off: Option<OfferedIncompatibleQosStatus>,
    req: Option<RequestedIncompatibleQosStatus>,
    calls: u32,
}
#[derive(Clone, Default)]
struct Cap(Arc<Mutex<CapInner>>);

struct WL(Cap);
impl<Foo: 'static> DataWriterListener<Foo> for WL {
    fn on_offered_incompatible_qos(
        &mut self,
        _the_writer: DataWriterAsync<Foo>,
        status: OfferedIncompatibleQosStatus,
    ) -> impl Future<Output = ()> + Send {
        let mut g = self.0.0.lock().unwrap();
        g.off = Some(status);
        g.calls += 1;
        core::future::ready(())
    }
}
struct RL(Cap);
impl<Foo: 'static> DataReaderListener<Foo> for RL {
    fn on_requested_incompatible_qos(
        &mut self,
        _the_reader: DataReaderAsync<Foo>,
        status: RequestedIncompatibleQosStatus,
    ) -> impl Future<Output = ()> + Send {
        let mut g = self.0.0.lock().unwrap();
        g.req = Some(status);
        g.calls += 1;
        core::future::ready(())
    }
}

enum AnyReader {
    A(DataReaderAsync<TA>),
    B(DataReaderAsync<TB>),
}
impl AnyReader {
    async fn matched(&self) -> Option<Vec<InstanceHandle>> {
        match self {
            AnyReader::A(r) => r.get_matched_publications().await.ok(),
            AnyReader::B(r) => r.get_matched_publications().await.ok(),
        }
    }
    async fn count(&self) -> Option<i32> {
        match self {
            AnyReader::A(r) => r.get_subscription_matched_status().await.ok().map(|s| s.current_count),
            AnyReader::B(r) => r.get_subscription_matched_status().await.ok().map(|s| s.current_count),
        }
    }
    async fn set_qos(&self, q: DataReaderQos) -> Result<(), String> {
        match self {
            AnyReader::A(r) => r.set_qos(QosKind::Specific(q)).await.map_err(|e| err_name(&e)),
            AnyReader::B(r) => r.set_qos(QosKind::Specific(q)).await.map_err(|e| err_name(&e)),
        }
    }
    fn handle(&self) -> InstanceHandle {
        match self {
            AnyReader::A(r) => r.get_instance_handle(),
            AnyReader::B(r) => r.get_instance_handle(),
        }
    }
}

#[derive(Clone, Debug, Default)]
struct PairObs {
    created: bool,
    create_error: String,
    w_matched: Option<bool>,
    r_matched: Option<bool>,
    w_count: Option<i32>,
    r_count: Option<i32>,
    w_handle_ok: bool,
    r_handle_ok: bool,
    off_status: Option<(i32, QosPolicyId, Vec<(QosPolicyId, i32)>)>,
    req_status: Option<(i32, QosPolicyId, Vec<(QosPolicyId, i32)>)>,
    listener_calls: u32,
}

struct E2eOutcome {
    obs: Vec<PairObs>,
    settled_at_ms: i64,
    stable: bool,
    /// second verdict per pair after the mutable-policy updates: (writer side matched, reader side
    /// matched), None = pair not updated / set_qos failed (error kept in upd_errors) / unreadable
    obs2: Vec<Option<(bool, bool)>>,
    upd_errors: Vec<String>,
    stable2: bool,
}

/// A change of the two mutable RxO policies (DEADLINE, LATENCY_BUDGET) of one endpoint after the
/// first verdict: the pair must be (re)qualified with the new values.
#[derive(Clone, Debug)]
struct Upd {
    on_reader: bool,
    deadline: u8,
    latency: u8,
}

type Lists = Vec<(Option<Vec<InstanceHandle>>, Option<Vec<InstanceHandle>>)>;

/// read the matched lists until two consecutive rounds (1 s apart) agree, at most 30 s (virtual)
async fn settle(sim: &Sim, created: &[bool], writers: &[Option<DataWriterAsync<TA>>], readers: &[Option<AnyReader>]) -> (Lists, bool) {
    let t0 = sim.now();
    let mut prev: Option<Vec<(Option<usize>, Option<usize>)>> = None;
    let mut lists: Lists = Vec::new();
    loop {
        lists.clear();
        for i in 0..created.len() {
            if !created[i] {
                lists.push((None, None));
                continue;
            }
            let wl = writers[i].as_ref().unwrap().get_matched_subscriptions().await.ok();
            let rl = readers[i].as_ref().unwrap().matched().await;
            lists.push((wl, rl));
        }
        let cur: Vec<(Option<usize>, Option<usize>)> = lists
            .iter()
            .map(|(a, b)| (a.as_ref().map(|v| v.len()), b.as_ref().map(|v| v.len())))
            .collect();
        if prev.as_ref() == Some(&cur) {
            return (lists, true);
        }
        prev = Some(cur);
        if sim.now() - t0 > 30 * SEC {
            return (lists, false);
        }
        sim.sleep(SEC).await;
    }
}

fn pol_list(p: &[QosPolicyCount]) -> Vec<(QosPolicyId, i32)> {
    p.iter().map(|c| (c.policy_id, c.count)).collect()
}

async fn e2e_scenario(w: World, specs: Vec<PairSpec>, updates: Vec<Option<Upd>>) -> E2eOutcome {
    let sim = w.sim.clone();
    let p0 = new_participant(&w, 0).await;
    let p1 = new_participant(&w, 0).await;
    let mut writers: Vec<Option<DataWriterAsync<TA>>> = Vec::new();
    let mut readers: Vec<Option<AnyReader>> = Vec::new();
    let mut caps: Vec<(Cap, Cap)> = Vec::new();
    let mut obs: Vec<PairObs> = vec![PairObs::default(); specs.len()];
    let mut keep = Vec::new();
    for (i, s) in specs.iter().enumerate() {
        let wt_name = format!("T{i}");
        let rt_name = if s.topic_differs { format!("T{i}x") } else { wt_name.clone() };
        let (w_type_name, r_type_name) = match s.type_mode {
            0 => ("TA", "TA"),
            1 => ("TA", "TA_alias"),
            2 => ("TA", "TB"),
            _ => ("TA", "TA"),
        };
        let capw = Cap::default();
        let capr = Cap::default();
        let mut dw = None;
        let mut dr = None;
        let mut err = String::new();
        for step in 0..2 {
            let do_reader = (step == 0) == s.reader_first;
            if do_reader {
                let sb = match p1
                    .create_subscriber(QosKind::Specific(s.req.subscriber_qos(&s.rpart)), NO_LISTENER, NO_STATUS)
                    .await
                {
                    Ok(x) => x,
                    Err(e) => {
                        err = format!("create_subscriber:{}", err_name(&e));
                        break;
                    }
                };
                let r = if s.type_mode >= 2 {
                    let t = new_topic::<TB>(&p1, &rt_name, r_type_name).await;
                    let r = sb
                        .create_datareader::<TB>(
                            &t,
                            QosKind::Specific(s.req.reader_qos()),
                            Some(RL(capr.clone())),
                            &[StatusKind::RequestedIncompatibleQos],
                        )
                        .await;
                    keep.push(t);
                    r.map(AnyReader::B)
                } else {
                    let t = new_topic::<TA>(&p1, &rt_name, r_type_name).await;
                    let r = sb
                        .create_datareader::<TA>(
                            &t,
                            QosKind::Specific(s.req.reader_qos()),
                            Some(RL(capr.clone())),
                            &[StatusKind::RequestedIncompatibleQos],
                        )
                        .await;
                    keep.push(t);
                    r.map(AnyReader::A)
                };
                match r {
                    Ok(r) => dr = Some(r),
                    Err(e) => {
                        err = format!("create_datareader:{}", err_name(&e));
                        break;
                    }
                }
            } else {
                let pb = match p0
                    .create_publisher(QosKind::Specific(s.off.publisher_qos(&s.wpart)), NO_LISTENER, NO_STATUS)
                    .await
                {
                    Ok(x) => x,
                    Err(e) => {
                        err = format!("create_publisher:{}", err_name(&e));
                        break;
                    }
                };
                let t = new_topic::<TA>(&p0, &wt_name, w_type_name).await;
                let r = pb
                    .create_datawriter::<TA>(
                        &t,
                        QosKind::Specific(s.off.writer_qos()),
                        Some(WL(capw.clone())),
                        &[StatusKind::OfferedIncompatibleQos],
                    )
                    .await;
                keep.push(t);
                match r {
                    Ok(x) => dw = Some(x),
                    Err(e) => {
                        err = format!("create_datawriter:{}", err_name(&e));
                        break;
                    }
                }
            }
        }
        obs[i].created = dw.is_some() && dr.is_some();
        obs[i].create_error = err;
        writers.push(dw);
        readers.push(dr);
        caps.push((capw, capr));
    }
    // settle: read the matched lists until two consecutive rounds (1 s apart) agree, at least
    // 2 s after the last creation, at most 30 s (virtual)
    let t0 = sim.now();
    sim.sleep(2 * SEC).await;
    let created: Vec<bool> = obs.iter().map(|o| o.created).collect();
    let (lists, stable) = settle(&sim, &created, &writers, &readers).await;
    let settled_at_ms = (sim.now() - t0) / MS;
    for i in 0..specs.len() {
        if !obs[i].created {
            continue;
        }
        let dw = writers[i].as_ref().unwrap();
        let dr = readers[i].as_ref().unwrap();
        let (wl, rl) = &lists[i];
        obs[i].w_matched = wl.as_ref().map(|v| !v.is_empty());
        obs[i].r_matched = rl.as_ref().map(|v| !v.is_empty());
        obs[i].w_handle_ok = wl.as_ref().map(|v| v.iter().all(|h| *h == dr.handle())).unwrap_or(true);
        obs[i].r_handle_ok = rl
            .as_ref()
            .map(|v| v.iter().all(|h| *h == dw.get_instance_handle()))
            .unwrap_or(true);
        obs[i].w_count = dw.get_publication_matched_status().await.ok().map(|s| s.current_count);
        obs[i].r_count = dr.count().await;
        let gw = caps[i].0.0.lock().unwrap();
        let gr = caps[i].1.0.lock().unwrap();
        obs[i].off_status = gw.off.as_ref().map(|s| (s.total_count, s.last_policy_id, pol_list(&s.policies)));
        obs[i].req_status = gr.req.as_ref().map(|s| (s.total_count, s.last_policy_id, pol_list(&s.policies)));
        obs[i].listener_calls = gw.calls + gr.calls;
    }
    // second phase: change DEADLINE / LATENCY_BUDGET (both changeable on enabled entities) of one
    // endpoint of some pairs and let discovery re-qualify the pair
    let mut obs2: Vec<Option<(bool, bool)>> = vec![None; specs.len()];
    let mut upd_errors = Vec::new();
    let mut stable2 = true;
    if stable && updates.iter().any(|u| u.is_some()) {
        let mut applied = vec![false; specs.len()];
        for (i, u) in updates.iter().enumerate() {
            let Some(u) = u else { continue };
            if !obs[i].created {
                continue;
            }
            let r = if u.on_reader {
                let mut side = specs[i].req.clone();
                side.deadline = u.deadline;
                side.latency = u.latency;
                readers[i].as_ref().unwrap().set_qos(side.reader_qos()).await
            } else {
                let mut side = specs[i].off.clone();
                side.deadline = u.deadline;
                side.latency = u.latency;
                writers[i].as_ref().unwrap().set_qos(QosKind::Specific(side.writer_qos())).await.map_err(|e| err_name(&e))
            };
            match r {
                Ok(()) => applied[i] = true,
                Err(e) => upd_errors.push(format!("pair {i}: set_qos on the {} failed with {e}", if u.on_reader { "reader" } else { "writer" })),
            }
        }
        sim.sleep(2 * SEC).await;
        let (lists2, st2) = settle(&sim, &created, &writers, &readers).await;
        stable2 = st2;
        for i in 0..specs.len() {
            if applied[i] {
                if let (Some(wl), Some(rl)) = (&lists2[i].0, &lists2[i].1) {
                    obs2[i] = Some((!wl.is_empty(), !rl.is_empty()));
                }
            }
        }
    }
    drop(keep);
    let _ = (&p0, &p1);
    E2eOutcome {
        obs,
        settled_at_ms,
        stable,
        obs2,
        upd_errors,
        stable2,
    }
}

fn partition_class_mismatch(wp: &[String], rp: &[String], pair: &(String, String)) -> String {
    let (a, b) = pair;
    if wp.is_empty() || rp.is_empty() {
        let other = if wp.is_empty() && rp.is_empty() {
            "empty_list"
        } else {
            let o = if wp.is_empty() { b } else { a };
            if fnm::has_wildcard(o) {
                "pattern"
            } else if o.is_empty() {
                "empty_string"
            } else {
                "literal"
            }
        };
        return format!("empty_list_is_default_partition_vs_{other}");
    }
    match (fnm::has_wildcard(a), fnm::has_wildcard(b)) {
        (false, false) => "literal_equal".into(),
        (true, _) => format!("publisher_pattern:{}", fnm::pattern_feature(a)),
        (_, true) => format!("subscriber_pattern:{}", fnm::pattern_feature(b)),
    }
}

fn partition_class_match(wp: &[String], rp: &[String]) -> String {
    if wp.iter().chain(rp.iter()).any(|n| n.contains('+')) {
        "plus_is_an_ordinary_character".into()
    } else {
        "other".into()
    }
}

fn status_json(s: &Option<(i32, QosPolicyId, Vec<(QosPolicyId, i32)>)>) -> Json {
    match s {
        None => Json::Null,
        Some((t, l, p)) => Json::obj()
            .set("total_count", *t)
            .set("last_policy_id", policy_name(*l))
            .set(
                "policies",
                p.iter().map(|(id, c)| Json::Str(format!("{}:{}", policy_name(*id), c))).collect::<Vec<_>>(),
            ),
    }
}

fn e2e_case(shard: &Shard, rep: &mut Report, case: u64, trace: bool, only_pair: Option<usize>) {
    let cs = vcore::mix(shard.case_seed(case), 0xe2);
    let mut rng = Rng::new(cs);
    let thorough = shard.tier == "thorough";
    let n_pairs = shard.args.u64("pairs", 0) as usize;
    let n_pairs = if n_pairs > 0 { n_pairs } else if thorough { 4 + rng.usize(9) } else { 3 + rng.usize(4) };
    let specs: Vec<PairSpec> = (0..n_pairs).map(|_| gen_pair(&mut rng)).collect();
    let mut cfg = WorldConfig::default();
    cfg.sim.seed = cs;
    cfg.sim.policy = pick_policy(&mut rng);
    cfg.sim.clock_tick = *rng.pick(&[0i64, 0, 1, 1000]);
    cfg.sim.jitter_max = *rng.pick(&[0i64, 0, 1000, 1_000_000]);
    cfg.sim.max_polls = shard.args.u64("max-polls", 20_000_000);
    let specs2 = specs.clone();
    // drawn from a separate stream so that the pairs of a case do not depend on it
    let mut urng = Rng::new(vcore::mix(cs, 0x0bd));
    let updates: Vec<Option<Upd>> = specs
        .iter()
        .map(|s| {
            let u = Upd { on_reader: urng.bool(), deadline: urng.below(4) as u8, latency: urng.below(4) as u8 };
            let changes = if u.on_reader { (u.deadline, u.latency) != (s.req.deadline, s.req.latency) } else { (u.deadline, u.latency) != (s.off.deadline, s.off.latency) };
            if urng.chance(0.4) && s.type_mode == 0 && !s.topic_differs && changes && shard.args.u64("no-updates", 0) == 0 { Some(u) } else { None }
        })
        .collect();
    let updates2 = updates.clone();
    let t_wall = std::time::Instant::now();
    let (res, stats, net) = run_world(&cfg, move |w| e2e_scenario(w, specs2, updates2));
    if trace {
        eprintln!(
            "  world: wall={:?} polls={} worker_polls={} end={}ms counters={:?}",
            t_wall.elapsed(),
            stats.polls,
            stats.worker_polls,
            (stats.end_ns - EPOCH_NS) / MS,
            net.counters()
        );
    }
    rep.stat("e2e_worker_polls", stats.worker_polls as i128);
    rep.stat("e2e_datagrams", net.counters().submitted as i128);
    rep.eval();
    rep.stat("e2e_worlds", 1);
    let base = shard.base_replay("c15/e2e", case).set("engine", "scen_disc");
    let panicked = report_panics(rep, &stats, &base);
    let Some(o) = res else {
        if !panicked {
            rep.inconclusive(format!("e2e case {case}: scenario did not finish ({:?})", stats.stop));
        }
        return;
    };
    rep.maxstat("e2e_max_settle_ms", o.settled_at_ms as i128);
    if !o.stable {
        rep.stat("e2e_worlds_not_stable_within_30s(no verdict)", 1);
        return;
    }
    for e in &o.upd_errors {
        // DEADLINE and LATENCY_BUDGET are changeable; a refusal belongs to C37, here it only
        // removes the pair from the second verdict
        rep.stat("e2e_update_set_qos_refused(no verdict, see C37)", 1);
        rep.set("e2e_update_errors", e.split(" failed with ").nth(1).unwrap_or("?").to_string());
    }
    if !o.stable2 {
        rep.stat("e2e_worlds_not_stable_after_update_within_30s(no second verdict)", 1);
    }
    for (i, s) in specs.iter().enumerate() {
        let (Some(u), Some((wm2, rm2)), true) = (&updates[i], o.obs2[i], o.stable2) else { continue };
        if let Some(p) = only_pair {
            if p != i {
                continue;
            }
        }
        let mut s2 = s.clone();
        if u.on_reader {
            s2.req.deadline = u.deadline;
            s2.req.latency = u.latency;
        } else {
            s2.off.deadline = u.deadline;
            s2.off.latency = u.latency;
        }
        let qos1 = rxo(&s.off, &s.req);
        let qos2 = rxo(&s2.off, &s2.req);
        let (part, _) = fnm::partition_verdict(&s.wpart, &s.rpart);
        if part == Tri::Unknown {
            continue;
        }
        let exp1 = part == Tri::Yes && qos1.is_empty();
        // a pair whose FIRST verdict was already wrong is reported there (with its own class);
        // the second verdict is about what the update changes
        if o.obs[i].w_matched != Some(exp1) || o.obs[i].r_matched != Some(exp1) {
            rep.stat("e2e_pairs_skipped_after_update(first verdict already wrong)", 1);
            continue;
        }
        let exp2 = part == Tri::Yes && qos2.is_empty();
        rep.stat("e2e_pairs_checked_after_update", 1);
        let transition = format!("{}_to_{}", if exp1 { "match" } else { "no_match" }, if exp2 { "match" } else { "no_match" });
        rep.stat(&format!("e2e_update_{transition}"), 1);
        rep.nontrivial(vcore::mix(vcore::fnv_str(&s2.to_json().to_string()), 0x0bd0 | (wm2 as u64) | (rm2 as u64) << 1 | (exp1 as u64) << 2));
        for (side, matched) in [("writer", wm2), ("reader", rm2)] {
            if matched == exp2 {
                continue;
            }
            let kind = if exp2 { "false_mismatch" } else { "false_match" };
            let pols: Vec<String> = if exp2 { qos1.iter().map(|p| policy_name(*p)).collect() } else { qos2.iter().map(|p| policy_name(*p)).collect() };
            let pol = if part != Tri::Yes { "partition".to_string() } else { pols.first().cloned().unwrap_or_else(|| "none".into()) };
            rep.violation(
                format!("after_update|policy={pol}|{kind}|side={side}|transition={transition}"),
                format!(
                    "after set_qos on the {} (deadline {} -> {}, latency_budget {} -> {}) the pair is {} per DDS 1.4 (incompatible policies now: {:?}, before: {:?}) but the {side} side reports matched={matched}",
                    if u.on_reader { "reader" } else { "writer" },
                    DUR_NAMES[if u.on_reader { s.req.deadline } else { s.off.deadline } as usize],
                    DUR_NAMES[u.deadline as usize],
                    DUR_NAMES[if u.on_reader { s.req.latency } else { s.off.latency } as usize],
                    DUR_NAMES[u.latency as usize],
                    if exp2 { "compatible" } else { "incompatible" },
                    qos2.iter().map(|p| policy_name(*p)).collect::<Vec<_>>(),
                    qos1.iter().map(|p| policy_name(*p)).collect::<Vec<_>>(),
                ),
                base.clone()
                    .set("pair", i)
                    .set("pairs_in_world", n_pairs)
                    .set("spec", s.to_json())
                    .set("update", Json::obj().set("on", if u.on_reader { "reader" } else { "writer" }).set("deadline", DUR_NAMES[u.deadline as usize]).set("latency_budget", DUR_NAMES[u.latency as usize]))
                    .set("side", side),
            );
        }
    }
    for (i, (s, ob)) in specs.iter().zip(o.obs.iter()).enumerate() {
        if let Some(p) = only_pair {
            if p != i {
                continue;
            }
        }
        if !ob.created {
            rep.stat("e2e_pairs_not_created", 1);
            rep.set("e2e_create_errors", ob.create_error.clone());
            continue;
        }
        let (Some(wm), Some(rm)) = (ob.w_matched, ob.r_matched) else {
            rep.stat("e2e_pairs_unreadable", 1);
            continue;
        };
        rep.stat("e2e_pairs_checked", 1);
        let qos = rxo(&s.off, &s.req);
        let (part, deciding) = fnm::partition_verdict(&s.wpart, &s.rpart);
        let type_v = match s.type_mode {
            0 => Tri::Yes,
            2 => Tri::No,
            _ => Tri::Unknown,
        };
        let definite_no = s.topic_differs || type_v == Tri::No || part == Tri::No || !qos.is_empty();
        let unknown = type_v == Tri::Unknown || part == Tri::Unknown;
        let expected = if definite_no {
            Tri::No
        } else if unknown {
            Tri::Unknown
        } else {
            Tri::Yes
        };
        if trace {
            eprintln!(
                "  pair {i}: focus={} exp={:?} qos={:?} part={:?} w={} r={} off={:?} req={:?}  {}",
                s.focus,
                expected,
                qos.iter().map(|p| policy_name(*p)).collect::<Vec<_>>(),
                part,
                wm,
                rm,
                ob.off_status,
                ob.req_status,
                s.to_json().to_string()
            );
        }
        match expected {
            Tri::Yes => rep.stat("e2e_expected_match", 1),
            Tri::No => rep.stat("e2e_expected_no_match", 1),
            Tri::Unknown => rep.stat("e2e_expected_unspecified(only agreement demanded)", 1),
        }
        if wm {
            rep.stat("e2e_writer_side_matched", 1);
        }
        if rm {
            rep.stat("e2e_reader_side_matched", 1);
        }
        if ob.w_count.map(|c| (c > 0) != wm).unwrap_or(false) || ob.r_count.map(|c| (c > 0) != rm).unwrap_or(false) {
            rep.stat("e2e_current_count_disagrees_with_matched_list(see C16)", 1);
        }
        if !ob.w_handle_ok || !ob.r_handle_ok {
            rep.stat("e2e_matched_handle_differs_from_partner_handle", 1);
        }
        rep.set("e2e_focus", s.focus.clone());
        for p in &qos {
            rep.set("policies_incompatible(oracle)", policy_name(*p));
        }
        let h = vcore::mix(
            vcore::fnv_str(&s.to_json().to_string()),
            (wm as u64) | (rm as u64) << 1 | (ob.off_status.is_some() as u64) << 2 | (ob.req_status.is_some() as u64) << 3,
        );
        rep.nontrivial(h);
        let replay = || {
            base.clone()
                .set("pair", i)
                .set("pairs_in_world", n_pairs)
                .set("spec", s.to_json())
                .set("oracle_qos_incompatible", qos.iter().map(|p| Json::Str(policy_name(*p))).collect::<Vec<_>>())
                .set("oracle_partition", format!("{:?}", part))
                .set("oracle_expected_match", format!("{:?}", expected))
                .set("writer_side_matched", wm)
                .set("reader_side_matched", rm)
                .set("offered_incompatible_qos", status_json(&ob.off_status))
                .set("requested_incompatible_qos", status_json(&ob.req_status))
        };
        if rep.samples.len() < 4 && (i == 0 || i == 1) && case < 16 {
            rep.sample(replay().set("kind", "e2e"));
        }
        let sides: [(&str, bool, &Option<(i32, QosPolicyId, Vec<(QosPolicyId, i32)>)>); 2] =
            [("writer", wm, &ob.off_status), ("reader", rm, &ob.req_status)];
        match expected {
            Tri::Yes => {
                for (side, matched, st) in sides {
                    if matched {
                        continue;
                    }
                    // attribute: the policies the side itself reports as incompatible, else the
                    // partition (if not trivially equal), else unexplained
                    let named: Vec<QosPolicyId> =
                        st.as_ref().map(|s| s.2.iter().map(|x| x.0).collect()).unwrap_or_default();
                    if !named.is_empty() {
                        for p in named {
                            rep.violation(
                                format!("policy={}|false_mismatch|side={}", policy_name(p), side),
                                format!(
                                    "compatible pair (topic, type, partition, all RxO policies) not matched on the {side} side after {} ms; the {side} reports {} incompatible (offered {} / requested {})",
                                    o.settled_at_ms,
                                    policy_name(p),
                                    policy_value(&s.off, p),
                                    policy_value(&s.req, p)
                                ),
                                replay().set("side", side).set("policy", policy_name(p)),
                            );
                        }
                    } else if s.wpart != s.rpart || s.wpart.iter().any(|n| fnm::has_wildcard(n)) {
                        let class = partition_class_mismatch(&s.wpart, &s.rpart, deciding.as_ref().unwrap());
                        rep.violation(
                            format!("partition|false_mismatch|class={class}"),
                            format!(
                                "publisher partition {:?} and subscriber partition {:?} match per DDS (name {:?} ~ {:?}) but the {side} side did not match",
                                s.wpart,
                                s.rpart,
                                deciding.as_ref().unwrap().0,
                                deciding.as_ref().unwrap().1
                            ),
                            replay().set("side", side).set("class", class),
                        );
                    } else {
                        rep.violation(
                            format!("policy=none|false_mismatch|side={side}"),
                            format!(
                                "compatible pair not matched on the {side} side after {} ms and no incompatible QoS reported",
                                o.settled_at_ms
                            ),
                            replay().set("side", side),
                        );
                    }
                }
            }
            Tri::No => {
                for (side, matched, _st) in sides {
                    if !matched {
                        continue;
                    }
                    if s.topic_differs {
                        rep.violation(
                            format!("policy=topic_name|false_match|side={side}"),
                            format!("{side} side matched an endpoint of a different topic"),
                            replay().set("side", side),
                        );
                    }
                    if type_v == Tri::No {
                        rep.violation(
                            format!("policy=type|false_match|side={side}"),
                            format!("{side} side matched an endpoint with a different type name and an unassignable type"),
                            replay().set("side", side),
                        );
                    }
                    if part == Tri::No {
                        let class = partition_class_match(&s.wpart, &s.rpart);
                        rep.violation(
                            format!("partition|false_match|class={class}"),
                            format!(
                                "publisher partition {:?} and subscriber partition {:?} do not match per DDS/POSIX fnmatch but the {side} side matched",
                                s.wpart, s.rpart
                            ),
                            replay().set("side", side).set("class", class),
                        );
                    }
                    for p in &qos {
                        rep.violation(
                            format!("policy={}|false_match|side={}", policy_name(*p), side),
                            format!(
                                "{side} side matched although {} is incompatible per DDS 1.4 (offered {} / requested {})",
                                policy_name(*p),
                                policy_value(&s.off, *p),
                                policy_value(&s.req, *p)
                            ),
                            replay().set("side", side).set("policy", policy_name(*p)),
                        );
                    }
                }
                // incompatible QoS report: only where nothing else keeps the pair apart
                // (and the partition lists are identical literals, so that a partition verdict
                // cannot be what suppressed the QoS evaluation)
                let trivial_partition = s.wpart == s.rpart && !s.wpart.iter().any(|n| fnm::has_wildcard(n));
                let only_qos =
                    !s.topic_differs && type_v == Tri::Yes && part == Tri::Yes && trivial_partition && !qos.is_empty();
                if only_qos {
                    rep.stat("e2e_pairs_incompatible_by_qos_only", 1);
                    for (side, matched, st) in sides {
                        if matched {
                            continue; // already reported as false_match
                        }
                        match st {
                            None => {
                                for p in &qos {
                                    rep.violation(
                                        format!("incompatible_status|missing|policy={}|side={}", policy_name(*p), side),
                                        format!(
                                            "{side}: pair incompatible by {} only, but no {} incompatible QoS status was ever delivered",
                                            policy_name(*p),
                                            if side == "writer" { "offered" } else { "requested" }
                                        ),
                                        replay().set("side", side),
                                    );
                                }
                            }
                            Some((total, last, policies)) => {
                                rep.stat("e2e_incompatible_status_checked", 1);
                                if *total <= 0 {
                                    rep.violation(
                                        format!("incompatible_status|missing|policy=total_count_zero|side={side}"),
                                        format!("{side}: incompatible QoS status delivered with total_count {total}"),
                                        replay().set("side", side),
                                    );
                                }
                                let named: BTreeSet<QosPolicyId> =
                                    policies.iter().filter(|x| x.1 > 0).map(|x| x.0).collect();
                                for p in &qos {
                                    if !named.contains(p) {
                                        rep.violation(
                                            format!(
                                                "incompatible_status|wrong_policy|policy={}|not_named|side={}",
                                                policy_name(*p),
                                                side
                                            ),
                                            format!(
                                                "{side}: offending policy {} (offered {} / requested {}) is not named in `policies` {:?}",
                                                policy_name(*p),
                                                policy_value(&s.off, *p),
                                                policy_value(&s.req, *p),
                                                named.iter().map(|x| policy_name(*x)).collect::<Vec<_>>()
                                            ),
                                            replay().set("side", side),
                                        );
                                    }
                                }
                                for p in &named {
                                    if !qos.contains(p) {
                                        rep.violation(
                                            format!(
                                                "incompatible_status|wrong_policy|policy={}|named_but_compatible|side={}",
                                                policy_name(*p),
                                                side
                                            ),
                                            format!(
                                                "{side}: `policies` names {} which is compatible per DDS 1.4 (offered {} / requested {})",
                                                policy_name(*p),
                                                policy_value(&s.off, *p),
                                                policy_value(&s.req, *p)
                                            ),
                                            replay().set("side", side),
                                        );
                                    }
                                }
                                if !qos.contains(last) && !named.iter().any(|p| !qos.contains(p)) {
                                    rep.violation(
                                        format!("incompatible_status|wrong_policy|policy=last_policy_id|side={side}"),
                                        format!(
                                            "{side}: last_policy_id {} is not one of the offending policies",
                                            policy_name(*last)
                                        ),
                                        replay().set("side", side),
                                    );
                                }
                            }
                        }
                    }
                }
            }
            Tri::Unknown => {
                if wm != rm {
                    let cause = if type_v == Tri::Unknown {
                        ["", "type_name_differs", "", "type_differs_same_name"][s.type_mode as usize]
                    } else {
                        "partition_pattern_vs_pattern"
                    };
                    rep.violation(
                        format!("policy={cause}|verdicts_differ|side=disagree"),
                        format!("writer side matched={wm}, reader side matched={rm} for the same pair"),
                        replay(),
                    );
                }
            }
        }
    }
}

// ------------------------------------------------------------------------------------------
// getter probe (the status getters are `todo!()` at the pinned commit)

fn probe_getters(rep: &mut Report) {
    for side in ["writer", "reader"] {
        let mut cfg = WorldConfig::default();
        cfg.sim.max_virtual_ns = 5 * SEC;
        cfg.sim.max_polls = 100_000;
        let side2 = side.to_string();
        let (res, stats, _) = run_world(&cfg, move |w| async move {
            let p0 = new_participant(&w, 0).await;
            let t = new_topic::<TA>(&p0, "Probe", "TA").await;
            if side2 == "writer" {
                let pb = new_publisher(&p0).await;
                let dw = new_writer::<TA>(&pb, &t, DataWriterQos::default()).await;
                dw.get_offered_incompatible_qos_status().await.is_ok()
            } else {
                let sb = new_subscriber(&p0).await;
                let dr = new_reader::<TA>(&sb, &t, DataReaderQos::default()).await;
                dr.get_requested_incompatible_qos_status().await.is_ok()
            }
        });
        let todo = stats.panics.iter().any(|p| p.msg.contains("not yet implemented"));
        let k = format!(
            "get_{}_incompatible_qos_status",
            if side == "writer" { "offered" } else { "requested" }
        );
        if res == Some(true) {
            rep.set("status_getter_probe", format!("{k}: works (monitor still reads the status through listeners)"));
        } else if todo {
            rep.set(
                "status_getter_probe",
                format!("{k}: panics with todo!() in the calling task (not flagged; status observed through listeners)"),
            );
        } else {
            rep.set("status_getter_probe", format!("{k}: no result ({:?})", stats.stop));
        }
    }
}

pub fn run(shard: &Shard) -> Report {
    let mut rep = Report::new("C15");
    rep.max_samples = 4;
    if let Err(e) = fnm::self_test() {
        rep.inconclusive(format!("fnmatch oracle self test failed: {e}"));
        return rep;
    }
    let trace = shard.args.has("trace");
    if let Some(r) = &shard.replay {
        if let Some(ws) = r.get("witnesses").and_then(|w| w.as_arr()) {
            let mut seen = BTreeSet::new();
            for wt in ws {
                let Some(rp) = wt.get("replay") else { continue };
                let scen = rp.get("scenario").and_then(|s| s.as_str()).unwrap_or("");
                let case = rp.get("case").and_then(|c| c.as_u64()).unwrap_or(0);
                let pair = rp.get("pair").and_then(|c| c.as_u64()).map(|p| p as usize);
                if !seen.insert((scen.to_string(), case, pair)) {
                    continue;
                }
                if scen == "c15/direct" {
                    direct_case(shard, &mut rep, case, true);
                } else {
                    e2e_case(shard, &mut rep, case, true, pair);
                }
            }
        }
        return rep;
    }
    if shard.shard == 0 {
        probe_getters(&mut rep);
    }
    if !shard.args.has("no-direct") {
        for case in shard.my_cases() {
            direct_case(shard, &mut rep, case, trace);
        }
    }
    let e2e = shard.args.u64("e2e", 0);
    let only = shard.args.kv.get("only-e2e").and_then(|s| s.parse::<u64>().ok());
    for case in (0..e2e).filter(|c| c % shard.nshards == shard.shard) {
        if let Some(o) = only {
            if o != case {
                continue;
            }
        }
        if trace {
            eprintln!("e2e case {case}");
        }
        e2e_case(shard, &mut rep, case, trace, None);
    }
    rep
}
