//! C24: EXCLUSIVE ownership. Separate small model: per instance the set of writers the reader knows
//! to be writing it (wrote it and did not unregister / were not deleted / did not miss the deadline),
//! the owner being the strongest of them.
use crate::common::*;
use crate::hist::*;
use crate::model::{IState, Obs};
use crate::run::*;
use simnet::*;
use std::collections::{BTreeMap, BTreeSet};

struct Live {
    /// writer -> (virtual time (ns), slept time (ns)) at its last write for this instance
    writers: BTreeMap<usize, (i64, i64)>,
    /// (writer, how it left), most recent last
    departures: Vec<(usize, &'static str)>,
    /// last operation of each writer on this instance
    last_op: BTreeMap<usize, &'static str>,
}

pub async fn scenario(w: World, h: Hist, trace: bool) -> Outcome {
    let mut out = Outcome::default();
    let cfg = h.cfg.clone();
    let mut env = match setup(&w, &cfg, false).await {
        Ok(e) => e,
        Err(e) => {
            out.inconclusive = Some(e);
            return out;
        }
    };
    let sim = env.sim.clone();
    if trace && std::env::var("RC_NETLOG").is_ok() {
        w.net.enable_sent_log(100000, false);
        w.net.take_sent_log();
    }
    let st = |w: usize| cfg.strengths.get(w).copied().unwrap_or(0);
    let d_ns = cfg.deadline_ms * MS;
    // No verdict for anything that happens close to (or after) a possible deadline expiry of another
    // writer: worker period (50 ms) + sleep jitter + clock-read inflation of the operation itself
    // + 10 ms, doubled for the two ends (write -> reception, timer -> check).
    let boundary_margin = 2 * (50 * MS + cfg.jitter + 10 * MS);
    let mut live: BTreeMap<u32, Live> = BTreeMap::new();
    let mut handles: BTreeMap<u32, dust_dds::infrastructure::instance::InstanceHandle> = BTreeMap::new();
    let mut wreg: Vec<Vec<u32>> = vec![Vec::new(); cfg.n_writers];
    let mut seen: BTreeSet<(u32, u32)> = BTreeSet::new();
    // per instance: (instance state, number of invalid samples) at the last observation
    let mut last_state: BTreeMap<u32, (IState, usize)> = BTreeMap::new();
    // tie[(a,b)] = (winner, instance key where it was observed)
    let mut tie: BTreeMap<(usize, usize), (usize, u32)> = BTreeMap::new();
    let mut shape = vcore::fnv_str(&cfg.class());
    let mut assertions = 0i64;
    // Time the scenario explicitly slept (the executor was idle, every DDS timer could fire). Virtual
    // time that merely passed while the participants were busy (clock_tick) does not count towards
    // "the owner definitely missed its deadline".
    let mut slept = 0i64;
    let mut contested = 0i64;
    let all = ReadOp { take: false, sel: Sel::All, max: MAX_ALL, ss: SS_ANY, vs: VS_ANY, is: IS_ANY };

    'ops: for (oi, op) in h.ops.iter().enumerate() {
        out.ops_executed = oi + 1;
        if trace {
            out.trace.push(format!("#{oi} {}   (at +{} ms)", op.encode(), (sim.now() - EPOCH_NS) / MS));
        }
        shape = vcore::mix(shape, vcore::fnv_str(&op.shape()));
        match op {
            Op::Sleep { ms } => {
                sim.sleep(*ms * MS).await;
                slept += *ms * MS;
                continue;
            }
            Op::DeleteWriter { w: wi } => {
                let Some(dw) = env.writers.get_mut(*wi).and_then(|x| x.take()) else { continue };
                let before = env.reader.get_matched_publications().await.map(|v| v.len()).unwrap_or(0);
                match sim.timeout(10 * SEC, env.wparts[*wi].2.delete_datawriter(&dw)).await {
                    Ok(Ok(())) => {}
                    Ok(Err(e)) => {
                        out.inconclusive = Some(format!("delete_datawriter failed: {}", err_name(&e)));
                        break 'ops;
                    }
                    Err(_) => {
                        out.inconclusive = Some("delete_datawriter did not return".into());
                        break 'ops;
                    }
                }
                let t0 = sim.now();
                loop {
                    let n = env.reader.get_matched_publications().await.map(|v| v.len()).unwrap_or(0);
                    if n < before {
                        break;
                    }
                    if sim.now() - t0 > 20 * SEC {
                        out.abandoned = Some("reader did not notice the deleted writer within 20 s (matching, not ownership)".into());
                        break 'ops;
                    }
                    sim.sleep(20 * MS).await;
                }
                for (_, l) in live.iter_mut() {
                    if l.writers.remove(wi).is_some() {
                        l.departures.push((*wi, "delete"));
                    }
                }
                wreg[*wi].clear();
                out.stat("writers_deleted", 1);
                continue;
            }
            Op::Write { .. } | Op::Dispose { .. } | Op::Unreg { .. } => {}
            _ => continue,
        }
        let (wi, key) = match op {
            Op::Write { w, key, .. } | Op::Dispose { w, key, .. } | Op::Unreg { w, key, .. } => (*w, *key),
            _ => unreachable!(),
        };
        let Some(dw) = env.writers.get(wi).and_then(|x| x.clone()) else {
            out.stat("ops_skipped_not_applicable", 1);
            continue;
        };
        let is_write = matches!(op, Op::Write { .. });
        if !is_write && !wreg[wi].contains(&key) {
            out.stat("ops_skipped_not_applicable", 1);
            continue;
        }
        let res = match op {
            Op::Write { seq, ts, .. } => {
                if cfg.deadline_ms > 0 {
                    sim.timeout(10 * SEC, dw.write(msg(key, wi as u32, *seq, 8), None)).await
                } else {
                    sim.timeout(10 * SEC, dw.write_w_timestamp(msg(key, wi as u32, *seq, 8), None, ts_to_time(*ts))).await
                }
            }
            Op::Dispose { ts, .. } => sim.timeout(10 * SEC, dw.dispose_w_timestamp(msg(key, wi as u32, 0, 0), None, ts_to_time(*ts))).await,
            Op::Unreg { ts, .. } => sim.timeout(10 * SEC, dw.unregister_instance_w_timestamp(msg(key, wi as u32, 0, 0), None, ts_to_time(*ts))).await,
            _ => unreachable!(),
        };
        let now = sim.now();
        match res {
            Err(_) => {
                out.inconclusive = Some(format!("op #{oi} did not return within 10 s virtual"));
                break 'ops;
            }
            Ok(Err(e)) => {
                out.stat(&format!("writer_op_error_{}", err_name(&e)), 1);
                continue;
            }
            Ok(Ok(())) => {}
        }
        if !handles.contains_key(&key) {
            if let Ok(Ok(Some(hd))) = sim.timeout(10 * SEC, dw.lookup_instance(msg(key, 0, 0, 0))).await {
                handles.insert(key, hd);
            }
        }
        settle_net(&w).await;
        if trace && std::env::var("RC_NETLOG").is_ok() {
            for r in w.net.take_sent_log().iter().rev().take(400).rev() {
                out.trace.push(format!("      net {}us {}->{:?} {}", (r.at_ns - EPOCH_NS) / 1000, r.src, r.dsts, r.summary));
            }
            out.trace.push(format!("      now {}us counters {:?}", (sim.now() - EPOCH_NS) / 1000, w.net.counters()));
        }
        // ---- observe
        let Some(res) = do_read(&env, &handles, &all).await else {
            out.inconclusive = Some(format!("read after op #{oi} did not return"));
            break 'ops;
        };
        if trace {
            out.trace.push(format!("   -> {}", obs_str(&res)));
        }
        out.stat("reader_ops", 1);
        if trace && std::env::var("RC_NETLOG").is_ok() && res.is_err() {
            sim.sleep(1000 * MS).await;
            let r2 = do_read(&env, &handles, &all).await;
            out.trace.push(format!("      DEBUG after 1 s more: {:?}", r2.map(|r| obs_str(&r))));
        }
        let obs: Vec<Obs> = res.unwrap_or_default();
        let of_inst: Vec<&Obs> = obs.iter().filter(|o| handles.get(&key) == Some(&o.handle)).collect();
        let state_now = of_inst.first().map(|o| (o.ist, of_inst.iter().filter(|o| !o.valid).count()));
        let state_before = last_state.get(&key).cloned();
        for (k, hd) in handles.iter() {
            let v: Vec<&Obs> = obs.iter().filter(|o| &o.handle == hd).collect();
            if let Some(o) = v.first() {
                last_state.insert(*k, (o.ist, v.iter().filter(|o| !o.valid).count()));
            }
        }
        // ---- the model
        let l = live.entry(key).or_insert_with(|| Live { writers: BTreeMap::new(), departures: Vec::new(), last_op: BTreeMap::new() });
        let mut unsure = false;
        if d_ns > 0 {
            let mut expired = Vec::new();
            for (v, (t, sl)) in l.writers.iter() {
                if *v == wi {
                    continue;
                }
                let age = now - *t;
                if slept - *sl > 2 * d_ns + 150 * MS {
                    expired.push(*v);
                } else if age > d_ns - boundary_margin {
                    unsure = true;
                }
            }
            for v in expired {
                l.writers.remove(&v);
                l.departures.push((v, "deadline"));
                out.stat("deadline_expirations_in_model", 1);
            }
        }
        let others: Vec<usize> = l.writers.keys().cloned().filter(|v| *v != wi).collect();
        let max_other = others.iter().map(|v| st(*v)).max();
        let sw = st(wi);
        if !others.is_empty() {
            contested += 1;
        }
        let rel = match max_other {
            None => 1,
            Some(m) if sw > m => 1,
            Some(m) if sw < m => -1,
            _ => 0,
        };
        match op {
            Op::Write { seq, .. } => {
                let id = (wi as u32, *seq);
                let visible = obs.iter().any(|o| o.id == Some(id));
                for o in obs.iter() {
                    if let Some(i) = o.id {
                        seen.insert(i);
                    }
                }
                shape = vcore::mix(shape, visible as u64 + 2 * (rel + 1) as u64);
                if !unsure {
                    assertions += 1;
                    if rel > 0 && !visible && !confirm_absent(&w, &env, &handles, id).await {
                        out.abandoned = Some(format!("sample w{wi}#{seq} arrived late (harness timing, no verdict)"));
                        out.stat("late_arrivals(no verdict)", 1);
                        break 'ops;
                    }
                    if rel > 0 && !visible {
                        // which stronger-or-equal writer left before?
                        let dep = l.departures.iter().rev().find(|(v, _)| *v != wi).map(|(_, k)| *k);
                        let (sig, why) = match dep {
                            Some(k) => (format!("no_handover|after={k}"), format!("the previous owner left by {k}")),
                            None => ("strongest_writer_sample_missing".to_string(), "no other writer has left the instance before".to_string()),
                        };
                        out.findings.push(Found {
                            sig,
                            what: format!(
                                "instance k{key}: sample w{wi}#{seq} (strength {sw}) is not presented although w{wi} is the strongest writer known for the instance (others: {:?}); {why}",
                                others.iter().map(|v| format!("w{v}(strength {})", st(*v))).collect::<Vec<_>>()
                            ),
                            op_index: oi,
                        });
                        break 'ops;
                    }
                    if rel < 0 && visible {
                        let strongest = others.iter().cloned().max_by_key(|v| st(*v)).unwrap();
                        let ctx = match l.last_op.get(&strongest).copied() {
                            Some("dispose") => "owner_dispose",
                            _ => "none",
                        };
                        out.findings.push(Found {
                            sig: format!("weaker_sample_visible|after={ctx}"),
                            what: format!(
                                "instance k{key}: sample w{wi}#{seq} (strength {sw}) is presented although w{strongest} (strength {}) wrote the instance, did not unregister it and is alive (its last operation on the instance: {})",
                                st(strongest),
                                l.last_op.get(&strongest).copied().unwrap_or("-")
                            ),
                            op_index: oi,
                        });
                        break 'ops;
                    }
                    if rel < 0 && !visible {
                        // the ignored sample must not change the instance's state either (rebirth)
                        if let (Some(b), Some(a)) = (state_before, state_now) {
                            if b.0 != a.0 {
                                let strongest = others.iter().cloned().max_by_key(|v| st(*v)).unwrap();
                                out.findings.push(Found {
                                    sig: "weaker_state_change_visible|change=write".to_string(),
                                    what: format!(
                                        "instance k{key}: the sample w{wi}#{seq} of the weaker writer (strength {sw}) is not presented, but it changed the instance_state the reader presents ({} -> {}) although w{strongest} (strength {}) owns the instance",
                                        b.0.name(),
                                        a.0.name(),
                                        st(strongest)
                                    ),
                                    op_index: oi,
                                });
                                break 'ops;
                            }
                        }
                    }
                    if rel == 0 {
                        let equals: Vec<usize> = others.iter().cloned().filter(|v| st(*v) == sw).collect();
                        if equals.len() == 1 {
                            let v = equals[0];
                            let pair = (wi.min(v), wi.max(v));
                            // only positive evidence counts: a presented sample shows that its writer
                            // beats the other writer of equal strength that is known for the instance
                            if !visible {
                                l.writers.insert(wi, (now, slept));
                                l.last_op.insert(wi, "write");
                                if !wreg[wi].contains(&key) {
                                    wreg[wi].push(key);
                                }
                                continue;
                            }
                            let winner = wi;
                            out.stat("tie_observations", 1);
                            match tie.get(&pair) {
                                None => {
                                    tie.insert(pair, (winner, key));
                                }
                                Some((w0, k0)) if *w0 != winner => {
                                    let scope = if *k0 == key { "same_instance" } else { "across_instances" };
                                    out.findings.push(Found {
                                        sig: format!("tie_inconsistent|scope={scope}"),
                                        what: format!(
                                            "writers w{} and w{} have equal strength {sw} and both are known writers of the instance: on instance k{k0} a sample of w{w0} was presented while the other was a known writer (w{w0} wins the tie), now on k{key} sample w{wi}#{seq} of w{winner} is presented",
                                            pair.0,
                                            pair.1
                                        ),
                                        op_index: oi,
                                    });
                                    break 'ops;
                                }
                                _ => {}
                            }
                        }
                    }
                }
                l.writers.insert(wi, (now, slept));
                l.last_op.insert(wi, "write");
                if !wreg[wi].contains(&key) {
                    wreg[wi].push(key);
                }
            }
            Op::Dispose { .. } | Op::Unreg { .. } => {
                let change = if is_write { "" } else if matches!(op, Op::Dispose { .. }) { "dispose" } else { "unregister" };
                if !unsure && rel < 0 {
                    assertions += 1;
                    if let (Some(b), Some(a)) = (state_before, state_now) {
                        if b.0 != a.0 || a.1 > b.1 {
                            let strongest = others.iter().cloned().max_by_key(|v| st(*v)).unwrap();
                            out.findings.push(Found {
                                sig: format!("weaker_state_change_visible|change={change}"),
                                what: format!(
                                    "instance k{key}: {change} by w{wi} (strength {sw}) changed what the reader presents (instance_state {} -> {}, invalid samples {} -> {}) although w{strongest} (strength {}) owns the instance",
                                    b.0.name(),
                                    a.0.name(),
                                    b.1,
                                    a.1,
                                    st(strongest)
                                ),
                                op_index: oi,
                            });
                            break 'ops;
                        }
                    }
                }
                shape = vcore::mix(shape, 7 + (rel + 1) as u64);
                if matches!(op, Op::Unreg { .. }) {
                    if l.writers.remove(&wi).is_some() {
                        l.departures.push((wi, "unregister"));
                    }
                    l.last_op.insert(wi, "unregister");
                    wreg[wi].retain(|k| *k != key);
                } else {
                    l.last_op.insert(wi, "dispose");
                }
            }
            _ => {}
        }
    }
    out.stat("ownership_assertions", assertions);
    out.stat("ops_on_contested_instances", contested);
    out.shape = shape;
    out.nontrivial = contested >= 1 && assertions >= 1;
    out
}
