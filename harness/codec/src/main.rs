fn main() {}
