#!/usr/bin/env python3
"""Generated-programs engine (E5): C40 (#[derive(DdsType)]) and C41 (IDL compiler).

usage: gen.py <c40|c41> --seed N --shard K --nshards M --cases TOTAL --tier quick|thorough --out REPORT
              [--replay FILE] [--per-bin N] [--values N] [--inject-bad]

Everything random derives from (--seed, --shard).  The generated crates live in
/verif/.build/gen/<prop>-s<shard>/ and are compiled against /repo's working tree through path
dependencies into the shared target dir /verif/.build/gen-target (cargo serialises on its lock)."""
import argparse, json, os, sys, time, traceback

sys.path.insert(0, os.path.dirname(os.path.abspath(__file__)))
import common
from common import Rng, Report, h64


def main():
    ap = argparse.ArgumentParser()
    ap.add_argument("prop", choices=["c40", "c41"])
    ap.add_argument("--seed", type=int, default=1)
    ap.add_argument("--shard", type=int, default=0)
    ap.add_argument("--nshards", type=int, default=1)
    ap.add_argument("--cases", type=int, default=300)
    ap.add_argument("--tier", default="quick")
    ap.add_argument("--out", required=True)
    ap.add_argument("--replay", default=None)
    ap.add_argument("--per-bin", type=int, default=0)
    ap.add_argument("--batch", type=int, default=0)
    ap.add_argument("--values", type=int, default=20)
    ap.add_argument("--inject-bad", action="store_true", help="self-test: add a declaration that cannot compile")
    ap.add_argument("--budget-s", type=float, default=0, help="stop starting new batches after this many seconds")
    args = ap.parse_args()

    rep = Report(args.prop.upper())
    try:
        if args.prop == "c40":
            import c40_run
            c40_run.run(args, rep)
        else:
            import c41_run
            c41_run.run(args, rep)
    except Exception:
        rep.inconclusive.append("engine error: " + traceback.format_exc()[-1500:])
    rep.write(args.out)
    return 0


if __name__ == "__main__":
    sys.exit(main())
