//! C42 — std runtime (Executor / TimerDriver / Sleep / block_on / block_timeout) on real threads with
//! recorded wall-clock timings.
//!
//! Verdicts
//!  (a) early_wake      hard: completion instant - instant taken before the first poll < requested duration
//!  (b) never_wakes     only if a sleep is still not complete 30 s after its duration while an OS-level
//!                      control sleeper (thread::sleep(5 ms) loop) kept completing on time; a mere slack
//!                      overrun is an inconclusive note (machine load)
//!  (c) wake_after_drop Sleep polled with a counting waker, dropped >= 100 ms before its deadline: the
//!                      counter must not move after the drop returned (checked past the deadline)
//!  (d) wrong_output    block_on / block_timeout return the value produced by the future
//!  (e) spurious_timeout block_timeout returned Timeout although the future was complete (and its wake
//!                      delivered) more than 20 ms before `start + duration` (start taken before the call)
//! The converse of (e) is not demanded by the property and not checked.
//! (a)/(b) are also applied to sleeps that change waiter before the deadline (block_timeout then
//! block_on, migration to another thread) or are restarted with reset() (case_repoll).
use crate::wk::{WakeState, waker};
use dust_dds::infrastructure::error::DdsError;
use dust_dds::runtime::{DdsRuntime, Timer};
use dust_dds::std_runtime::StdRuntime;
use dust_dds::std_runtime::executor::{Executor, ExecutorHandle, block_on, block_timeout};
use dust_dds::std_runtime::timer::{Sleep, TimerDriver, TimerHandle};
use std::future::Future;
use std::pin::Pin;
use std::sync::atomic::{AtomicBool, AtomicU64, AtomicUsize, Ordering};
use std::sync::{Arc, Mutex};
use std::task::{Context, Poll, Wake, Waker};
use std::thread::{self, Thread};
use std::time::{Duration, Instant};
use vcore::{Args, Json, Report, Rng, fnv_str, mix};

const SLACK: Duration = Duration::from_millis(1000);
const NEVER: Duration = Duration::from_secs(30);
const BOUNDARY: Duration = Duration::from_millis(20);
const DROP_MARGIN: Duration = Duration::from_millis(100);

// ------------------------------------------------------------------------------------------ control

/// OS-level control sleeper: tells machine load apart from a timer that does not fire.
static CTRL_MAX_LATE_US: AtomicU64 = AtomicU64::new(0);
static CTRL_TICKS: AtomicU64 = AtomicU64::new(0);
static CTRL_MAX_LATE_TOTAL_US: AtomicU64 = AtomicU64::new(0);
static CTRL_STOP: AtomicBool = AtomicBool::new(false);

fn control_thread() {
    while !CTRL_STOP.load(Ordering::Relaxed) {
        let t = Instant::now();
        thread::sleep(Duration::from_millis(5));
        let late = t.elapsed().saturating_sub(Duration::from_millis(5)).as_micros() as u64;
        CTRL_MAX_LATE_US.fetch_max(late, Ordering::SeqCst);
        CTRL_MAX_LATE_TOTAL_US.fetch_max(late, Ordering::SeqCst);
        CTRL_TICKS.fetch_add(1, Ordering::SeqCst);
    }
}

// ------------------------------------------------------------------------------------------ runtime

struct Rt {
    _rt: StdRuntime,
    timer: TimerHandle,
    spawner: ExecutorHandle,
}

fn new_rt() -> Rt {
    let rt = StdRuntime::new(Executor::new(), TimerDriver::new());
    let timer = rt.timer();
    let spawner = rt.spawner();
    Rt { _rt: rt, timer, spawner }
}

#[derive(Clone, Copy, Debug)]
struct Rec {
    d: Duration,
    t0: Instant,
    t1: Instant,
    via: &'static str,
}

struct Coll {
    recs: Mutex<Vec<Rec>>,
    remaining: AtomicUsize,
    main: Thread,
}

impl Coll {
    fn new(n: usize) -> Arc<Coll> {
        Arc::new(Coll { recs: Mutex::new(Vec::with_capacity(n)), remaining: AtomicUsize::new(n), main: thread::current() })
    }
    fn push(&self, r: Rec) {
        self.recs.lock().unwrap().push(r);
        if self.remaining.fetch_sub(1, Ordering::SeqCst) == 1 {
            self.main.unpark();
        }
    }
}

/// Several sleeps polled by one task (several timer registrations with the same waker).
struct JoinN {
    sleeps: Vec<Option<(Sleep, Duration)>>,
    t0: Option<Instant>,
    coll: Arc<Coll>,
    via: &'static str,
}

impl Future for JoinN {
    type Output = ();
    fn poll(self: Pin<&mut Self>, cx: &mut Context<'_>) -> Poll<()> {
        let this = self.get_mut();
        let t0 = *this.t0.get_or_insert_with(Instant::now);
        let mut all = true;
        for slot in this.sleeps.iter_mut() {
            if let Some((s, d)) = slot {
                if Pin::new(s).poll(cx).is_ready() {
                    let t1 = Instant::now();
                    this.coll.push(Rec { d: *d, t0, t1, via: this.via });
                    *slot = None;
                } else {
                    all = false;
                }
            }
        }
        if all { Poll::Ready(()) } else { Poll::Pending }
    }
}

// ------------------------------------------------------------------------------------------ helper futures

struct FlagIn<T> {
    val: Option<T>,
    waker: Option<Waker>,
    /// taken *after* the value was stored and the waker invoked
    completed_at: Option<Instant>,
}
struct Flag<T>(Arc<Mutex<FlagIn<T>>>);
impl<T> Flag<T> {
    fn new() -> (Flag<T>, Arc<Mutex<FlagIn<T>>>) {
        let a = Arc::new(Mutex::new(FlagIn { val: None, waker: None, completed_at: None }));
        (Flag(a.clone()), a)
    }
}
fn complete<T>(a: &Arc<Mutex<FlagIn<T>>>, v: T) {
    let w = {
        let mut g = a.lock().unwrap();
        g.val = Some(v);
        g.waker.take()
    };
    if let Some(w) = w {
        w.wake();
    }
    a.lock().unwrap().completed_at = Some(Instant::now());
}
impl<T> Future for Flag<T> {
    type Output = T;
    fn poll(self: Pin<&mut Self>, cx: &mut Context<'_>) -> Poll<T> {
        let mut g = self.0.lock().unwrap();
        if let Some(v) = g.val.take() {
            Poll::Ready(v)
        } else {
            g.waker = Some(cx.waker().clone());
            Poll::Pending
        }
    }
}
struct Never;
impl Future for Never {
    type Output = u64;
    fn poll(self: Pin<&mut Self>, _cx: &mut Context<'_>) -> Poll<u64> {
        Poll::Pending
    }
}

/// Wraps a Sleep; the waker handed to it forwards to the real one and records when the forward returned.
struct ProbeSt {
    woken_at: Mutex<Option<Instant>>,
}
struct Fwd {
    inner: Waker,
    st: Arc<ProbeSt>,
}
impl Wake for Fwd {
    fn wake(self: Arc<Self>) {
        self.wake_by_ref()
    }
    fn wake_by_ref(self: &Arc<Self>) {
        self.inner.wake_by_ref();
        let mut g = self.st.woken_at.lock().unwrap();
        if g.is_none() {
            *g = Some(Instant::now());
        }
    }
}
struct Probe {
    s: Sleep,
    st: Arc<ProbeSt>,
    out: u64,
}
impl Future for Probe {
    type Output = u64;
    fn poll(self: Pin<&mut Self>, cx: &mut Context<'_>) -> Poll<u64> {
        let this = self.get_mut();
        let w = Waker::from(Arc::new(Fwd { inner: cx.waker().clone(), st: this.st.clone() }));
        let mut c2 = Context::from_waker(&w);
        match Pin::new(&mut this.s).poll(&mut c2) {
            Poll::Ready(()) => Poll::Ready(this.out),
            Poll::Pending => Poll::Pending,
        }
    }
}

// ------------------------------------------------------------------------------------------ case plumbing

fn dur_bucket(d: Duration) -> &'static str {
    let us = d.as_micros();
    if us == 0 {
        "0"
    } else if us < 1_000 {
        "<1ms"
    } else if us < 10_000 {
        "<10ms"
    } else if us < 100_000 {
        "<100ms"
    } else {
        "<=200ms"
    }
}
fn conc_bucket(n: usize) -> &'static str {
    match n {
        0 => "0",
        1 => "1",
        2..=9 => "2-9",
        10..=99 => "10-99",
        100..=999 => "100-999",
        _ => "1000-2000",
    }
}

impl DurMode {
    fn name(self) -> &'static str {
        match self {
            DurMode::Uniform => "uniform0-200ms",
            DurMode::Short => "short<5ms",
            DurMode::Cluster(_) => "clustered(equal deadlines)",
            DurMode::Zero => "zero",
            DurMode::Mixed => "mixed",
        }
    }
}
#[derive(Clone, Copy, Debug)]
enum DurMode {
    Uniform,
    Short,
    Cluster(u64),
    Zero,
    Mixed,
}
fn gen_dur(rng: &mut Rng, m: DurMode) -> Duration {
    match m {
        DurMode::Uniform => Duration::from_nanos(rng.below(200_000_001)),
        DurMode::Short => Duration::from_nanos(rng.below(5_000_000)),
        DurMode::Cluster(c) => Duration::from_nanos(c + rng.below(3) * rng.below(2000)),
        DurMode::Zero => Duration::ZERO,
        DurMode::Mixed => match rng.below(5) {
            0 => Duration::ZERO,
            1 => Duration::from_nanos(rng.below(1_000_000)),
            2 => Duration::from_millis(rng.below(201)),
            _ => Duration::from_nanos(rng.below(200_000_001)),
        },
    }
}
fn gen_mode(rng: &mut Rng) -> DurMode {
    match rng.below(10) {
        0..=3 => DurMode::Uniform,
        4 => DurMode::Short,
        5..=6 => DurMode::Cluster(rng.below(200_000_000)),
        7 => DurMode::Zero,
        _ => DurMode::Mixed,
    }
}
fn log_uniform(rng: &mut Rng, hi: usize) -> usize {
    let x = rng.f64() * (hi as f64).ln();
    (x.exp() as usize).clamp(1, hi)
}

struct Ctx<'a> {
    rep: &'a mut Report,
    replay: Json,
    abort: bool,
}

impl Ctx<'_> {
    fn violation(&mut self, sig: String, what: String) {
        self.rep.violation(sig, what, self.replay.clone());
    }
    /// monitors (a) and the lateness statistics of (b)
    fn check_recs(&mut self, recs: &[Rec], conc: usize) {
        for r in recs {
            let el = r.t1.duration_since(r.t0);
            self.rep.stat("sleeps_completed", 1);
            self.rep.stat(&format!("sleeps_completed_via_{}", r.via), 1);
            self.rep.set("sleep_classes(duration,concurrency)", format!("{},{}", dur_bucket(r.d), conc_bucket(conc)));
            if el < r.d {
                self.violation(
                    "early_wake".to_string(),
                    format!(
                        "sleep of {:?} completed after only {:?} (instant taken before the first poll vs at completion), via {}, {} sleeps in the case",
                        r.d, el, r.via, conc
                    ),
                );
            } else {
                let late = el - r.d;
                self.rep.maxstat("max_lateness_us", late.as_micros() as i128);
                let b = match late.as_micros() {
                    0..=999 => "lateness_<1ms",
                    1_000..=9_999 => "lateness_<10ms",
                    10_000..=99_999 => "lateness_<100ms",
                    _ => "lateness_>=100ms",
                };
                self.rep.stat(b, 1);
                if late > SLACK {
                    self.rep.stat("slack_overruns(inconclusive)", 1);
                    if self.rep.inconclusive.len() < 3 {
                        self.rep.inconclusive(format!(
                            "a sleep of {:?} completed {:?} late (slack {:?}); OS control sleeper max lateness in this run {} us: load, not a verdict",
                            r.d,
                            late,
                            SLACK,
                            CTRL_MAX_LATE_US.load(Ordering::SeqCst)
                        ));
                    }
                }
            }
        }
    }

    /// (b): wait until `pending()` is 0, or decide never_wakes / inconclusive.
    fn wait_all(&mut self, what: &str, max_d: Duration, pending: &dyn Fn() -> usize) -> bool {
        let t0 = Instant::now();
        CTRL_MAX_LATE_US.store(0, Ordering::SeqCst);
        let ticks0 = CTRL_TICKS.load(Ordering::SeqCst);
        loop {
            let n = pending();
            if n == 0 {
                return true;
            }
            let el = t0.elapsed();
            if el > max_d + NEVER {
                let late = CTRL_MAX_LATE_US.load(Ordering::SeqCst);
                let ticks = CTRL_TICKS.load(Ordering::SeqCst) - ticks0;
                self.abort = true;
                if late < 1_000_000 && ticks > 1000 {
                    self.violation(
                        "never_wakes".to_string(),
                        format!(
                            "[{what}] {n} sleep(s)/future(s) of at most {:?} still not complete {:?} after they were started, while the OS-level control sleeper completed {ticks} times with a max lateness of {late} us",
                            max_d, el
                        ),
                    );
                } else {
                    self.rep.inconclusive(format!(
                        "{what}: {n} sleeps incomplete after {:?} but the control sleeper was late too ({late} us, {ticks} ticks): machine stall",
                        el
                    ));
                }
                return false;
            }
            thread::park_timeout(Duration::from_millis(20));
        }
    }
}

fn spawn_sleeps(rt: &Rt, rng: &mut Rng, coll: &Arc<Coll>, durs: Vec<Duration>, threads: usize) {
    // split over `threads` spawning threads; every thread spawns its share onto the executor
    let mut per: Vec<Vec<(Duration, u8, u32)>> = (0..threads).map(|_| Vec::new()).collect();
    for (i, d) in durs.into_iter().enumerate() {
        per[i % threads].push((d, rng.below(10) as u8, rng.below(300) as u32));
    }
    let mut hs = Vec::new();
    for list in per {
        let spawner = rt.spawner.clone();
        let timer = rt.timer.clone();
        let coll = coll.clone();
        hs.push(thread::spawn(move || {
            let mut i = 0;
            while i < list.len() {
                let (d, kind, gap) = list[i];
                crate::wk::spin(gap);
                let coll = coll.clone();
                let mut timer = timer.clone();
                match kind {
                    0 if i + 1 < list.len() => {
                        // two sleeps one after the other in one task
                        let d2 = list[i + 1].0;
                        i += 1;
                        spawner.spawn(async move {
                            let t0 = Instant::now();
                            timer.sleep(d).await;
                            coll.push(Rec { d, t0, t1: Instant::now(), via: "spawn" });
                            let t0 = Instant::now();
                            timer.sleep(d2).await;
                            coll.push(Rec { d: d2, t0, t1: Instant::now(), via: "spawn" });
                        });
                    }
                    1 if i + 1 < list.len() => {
                        // two sleeps polled concurrently by one task
                        let d2 = list[i + 1].0;
                        i += 1;
                        let j = JoinN {
                            sleeps: vec![Some((timer.sleep(d), d)), Some((timer.sleep(d2), d2))],
                            t0: None,
                            coll,
                            via: "spawn_join",
                        };
                        spawner.spawn(j);
                    }
                    2 => {
                        // through the runtime trait
                        spawner.spawn(async move {
                            let t0 = Instant::now();
                            Timer::delay(&mut timer, d).await;
                            coll.push(Rec { d, t0, t1: Instant::now(), via: "spawn_trait" });
                        });
                    }
                    _ => {
                        spawner.spawn(async move {
                            let t0 = Instant::now();
                            timer.sleep(d).await;
                            coll.push(Rec { d, t0, t1: Instant::now(), via: "spawn" });
                        });
                    }
                }
                i += 1;
            }
        }));
    }
    for h in hs {
        let _ = h.join();
    }
}

// ------------------------------------------------------------------------------------------ cases

fn case_spawn(cx: &mut Ctx, rt: &Rt, rng: &mut Rng) -> String {
    let n = log_uniform(rng, 2000);
    let threads = (1 + rng.usize(16)).min(n);
    let mode = gen_mode(rng);
    let durs: Vec<Duration> = (0..n).map(|_| gen_dur(rng, mode)).collect();
    let max_d = durs.iter().copied().max().unwrap_or_default();
    let coll = Coll::new(n);
    spawn_sleeps(rt, rng, &coll, durs, threads);
    let c2 = coll.clone();
    let ok = cx.wait_all("spawn", max_d, &move || c2.remaining.load(Ordering::SeqCst));
    let recs = coll.recs.lock().unwrap().clone();
    cx.check_recs(&recs, n);
    let _ = ok;
    format!("spawn n={} threads={} durations={}", conc_bucket(n), threads.min(16), mode.name())
}

fn case_block_on(cx: &mut Ctx, rt: &Rt, rng: &mut Rng) -> String {
    let threads = 1 + rng.usize(16);
    let per = 1 + rng.usize(4);
    let mode = gen_mode(rng);
    let background = if rng.chance(0.4) { log_uniform(rng, 1000) } else { 0 };
    let bg_durs: Vec<Duration> = (0..background).map(|_| gen_dur(rng, DurMode::Uniform)).collect();
    let mut total = background;
    let mut plans: Vec<Vec<Vec<Duration>>> = Vec::new();
    let mut max_d = bg_durs.iter().copied().max().unwrap_or_default();
    for _ in 0..threads {
        let mut p = Vec::new();
        let mut sum = Duration::ZERO;
        for _ in 0..per {
            let k = if rng.chance(0.3) { 1 + rng.usize(8) } else { 1 };
            let ds: Vec<Duration> = (0..k).map(|_| gen_dur(rng, mode)).collect();
            total += ds.len();
            sum += ds.iter().copied().max().unwrap();
            p.push(ds);
        }
        max_d = max_d.max(sum);
        plans.push(p);
    }
    let coll = Coll::new(total);
    if background > 0 {
        let bg_threads = 1 + rng.usize(4);
        spawn_sleeps(rt, rng, &coll, bg_durs, bg_threads);
    }
    for p in plans {
        let timer = rt.timer.clone();
        let coll = coll.clone();
        // not joined: a thread stuck in block_on must not hang the monitor
        thread::spawn(move || {
            for ds in p {
                if ds.len() == 1 {
                    let d = ds[0];
                    let t0 = Instant::now();
                    let s = timer.sleep(d);
                    block_on(s);
                    coll.push(Rec { d, t0, t1: Instant::now(), via: "block_on" });
                } else {
                    let j = JoinN {
                        sleeps: ds.iter().map(|d| Some((timer.sleep(*d), *d))).collect(),
                        t0: None,
                        coll: coll.clone(),
                        via: "block_on_join",
                    };
                    block_on(j);
                }
            }
        });
    }
    let c2 = coll.clone();
    cx.wait_all("block_on", max_d, &move || c2.remaining.load(Ordering::SeqCst));
    let recs = coll.recs.lock().unwrap().clone();
    cx.check_recs(&recs, total);
    format!("block_on threads={} background={} durations={}", threads, conc_bucket(background), mode.name())
}

struct DropRec {
    d: Duration,
    t_before_poll: Instant,
    t_dropped: Instant,
    wakes_at_drop: usize,
    ws: Arc<WakeState>,
    polls: u8,
}

fn case_drop(cx: &mut Ctx, rt: &Rt, rng: &mut Rng) -> String {
    let threads = 1 + rng.usize(8);
    let per = log_uniform(rng, 60);
    let background = if rng.chance(0.5) { log_uniform(rng, 1500) } else { 0 };
    let bg_durs: Vec<Duration> = (0..background).map(|_| gen_dur(rng, DurMode::Uniform)).collect();
    let coll = Coll::new(background);
    if background > 0 {
        let bg_threads = 1 + rng.usize(4);
        spawn_sleeps(rt, rng, &coll, bg_durs, bg_threads);
    }
    let results: Arc<Mutex<Vec<DropRec>>> = Arc::new(Mutex::new(Vec::new()));
    let left = Arc::new(AtomicUsize::new(threads));
    let main = thread::current();
    for t in 0..threads {
        let timer = rt.timer.clone();
        let results = results.clone();
        let left = left.clone();
        let main = main.clone();
        let mut trng = rng.fork(t as u64);
        thread::spawn(move || {
            struct Live {
                s: Sleep,
                d: Duration,
                t_before_poll: Instant,
                t_after_poll: Instant,
                ws: Arc<WakeState>,
                polls: u8,
                drop_at: Duration,
            }
            let mut live: Vec<Live> = Vec::new();
            for _ in 0..per {
                let d = Duration::from_micros(150_000 + trng.below(250_000));
                let ws = WakeState::new(None);
                let w = waker(&ws);
                let mut c = Context::from_waker(&w);
                let mut s = timer.sleep(d);
                let t_before_poll = Instant::now();
                let r = Pin::new(&mut s).poll(&mut c);
                let t_after_poll = Instant::now();
                let mut polls = 1;
                if r.is_ready() {
                    continue; // cannot happen for d >= 150 ms; nothing to check then
                }
                if trng.chance(0.3) {
                    // second registration (same id, another waker instance sharing the counter)
                    let w2 = waker(&ws);
                    let mut c2 = Context::from_waker(&w2);
                    let _ = Pin::new(&mut s).poll(&mut c2);
                    polls = 2;
                }
                // drop somewhere between now and (deadline - 100 ms - safety)
                let latest = d.saturating_sub(DROP_MARGIN + Duration::from_millis(20));
                let drop_at = Duration::from_micros(trng.below(latest.as_micros() as u64 + 1));
                live.push(Live { s, d, t_before_poll, t_after_poll, ws, polls, drop_at });
            }
            live.sort_by_key(|l| l.t_before_poll + l.drop_at);
            let mut out = Vec::new();
            let mut wait_until = Instant::now();
            for l in live {
                let at = l.t_before_poll + l.drop_at;
                let now = Instant::now();
                if at > now {
                    thread::sleep(at - now);
                }
                let Live { s, d, t_before_poll, t_after_poll, ws, polls, .. } = l;
                drop(s);
                let wakes_at_drop = ws.count();
                let t_dropped = Instant::now();
                wait_until = wait_until.max(t_after_poll + d + Duration::from_millis(150));
                out.push(DropRec { d, t_before_poll, t_dropped, wakes_at_drop, ws, polls });
            }
            let now = Instant::now();
            if wait_until > now {
                thread::sleep(wait_until - now);
            }
            results.lock().unwrap().extend(out);
            left.fetch_sub(1, Ordering::SeqCst);
            main.unpark();
        });
    }
    let l2 = left.clone();
    let c2 = coll.clone();
    cx.wait_all("drop", Duration::from_millis(600), &move || l2.load(Ordering::SeqCst) + c2.remaining.load(Ordering::SeqCst));
    let recs = coll.recs.lock().unwrap().clone();
    cx.check_recs(&recs, background + threads * per);
    let res = std::mem::take(&mut *results.lock().unwrap());
    let stall_us = CTRL_MAX_LATE_US.load(Ordering::SeqCst);
    for r in &res {
        // deadline >= t_before_poll + d
        let margin_ok = r.t_dropped + DROP_MARGIN <= r.t_before_poll + r.d;
        if !margin_ok {
            cx.rep.stat("dropped_sleeps_skipped(margin<100ms)", 1);
            continue;
        }
        cx.rep.stat("dropped_sleeps_checked", 1);
        if r.polls == 2 {
            cx.rep.stat("dropped_sleeps_checked_with_two_registrations", 1);
        }
        if r.wakes_at_drop > 0 {
            cx.rep.stat("dropped_sleeps_woken_before_drop(fine)", 1);
        }
        let after = r.ws.count();
        if after > r.wakes_at_drop {
            let margin = (r.t_before_poll + r.d).duration_since(r.t_dropped);
            let what = format!(
                "Sleep({:?}) polled {}x, dropped {:?} before its deadline; waker invoked {} time(s) after the drop had returned ({} before), {} sleeps in the background",
                r.d,
                r.polls,
                margin,
                after - r.wakes_at_drop,
                r.wakes_at_drop,
                background
            );
            // The cancellation travels as a message to the timer thread. If that thread (or the whole
            // machine) was stalled for a time comparable to the margin, the late wake is a matter of
            // wall-clock scheduling, not a verdict: the OS-level control sleeper tells the two apart.
            if stall_us >= 50_000 {
                cx.rep.stat("wake_after_drop_during_machine_stall(inconclusive)", 1);
                cx.rep.inconclusive(format!("{what}; but the OS control sleeper was up to {stall_us} us late in that window: machine stall, no verdict"));
            } else {
                cx.violation("wake_after_drop".to_string(), format!("{what}; OS control sleeper max lateness in that window {stall_us} us"));
            }
        }
    }
    format!("drop threads={} per={} background={}", threads, conc_bucket(per), conc_bucket(background))
}

fn case_output(cx: &mut Ctx, rt: &Rt, rng: &mut Rng) -> String {
    let threads = 1 + rng.usize(16);
    let per = 1 + rng.usize(6);
    let total = threads * per;
    let bad: Arc<Mutex<Vec<String>>> = Arc::new(Mutex::new(Vec::new()));
    let left = Arc::new(AtomicUsize::new(total));
    let main = thread::current();
    let mut max_d = Duration::ZERO;
    for t in 0..threads {
        let mut trng = rng.fork(t as u64);
        let plan: Vec<(u8, Duration, u64)> =
            (0..per).map(|_| (trng.below(4) as u8, Duration::from_micros(trng.below(30_000)), trng.next_u64())).collect();
        max_d = max_d.max(plan.iter().map(|p| p.1).sum());
        let timer = rt.timer.clone();
        let spawner = rt.spawner.clone();
        let bad = bad.clone();
        let left = left.clone();
        let main = main.clone();
        thread::spawn(move || {
            for (kind, d, val) in plan {
                let expected = format!("v{val:x}");
                let got: String = match kind {
                    0 => {
                        // completed by another OS thread
                        let (f, a) = Flag::<String>::new();
                        let e2 = expected.clone();
                        thread::spawn(move || {
                            thread::sleep(d);
                            complete(&a, e2);
                        });
                        block_on(f)
                    }
                    1 => {
                        // completed by an executor task after a Sleep
                        let (f, a) = Flag::<String>::new();
                        let e2 = expected.clone();
                        let tm = timer.clone();
                        spawner.spawn(async move {
                            tm.sleep(d).await;
                            complete(&a, e2);
                        });
                        block_on(f)
                    }
                    2 => {
                        // already complete
                        let (f, a) = Flag::<String>::new();
                        complete(&a, expected.clone());
                        block_on(f)
                    }
                    _ => {
                        let tm = timer.clone();
                        let e2 = expected.clone();
                        block_on(async move {
                            tm.sleep(d).await;
                            e2
                        })
                    }
                };
                if got != expected {
                    bad.lock().unwrap().push(format!("block_on returned {got:?}, the future produced {expected:?} (kind {kind})"));
                }
                left.fetch_sub(1, Ordering::SeqCst);
                main.unpark();
            }
        });
    }
    let l2 = left.clone();
    cx.wait_all("block_on_output", max_d, &move || l2.load(Ordering::SeqCst));
    cx.rep.stat("block_on_outputs_checked", (total - left.load(Ordering::SeqCst)) as i128);
    for b in bad.lock().unwrap().iter() {
        cx.violation("wrong_output|via=block_on".to_string(), b.clone());
    }
    format!("block_on_output threads={}", threads)
}

struct BtRes {
    class: String,
    start: Instant,
    timeout: Duration,
    result: Result<u64, String>,
    expected: u64,
    completed_at: Option<Instant>,
    returned_at: Instant,
}

fn case_block_timeout(cx: &mut Ctx, rt: &Rt, rng: &mut Rng) -> String {
    let threads = 1 + rng.usize(16);
    let per = 1 + rng.usize(5);
    let total = threads * per;
    let background = if rng.chance(0.3) { log_uniform(rng, 1000) } else { 0 };
    let bg_durs: Vec<Duration> = (0..background).map(|_| gen_dur(rng, DurMode::Uniform)).collect();
    let coll = Coll::new(background);
    if background > 0 {
        let bg_threads = 1 + rng.usize(4);
        spawn_sleeps(rt, rng, &coll, bg_durs, bg_threads);
    }
    let results: Arc<Mutex<Vec<BtRes>>> = Arc::new(Mutex::new(Vec::new()));
    let left = Arc::new(AtomicUsize::new(total));
    let main = thread::current();
    let mut max_d = Duration::ZERO;
    for t in 0..threads {
        let mut trng = rng.fork(1000 + t as u64);
        // (completer kind, relation, d, T, value)
        let plan: Vec<(u8, u8, Duration, Duration, u64)> = (0..per)
            .map(|_| {
                let completer = trng.below(3) as u8;
                let rel = trng.below(5) as u8;
                let (d, tmo) = match rel {
                    0 => {
                        // completes well before the timeout
                        let d = Duration::from_micros(trng.below(100_000));
                        (d, d + Duration::from_micros(50_000 + trng.below(100_000)))
                    }
                    1 => {
                        // completes well after the timeout
                        let tmo = Duration::from_micros(trng.below(100_000));
                        (tmo + Duration::from_micros(50_000 + trng.below(50_000)), tmo)
                    }
                    2 => {
                        // boundary
                        let d = Duration::from_micros(5_000 + trng.below(100_000));
                        let tmo = Duration::from_micros((d.as_micros() as i64 + trng.range(-5000, 5000)).max(0) as u64);
                        (d, tmo)
                    }
                    3 => (Duration::MAX, Duration::from_micros(trng.below(50_000))), // never completes
                    _ => (Duration::ZERO, Duration::from_micros(trng.below(2) * trng.below(50_000))), // already complete
                };
                (completer, rel, d, tmo, trng.next_u64())
            })
            .collect();
        max_d = max_d.max(plan.iter().map(|p| p.3.min(Duration::from_millis(300)) + Duration::from_millis(200)).sum());
        let timer = rt.timer.clone();
        let spawner = rt.spawner.clone();
        let results = results.clone();
        let left = left.clone();
        let main = main.clone();
        thread::spawn(move || {
            for (completer, rel, d, tmo, val) in plan {
                let relname = ["early", "late", "boundary", "never", "immediate"][rel as usize];
                let mut class;
                let start;
                let r;
                let completed_at;
                if rel == 3 {
                    class = format!("never/{relname}");
                    start = Instant::now();
                    r = block_timeout(tmo, Never);
                    completed_at = None;
                } else if rel == 4 {
                    class = format!("flag/{relname}");
                    let (f, a) = Flag::<u64>::new();
                    complete(&a, val);
                    start = Instant::now();
                    r = block_timeout(tmo, f);
                    completed_at = a.lock().unwrap().completed_at;
                } else {
                    match completer {
                        0 => {
                            class = format!("os_thread/{relname}");
                            let (f, a) = Flag::<u64>::new();
                            let a2 = a.clone();
                            let h = thread::spawn(move || {
                                thread::sleep(d);
                                complete(&a2, val);
                            });
                            start = Instant::now();
                            r = block_timeout(tmo, f);
                            let _ = h.join();
                            completed_at = a.lock().unwrap().completed_at;
                        }
                        1 => {
                            class = format!("executor_task_sleep/{relname}");
                            let (f, a) = Flag::<u64>::new();
                            let a2 = a.clone();
                            let tm = timer.clone();
                            spawner.spawn(async move {
                                tm.sleep(d).await;
                                complete(&a2, val);
                            });
                            start = Instant::now();
                            r = block_timeout(tmo, f);
                            // give the completer the chance to finish so that its instant is known
                            let t_wait = Instant::now();
                            while a.lock().unwrap().completed_at.is_none() && t_wait.elapsed() < d + Duration::from_secs(2) {
                                thread::sleep(Duration::from_millis(2));
                            }
                            completed_at = a.lock().unwrap().completed_at;
                        }
                        _ => {
                            class = format!("direct_sleep/{relname}");
                            let st = Arc::new(ProbeSt { woken_at: Mutex::new(None) });
                            let p = Probe { s: timer.sleep(d), st: st.clone(), out: val };
                            start = Instant::now();
                            r = block_timeout(tmo, p);
                            completed_at = *st.woken_at.lock().unwrap();
                        }
                    }
                }
                let returned_at = Instant::now();
                let result = match r {
                    Ok(v) => Ok(v),
                    Err(DdsError::Timeout) => Err("Timeout".to_string()),
                    Err(e) => Err(format!("{e:?}")),
                };
                class.push_str(if result.is_ok() { "->Ok" } else { "->Timeout" });
                results.lock().unwrap().push(BtRes { class, start, timeout: tmo, result, expected: val, completed_at, returned_at });
                left.fetch_sub(1, Ordering::SeqCst);
                main.unpark();
            }
        });
    }
    let l2 = left.clone();
    let c2 = coll.clone();
    cx.wait_all("block_timeout", max_d, &move || l2.load(Ordering::SeqCst) + c2.remaining.load(Ordering::SeqCst));
    let recs = coll.recs.lock().unwrap().clone();
    cx.check_recs(&recs, background + threads);
    let res = std::mem::take(&mut *results.lock().unwrap());
    for r in &res {
        cx.rep.stat("block_timeout_cases", 1);
        cx.rep.stat(&format!("block_timeout[{}]", r.class), 1);
        cx.rep.set("block_timeout_classes", r.class.clone());
        match &r.result {
            Ok(v) => {
                if *v != r.expected {
                    cx.violation(
                        "wrong_output|via=block_timeout".to_string(),
                        format!("block_timeout returned Ok({v}) but the future produced {} [{}]", r.expected, r.class),
                    );
                }
            }
            Err(e) if e == "Timeout" => {
                if let Some(c) = r.completed_at {
                    if c + BOUNDARY < r.start + r.timeout {
                        cx.violation(
                            "spurious_timeout".to_string(),
                            format!(
                                "block_timeout({:?}) returned Timeout after {:?}, but the future was complete (value stored, waker invoked) {:?} after the start, i.e. {:?} before the timeout [{}]",
                                r.timeout,
                                r.returned_at.duration_since(r.start),
                                c.duration_since(r.start),
                                (r.start + r.timeout).duration_since(c),
                                r.class
                            ),
                        );
                    }
                }
            }
            Err(e) => {
                cx.violation(
                    "wrong_output|via=block_timeout".to_string(),
                    format!("block_timeout returned Err({e}) which is neither the future's output nor Timeout [{}]", r.class),
                );
            }
        }
    }
    format!("block_timeout threads={} background={}", threads, conc_bucket(background))
}


/// A Sleep that is polled by more than one waiter before its deadline (waker migration), or whose
/// deadline is (re)started with `reset()`: the *latest* waiter must be woken after the deadline.
///   mode 0: block_timeout(T < d, &mut sleep) times out, then block_on(&mut sleep) (same thread, fresh waker)
///   mode 1: polled once by hand with a counting waker, then moved to another thread and block_on there
///   mode 2: reset() before the first poll, then block_on
///   mode 3: polled once by hand, reset() (deadline moves), then block_on on another thread
/// Records use t0 = instant before the first poll (modes 0,1) resp. before the last reset (modes 2,3).
fn case_repoll(cx: &mut Ctx, rt: &Rt, rng: &mut Rng) -> String {
    let threads = 1 + rng.usize(12);
    let per = 1 + rng.usize(3);
    let total = threads * per;
    let coll = Coll::new(total);
    let mut max_d = Duration::ZERO;
    for t in 0..threads {
        let mut trng = rng.fork(7000 + t as u64);
        let plan: Vec<(u8, Duration, Duration)> = (0..per)
            .map(|_| {
                let mode = trng.below(4) as u8;
                let d = Duration::from_micros(20_000 + trng.below(180_000));
                // time spent with the first waiter: strictly inside the sleep
                let first = Duration::from_micros(1_000 + trng.below((d.as_micros() as u64 / 2).max(1)));
                (mode, d, first)
            })
            .collect();
        max_d = max_d.max(plan.iter().map(|p| p.1 + p.2 + Duration::from_millis(50)).sum());
        let timer = rt.timer.clone();
        let coll = coll.clone();
        // not joined: a thread stuck in block_on must not hang the monitor
        thread::spawn(move || {
            for (mode, d, first) in plan {
                let mut s = timer.sleep(d);
                match mode {
                    0 => {
                        let t0 = Instant::now();
                        let r = block_timeout(first, &mut s);
                        if r.is_ok() {
                            // completed within `first` < d: early (checked by the record below)
                            coll.push(Rec { d, t0, t1: Instant::now(), via: "repoll_timeout_then_block_on" });
                            continue;
                        }
                        block_on(&mut s);
                        coll.push(Rec { d, t0, t1: Instant::now(), via: "repoll_timeout_then_block_on" });
                    }
                    1 | 3 => {
                        let ws = WakeState::new(None);
                        let w = waker(&ws);
                        let mut t0 = Instant::now();
                        let ready = Pin::new(&mut s).poll(&mut Context::from_waker(&w)).is_ready();
                        if ready {
                            coll.push(Rec { d, t0, t1: Instant::now(), via: "repoll_migrated" });
                            continue;
                        }
                        thread::sleep(first);
                        let via = if mode == 3 {
                            t0 = Instant::now();
                            s.reset();
                            "repoll_reset_after_poll"
                        } else {
                            "repoll_migrated"
                        };
                        let coll2 = coll.clone();
                        // the sleep migrates to another thread (and another waker)
                        thread::spawn(move || {
                            block_on(&mut s);
                            coll2.push(Rec { d, t0, t1: Instant::now(), via });
                        });
                    }
                    _ => {
                        thread::sleep(first);
                        let t0 = Instant::now();
                        s.reset();
                        block_on(&mut s);
                        coll.push(Rec { d, t0, t1: Instant::now(), via: "repoll_reset_before_poll" });
                    }
                }
            }
        });
    }
    let c2 = coll.clone();
    cx.wait_all("repoll", max_d, &move || c2.remaining.load(Ordering::SeqCst));
    let recs = coll.recs.lock().unwrap().clone();
    cx.check_recs(&recs, total);
    format!("repoll threads={}", threads)
}

// ------------------------------------------------------------------------------------------ driver

pub fn run(args: &Args, rep: &mut Report, shard: u64, nshards: u64) {
    let seed = args.u64("seed", 1);
    let cases = args.u64("cases", 400);
    let mut share = cases / nshards + if shard < cases % nshards { 1 } else { 0 };
    let max_secs = args.u64("max-secs", 0);
    let only = args.str("only", "");
    thread::Builder::new().name("control".into()).spawn(control_thread).unwrap();

    let mut stream = shard;
    let mut first_case = 0u64;
    let mut reps = 1u64;
    if args.has("replay") {
        let mut ok = false;
        if let Ok(txt) = std::fs::read_to_string(args.str("replay", "")) {
            if let Ok(j) = Json::parse(&txt) {
                if let Some(r) = j.get("witnesses").and_then(|w| w.as_arr()).and_then(|a| a.first()).and_then(|w| w.get("replay")) {
                    if let (Some(s), Some(c)) = (r.get("stream").and_then(|x| x.as_u64()), r.get("case").and_then(|x| x.as_u64())) {
                        stream = s;
                        first_case = c;
                        share = 1;
                        reps = args.u64("replay-reps", 20);
                        ok = true;
                    }
                }
            }
        }
        if !ok {
            rep.inconclusive("replay file not understood");
            return;
        }
    }

    let t0 = Instant::now();
    let shared_rt = new_rt();
    let mut runtimes_created = 1;
    'outer: for _ in 0..reps {
        for case_no in first_case..first_case + share {
            let mut rng = Rng::new(mix(mix(seed, 0xC42 ^ (stream << 20)), case_no));
            let fresh = rng.chance(0.12);
            let local;
            let rt = if fresh {
                runtimes_created += 1;
                local = new_rt();
                &local
            } else {
                &shared_rt
            };
            let kind = match only.as_str() {
                "spawn" => 0,
                "block_on" => 5,
                "drop" => 6,
                "output" => 8,
                "block_timeout" => 9,
                "repoll" => 10,
                _ => rng.below(12),
            };
            let replay = Json::obj()
                .set("engine", "thr")
                .set("cmd", "c42")
                .set("seed", seed)
                .set("stream", stream)
                .set("case", case_no)
                .set("note", "wall-clock timings are not reproducible bit for bit: --replay re-runs this case --replay-reps times");
            let mut cx = Ctx { rep, replay, abort: false };
            let desc = match kind {
                0..=4 => case_spawn(&mut cx, rt, &mut rng),
                5 => case_block_on(&mut cx, rt, &mut rng),
                6..=7 => case_drop(&mut cx, rt, &mut rng),
                8 => case_output(&mut cx, rt, &mut rng),
                9 => case_block_timeout(&mut cx, rt, &mut rng),
                _ => case_repoll(&mut cx, rt, &mut rng),
            };
            let abort = cx.abort;
            rep.eval();
            let class = format!("{desc} rt={}", if fresh { "fresh" } else { "shared" });
            rep.nontrivial(fnv_str(&class));
            rep.stat(&format!("cases_{}", desc.split(' ').next().unwrap_or("?")), 1);
            if rep.samples.len() < 4 && rep.samples.iter().all(|s| !s.to_string().contains(desc.split(' ').next().unwrap_or("?"))) {
                rep.sample(Json::obj().set("case", case_no).set("class", class));
            }
            if abort {
                rep.inconclusive(format!("shard stopped after case {case_no}: threads may be stuck"));
                break 'outer;
            }
            if max_secs > 0 && t0.elapsed().as_secs() >= max_secs {
                rep.stat("stopped_by_time_budget", 1);
                break 'outer;
            }
        }
    }
    rep.stat("runtimes_created", runtimes_created);
    rep.maxstat("os_control_sleeper_max_lateness_us", CTRL_MAX_LATE_TOTAL_US.load(Ordering::SeqCst) as i128);
    rep.stat("os_control_sleeper_ticks", CTRL_TICKS.load(Ordering::SeqCst) as i128);
    rep.maxstat("wall_ms", t0.elapsed().as_millis() as i128);
    CTRL_STOP.store(true, Ordering::SeqCst);
}
