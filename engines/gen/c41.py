"""C41: IDL compiler output matches the IDL declarations.

Model + generator of IDL specifications inside the subset exercised by /repo/dds_gen/tests/*.idl,
/repo/dds_gen/README.md (preprocessor directives, @key) and the IDL example of /repo/README.md,
emitter of the dumping program, and oracle."""
import json, re

from common import Rng, h64

# idl spelling -> (rust type emitted by the generator, acceptable TypeKinds)
BASE_TYPES = {
    "boolean": ("bool", ["BOOLEAN"]),
    "char": ("char", ["CHAR8"]),
    "wchar": ("char", ["CHAR16"]),
    "octet": ("u8", ["BYTE", "UINT8"]),
    "short": ("i16", ["INT16"]), "int16": ("i16", ["INT16"]),
    "unsigned short": ("u16", ["UINT16"]), "uint16": ("u16", ["UINT16"]),
    "long": ("i32", ["INT32"]), "int32": ("i32", ["INT32"]),
    "unsigned long": ("u32", ["UINT32"]), "uint32": ("u32", ["UINT32"]),
    "long long": ("i64", ["INT64"]), "int64": ("i64", ["INT64"]),
    "unsigned long long": ("u64", ["UINT64"]), "uint64": ("u64", ["UINT64"]),
    "int8": ("i8", ["INT8"]), "uint8": ("u8", ["UINT8"]),
    "float": ("f32", ["FLOAT32"]), "double": ("f64", ["FLOAT64"]),
}
INT_RANGE = {"short": (-2**15, 2**15 - 1), "int16": (-2**15, 2**15 - 1), "unsigned short": (0, 2**16 - 1), "uint16": (0, 2**16 - 1),
             "long": (-2**31, 2**31 - 1), "int32": (-2**31, 2**31 - 1), "unsigned long": (0, 2**32 - 1), "uint32": (0, 2**32 - 1),
             "long long": (-2**63, 2**63 - 1), "int64": (-2**63, 2**63 - 1), "unsigned long long": (0, 2**64 - 1), "uint64": (0, 2**64 - 1),
             "int8": (-128, 127), "uint8": (0, 255), "octet": (0, 255)}
SWITCH_TYPES = ["short", "long", "unsigned long", "int8", "uint8", "int16", "uint16", "int32", "uint32", "long long", "unsigned short"]
MEMBER_WORDS = ["x", "y", "z", "id", "name", "value", "count", "speed", "color", "width", "height", "flags", "stamp", "seq",
                "payload", "level", "code", "state", "owner", "lat", "lon", "alt", "temp", "mass", "label", "data", "msg", "text",
                "items", "points", "first", "second", "qux", "qix", "line", "column", "active", "words", "depth", "rate"]
RUST_KEYWORD_MEMBERS = ["type", "ref", "match", "loop", "move", "fn", "impl", "use", "mod", "where"]
TYPE_WORDS = ["Point", "Shape", "Sensor", "Track", "Frame", "Packet", "Status", "Config", "Reading", "Pose", "Cmd", "Event",
              "Header", "Sample", "Record", "Node", "Item", "Color", "Mode", "Kind", "Level", "Phase", "Suit", "Square"]
MODULE_WORDS = ["Game", "Chess", "Cards", "foo", "frob", "nav", "geo", "msgs", "v2", "sys", "root", "a", "b"]
ENUM_WORDS = ["Red", "Green", "Blue", "On", "Off", "Idle", "Busy", "Low", "Mid", "High", "North", "South", "Open", "Closed",
              "Pawn", "Rook", "Knight", "Spades", "Hearts", "CONTINUE", "OK", "NOT_FOUND", "Present", "NotPresent"]


# ------------------------------------------------------------------------------------------------
# type specs
# ------------------------------------------------------------------------------------------------

def idl_type(t):
    k = t["k"]
    if k == "base":
        return t["idl"]
    if k == "string":
        s = "wstring" if t["wide"] else "string"
        return s if t["bound"] is None else "%s<%s>" % (s, t["bound_src"])
    if k == "seq":
        inner = idl_type(t["e"])
        # `N>>` (a bound directly followed by two closing brackets) lexes as a shift operator in a
        # strict IDL lexer; dds_gen's own tests write `2> >` there, so a space is always emitted
        # after a bounded inner type.  Unbounded `sequence<sequence<octet>>` appears in the tests.
        bounded_inner = t["e"]["k"] in ("string", "seq") and t["e"].get("bound") is not None
        sp = " " if inner.endswith(">") and (bounded_inner or t.get("space", True)) else ""
        return "sequence<%s%s>" % (inner, sp) if t["bound"] is None else "sequence<%s, %s>" % (inner, t["bound_src"])
    if k == "name":
        return t["ref"]
    raise ValueError(k)


def type_class(t):
    k = t["k"]
    if k == "base":
        return t["idl"].replace(" ", "_")
    if k == "string":
        return ("wstring" if t["wide"] else "string") + ("<N>" if t["bound"] is not None else "")
    if k == "seq":
        return "sequence<%s%s>" % (type_class(t["e"]), ",N" if t["bound"] is not None else "")
    if k == "name":
        return t["target_kind"] + ("(abs)" if t["ref"].startswith("::") else "")
    raise ValueError(k)


def type_targets(t, out):
    if t["k"] == "name":
        out.append(tuple(t["path"]))
    elif t["k"] == "seq":
        type_targets(t["e"], out)


class SpecGen:
    """Generates one IDL specification + model."""

    def __init__(self, rng, index):
        self.r = rng
        self.index = index
        self.names = set()
        self.defs = []           # flat list of all definitions (dicts) in declaration order
        self.by_path = {}
        self.defines = []        # [(macro, value)] emitted before everything else
        self.counter = 0

    def fresh(self, words, suffix_p=0.5):
        r = self.r
        for _ in range(100):
            n = r.choice(words)
            if r.chance(suffix_p) or n in self.names:
                n = "%s%d" % (n, r.below(90) + 1)
            if n not in self.names and n.lower() not in [x.lower() for x in self.names]:
                self.names.add(n)
                return n
        self.counter += 1
        n = "%s_%d" % (r.choice(words), 1000 + self.counter)
        self.names.add(n)
        return n

    # ---------------------------------------------------------------- visibility
    def visible(self, scope, kinds):
        """[(def, reference text)] of earlier definitions usable from `scope` in the supported way:
        same scope by simple name; anything by absolute name when inside a module."""
        out = []
        for d in self.defs:
            if d["k"] not in kinds:
                continue
            if d["scope"] == scope:
                out.append((d, d["name"]))
            elif len(scope) >= 1:
                out.append((d, "::" + "::".join(d["scope"] + [d["name"]])))
        return out

    def name_ref(self, scope, kinds):
        c = self.visible(scope, kinds)
        if not c:
            return None
        d, ref = self.r.choice(c[-10:])
        return {"k": "name", "ref": ref, "path": d["scope"] + [d["name"]], "target_kind": d["k"]}

    def bound(self):
        """(value, source text)"""
        r = self.r
        if self.defines and r.chance(0.3):
            m, v = r.choice(self.defines)
            return int(v), m
        v = r.choice([1, 2, 3, 4, 8, 16, 64, 128, 256])
        return v, str(v)

    def base(self, allow_wide=True):
        r = self.r
        names = list(BASE_TYPES)
        if not allow_wide:
            names.remove("wchar")
        return {"k": "base", "idl": r.choice(names)}

    def type_spec(self, scope, depth=0, for_union=False):
        r = self.r
        c = r.below(100)
        if c < 45:
            return self.base()
        if c < 57:
            t = {"k": "string", "wide": r.chance(0.25), "bound": None, "bound_src": None}
            if r.chance(0.3):
                t["bound"], t["bound_src"] = self.bound()
            return t
        if c < 75 and depth < 2:
            e = self.type_spec(scope, depth + 1)
            t = {"k": "seq", "e": e, "bound": None, "bound_src": None, "space": r.chance(0.5)}
            if r.chance(0.3):
                t["bound"], t["bound_src"] = self.bound()
            return t
        ref = self.name_ref(scope, ("struct", "enum", "union", "typedef"))
        return ref or self.base()

    # ---------------------------------------------------------------- definitions
    def gen_struct(self, scope):
        r = self.r
        d = {"k": "struct", "name": self.fresh(TYPE_WORDS), "scope": list(scope)}
        d["ext"] = r.weighted([(None, 4), ("final", 2), ("appendable", 3), ("mutable", 4)])
        d["extra_ann"] = ["topic"] if r.chance(0.06) else []
        d["base"] = None
        if r.chance(0.12):
            cands = [(x, ref) for x, ref in self.visible(scope, ("struct",)) if x.get("base_depth", 0) < 2]
            if cands:
                p, ref = r.choice(cands)
                d["base"] = {"k": "name", "ref": ref, "path": p["scope"] + [p["name"]], "target_kind": "struct"}
                d["ext"] = p["ext"]
                d["base_depth"] = p.get("base_depth", 0) + 1
        inherited = [m["name"] for m in self.flat_members(d)] if d["base"] else []
        names = set(inherited) | {"parent"}
        members = []
        for _ in range(r.range(1, 6)):
            ann = []
            if r.chance(0.2):
                ann.append("key")
            elif r.chance(0.15):
                ann.append("optional")
            id_ = None
            if r.chance(0.4 if d["ext"] == "mutable" else 0.1):
                id_ = r.choice([r.below(30), r.below(300), r.below(0x3000), r.below(0x0FFFFFFF)])
                ann.append("id")
            r.shuffle(ann)
            ty = self.type_spec(scope)
            decls = []
            for _ in range(1 if r.chance(0.85) else 2):
                if r.chance(0.008):
                    n = r.choice(RUST_KEYWORD_MEMBERS)
                else:
                    n = r.choice(MEMBER_WORDS) + (str(r.below(10)) if r.chance(0.25) else "")
                if n in names:
                    continue
                names.add(n)
                arr = None
                if r.chance(0.2):
                    v, src = self.bound()
                    if r.chance(0.15) and src.isdigit() and v > 2:
                        src = "%d - %d" % (v + 3, 3)
                    arr = {"n": v, "src": src}
                decls.append({"name": n, "arr": arr})
            if not decls:
                continue
            if id_ is not None and len(decls) > 1:
                decls = decls[:1]
            members.append({"ann": ann, "id": id_, "ty": ty, "decls": decls})
        if not members:
            members.append({"ann": [], "id": None, "ty": {"k": "base", "idl": "long"}, "decls": [{"name": "only" if "only" not in names else "only2", "arr": None}]})
        d["members"] = members
        # explicit ids must stay distinct from automatic ones (previous + 1)
        for _ in range(8):
            ids = [m["id_exp"] for m in self.flat_members(d)]
            if len(set(ids)) == len(ids):
                break
            for m in reversed(members):
                if m["id"] is not None:
                    m["id"] = None
                    m["ann"].remove("id")
                    break
        return d

    def flat_members(self, d):
        """effective member list (base members first) with expected ids"""
        out = []
        if d.get("base"):
            out += [dict(m, inherited=True) for m in self.flat_members(self.by_path[tuple(d["base"]["path"])])]
        prev = out[-1]["id_exp"] if out else -1
        for mi, m in enumerate(d.get("members", [])):
            for di, dc in enumerate(m["decls"]):
                if m["id"] is not None:
                    id_exp, src = m["id"], "id"
                else:
                    id_exp, src = prev + 1, "auto"
                prev = id_exp
                out.append({"name": dc["name"], "arr": dc["arr"], "ty": m["ty"], "key": "key" in m["ann"], "optional": "optional" in m["ann"],
                            "id_exp": id_exp, "id_src": src, "ann": m["ann"], "decl_index": di, "inherited": False})
        return out

    def gen_enum(self, scope):
        r = self.r
        d = {"k": "enum", "name": self.fresh(TYPE_WORDS), "scope": list(scope)}
        d["bit_bound"] = r.weighted([(None, 6), (8, 1), (16, 2), (32, 1)])
        hi = {None: 2**31 - 1, 8: 127, 16: 32767, 32: 2**31 - 1}[d["bit_bound"]]
        n = r.range(1, 6)
        mode = r.weighted([("none", 6), ("all", 3), ("tail", 1)])
        first_valued = 0 if mode == "all" else (r.range(1, n) if mode == "tail" else n)
        cur = -1
        es = []
        for i in range(n):
            name = self.fresh(ENUM_WORDS, 0.3)
            val = None
            if i >= first_valued:
                room = hi - (n - i) - cur
                if room > 1:
                    val = cur + max(1, min(r.choice([1, 2, 10, 100, 1000]), room - 1))
            v = val if val is not None else cur + 1
            cur = v
            es.append({"name": name, "value_ann": val, "value": v})
        d["enumerators"] = es
        return d

    def gen_union(self, scope):
        r = self.r
        d = {"k": "union", "name": self.fresh(TYPE_WORDS), "scope": list(scope)}
        sw = r.choice(SWITCH_TYPES)
        d["switch"] = {"k": "base", "idl": sw}
        lo, hi = INT_RANGE[sw]
        hi = min(hi, 2**31 - 1)
        used = set()
        names = set()
        cases = []
        n = r.range(1, 4)
        default_at = r.below(n) if r.chance(0.4) else None
        if default_at is not None and r.chance(0.6):
            default_at = n - 1
        for i in range(n):
            labels = []
            for _ in range(1 if r.chance(0.75) else r.range(2, 3)):
                for _ in range(20):
                    v = r.choice([r.range(0, 12), r.range(0, min(hi, 200)), r.range(0, hi)])
                    if v not in used:
                        used.add(v)
                        labels.append(v)
                        break
            if default_at == i:
                if r.chance(0.5):
                    labels = []
                labels.insert(r.below(len(labels) + 1), "default")
            if not labels:
                continue
            nm = r.choice(MEMBER_WORDS) + (str(r.below(10)) if r.chance(0.3) else "")
            if nm in names:
                continue
            names.add(nm)
            arr = None
            if r.chance(0.12):
                v, src = self.bound()
                arr = {"n": v, "src": src}
            cases.append({"labels": labels, "ty": self.type_spec(scope, 1), "name": nm, "arr": arr})
        if not cases:
            cases.append({"labels": [1], "ty": {"k": "base", "idl": "long"}, "name": "only", "arr": None})
        d["cases"] = cases
        return d

    def gen_typedef(self, scope):
        r = self.r
        d = {"k": "typedef", "name": self.fresh(TYPE_WORDS + ["Bar", "Car", "Synonym"]), "scope": list(scope)}
        c = r.below(10)
        if c < 5:
            d["ty"] = self.base()
        elif c < 7:
            d["ty"] = self.type_spec(scope, 1)
        else:
            d["ty"] = self.name_ref(scope, ("struct", "enum", "typedef")) or self.base()
        return d

    def gen_const(self, scope):
        r = self.r
        d = {"k": "const", "name": self.fresh(["MY_CONST", "MAX_SIZE", "LIMIT", "DEFAULT_RATE", "VERSION", "NAME_OF", "FLAG"], 0.8).upper(),
             "scope": list(scope)}
        ct = r.choice(["short", "unsigned short", "long", "unsigned long", "long long", "unsigned long long", "float", "double", "char",
                       "boolean", "octet", "string", "int8", "uint8", "int16", "uint16", "int32", "uint32", "int64", "uint64"])
        d["ctype"] = ct
        if ct in INT_RANGE:
            lo, hi = INT_RANGE[ct]
            v = r.choice([0, 1, 7, r.range(lo, hi), lo, hi, r.range(max(lo, -100), min(hi, 100))])
            d["src"], d["expect"] = str(v), str(v)
        elif ct in ("float", "double"):
            v = r.choice(["1.5", "2.5", "0.25", "-3.75", "100.0", "6.02e3"])
            d["src"], d["expect"] = v, repr(float(v))
        elif ct == "char":
            ch = r.choice("abcxyzQ7")
            d["src"], d["expect"] = "'%s'" % ch, "'%s'" % ch
        elif ct == "boolean":
            b = r.chance(0.5)
            d["src"], d["expect"] = ("TRUE" if b else "FALSE"), ("true" if b else "false")
        else:
            s = r.choice(["BAR", "hello world", "x", "dust-dds", ""])
            d["src"], d["expect"] = '"%s"' % s, '"%s"' % s
        return d

    def add(self, d):
        self.defs.append(d)
        self.by_path[tuple(d["scope"] + [d["name"]])] = d
        deps = []
        if d["k"] == "struct":
            if d["base"]:
                deps.append(tuple(d["base"]["path"]))
            for m in d["members"]:
                type_targets(m["ty"], deps)
        elif d["k"] == "union":
            for c in d["cases"]:
                type_targets(c["ty"], deps)
        elif d["k"] == "typedef":
            type_targets(d["ty"], deps)
        d["deps"] = sorted(set(deps))
        return d

    def gen_def(self, scope):
        kind = self.r.weighted([("struct", 50), ("enum", 15), ("union", 15), ("typedef", 10), ("const", 10)])
        return self.add(getattr(self, "gen_" + kind)(scope))

    def generate(self):
        r = self.r
        # preprocessor: object-like defines used as bounds / array sizes (README: #define supported)
        if r.chance(0.3):
            for _ in range(r.range(1, 2)):
                m = "%s_%d" % (r.choice(["MAX_LEN", "ARR_SIZE", "BOUND", "NITEMS"]), r.below(90) + 10)
                if m not in [x[0] for x in self.defines]:
                    self.defines.append((m, str(r.choice([2, 3, 4, 5, 8, 16]))))
        self.tree = []           # nested structure for emission: ("def", d) | ("module", name, [...]) | ("ifdef"/"ifndef", macro, defined, [...])
        total = r.range(3, 9)
        made = [0]

        def fill(scope, body, depth):
            n_here = r.range(1, 4)
            for _ in range(n_here):
                if made[0] >= total:
                    break
                if depth < 3 and r.chance(0.25 if depth == 0 else 0.2):
                    mname = self.fresh(MODULE_WORDS, 0.2)
                    sub = []
                    fill(scope + [mname], sub, depth + 1)
                    if sub:
                        body.append(("module", mname, sub))
                    continue
                d = self.gen_def(scope)
                made[0] += 1
                body.append(("def", d))

        while made[0] < total:
            fill([], self.tree, 0)
        # conditional compilation at file scope: definitions nobody depends on may be wrapped
        self.cond_macros = []
        if r.chance(0.25):
            used_paths = set(p for d in self.defs for p in d["deps"])
            for i, node in enumerate(self.tree):
                if node[0] == "def" and tuple(node[1]["scope"] + [node[1]["name"]]) not in used_paths and r.chance(0.4):
                    macro = "WITH_%s" % node[1]["name"].upper()
                    defined = r.chance(0.5)
                    directive = r.choice(["ifdef", "ifndef"])
                    present = (directive == "ifdef") == defined
                    node[1]["present"] = present
                    self.tree[i] = (directive, macro, defined, [node])
        self.use_include = r.chance(0.15)
        self.include_name = "spec_%d_inc.idl" % self.index
        # probe: an identifier that merely contains the name of an object-like macro
        self.probe_names = []
        if self.defines and r.chance(0.12):
            structs = [d for d in self.defs if d["k"] == "struct"]
            if structs:
                d = r.choice(structs)
                nm = self.defines[0][0] + "_x"
                d["members"].append({"ann": [], "id": None, "ty": {"k": "base", "idl": "long"}, "decls": [{"name": nm, "arr": None}]})
                self.probe_names.append(nm)
        return self

    # ---------------------------------------------------------------- emission
    def emit(self):
        """Returns (main idl text, include text or None, pre_tags) where pre_tags[i] is the tag
        (def path tuple, part) of line i+1 of the text *after preprocessing* (directive lines and
        excluded blocks vanish, the include file is inlined) - the text pest error positions refer to."""
        main, inc, pre = [], [], []
        for m, v in self.defines:
            main.append("#define %s %s" % (m, v))
        for node in self.tree:
            if node[0] in ("ifdef", "ifndef") and node[2]:
                main.append("#define %s" % node[1])
        inc_nodes = []
        nodes = list(self.tree)
        if getattr(self, "use_include", False):
            while nodes and nodes[0][0] == "def" and len(inc_nodes) < 2:
                inc_nodes.append(nodes.pop(0))

        def has_content(node):
            if node[0] == "def":
                return not node[1].get("removed")
            if node[0] == "module":
                return any(has_content(n) for n in node[2])
            return any(has_content(n) for n in node[3])

        def emit_nodes(nodes, ind, out, visible):
            for node in nodes:
                if not has_content(node):
                    continue
                if node[0] == "module":
                    out.append("%smodule %s {" % (ind, node[1]))
                    if visible:
                        pre.append((None, "module"))
                    emit_nodes(node[2], ind + "    ", out, visible)
                    out.append("%s};" % ind)
                    if visible:
                        pre.append((None, "module"))
                elif node[0] in ("ifdef", "ifndef"):
                    out.append("#%s %s" % (node[0], node[1]))
                    emit_nodes(node[3], ind, out, visible and ((node[0] == "ifdef") == node[2]))
                    out.append("#endif")
                else:
                    d = node[1]
                    for line, part in def_idl_lines(d):
                        out.append(ind + line)
                        if visible:
                            pre.append((tuple(d["scope"] + [d["name"]]), part))
        if inc_nodes and any(has_content(n) for n in inc_nodes):
            main.append('#include "%s"' % self.include_name)
            emit_nodes(inc_nodes, "", inc, True)
            pre.append((None, "eof"))          # the preprocessor terminates every file with a newline
        emit_nodes(nodes, "", main, True)
        return "\n".join(main) + "\n", ("\n".join(inc) + "\n") if inc else None, pre


def def_idl_lines(d):
    """[(line, part)] part: head | member:<i> | case:<i> | tail"""
    k = d["k"]
    out = []
    if k == "struct":
        anns = list(d["extra_ann"])
        if d["ext"]:
            anns.append(d["ext"])
        if anns:
            out.append((" ".join("@" + a for a in anns), "head"))
        head = "struct %s" % d["name"]
        if d["base"]:
            head += " : %s" % d["base"]["ref"]
        out.append((head + " {", "head"))
        for i, m in enumerate(d["members"]):
            ann = ""
            for a in m["ann"]:
                ann += "@id(%d) " % m["id"] if a == "id" else "@%s " % a
            decls = ", ".join(dc["name"] + ("[%s]" % dc["arr"]["src"] if dc["arr"] else "") for dc in m["decls"])
            out.append(("    %s%s %s;" % (ann, idl_type(m["ty"]), decls), "member:%d" % i))
        out.append(("};", "tail"))
    elif k == "enum":
        if d["bit_bound"] is not None:
            out.append(("@bit_bound(%d)" % d["bit_bound"], "head"))
        es = []
        for e in d["enumerators"]:
            es.append(("@value(%d) " % e["value_ann"] if e["value_ann"] is not None else "") + e["name"])
        out.append(("enum %s { %s };" % (d["name"], ", ".join(es)), "head"))
    elif k == "union":
        out.append(("union %s switch(%s) {" % (d["name"], idl_type(d["switch"])), "head"))
        for i, c in enumerate(d["cases"]):
            for l in c["labels"]:
                out.append(("    default:" if l == "default" else "    case %d:" % l, "case:%d" % i))
            out.append(("        %s %s%s;" % (idl_type(c["ty"]), c["name"], "[%s]" % c["arr"]["src"] if c["arr"] else ""), "case:%d" % i))
        out.append(("};", "tail"))
    elif k == "typedef":
        out.append(("typedef %s %s;" % (idl_type(d["ty"]), d["name"]), "head"))
    elif k == "const":
        out.append(("const %s %s = %s;" % (d["ctype"], d["name"], d["src"]), "head"))
    else:
        raise ValueError(k)
    return out


def def_idl(d):
    return "\n".join(l for l, _ in def_idl_lines(d))


def closes_with_shift(t):
    """a bound directly followed by the closing '>' of an enclosing template: `...N>>`"""
    return re.search(r"[0-9A-Za-z_]>>", idl_type(t)) is not None and re.search(r"(,\s*\w+|string<\w+)>>", idl_type(t)) is not None


def part_tag(sg, d, part):
    """construct tag of a part of a definition (for signatures): a short fixed vocabulary"""
    k = d["k"]
    if part and part.startswith("member:") and k == "struct":
        m = d["members"][int(part.split(":")[1])]
        if any(dc["name"] in getattr(sg, "probe_names", ()) for dc in m["decls"]):
            return "identifier_containing_macro_name"
        if any(dc["name"] in RUST_KEYWORD_MEMBERS for dc in m["decls"]):
            return "member_named_like_rust_keyword"
        if closes_with_shift(m["ty"]):
            return "bound_followed_by_>>"
        t = type_class(m["ty"])
        if any(dc["arr"] for dc in m["decls"]):
            t += "[N]"
        if m["ann"]:
            t += "+" + "+".join("@" + a for a in sorted(m["ann"]))
        return "struct_member:" + t
    if part and part.startswith("case:") and k == "union":
        c = d["cases"][int(part.split(":")[1])]
        if closes_with_shift(c["ty"]):
            return "bound_followed_by_>>"
        return "union_case:%s%s" % (type_class(c["ty"]), "[N]" if c["arr"] else "")
    if k == "struct":
        return "struct" + ("+@" + d["ext"] if d["ext"] else "") + ("+inheritance" if d["base"] else "")
    if k == "enum":
        return "enum+@bit_bound" if d["bit_bound"] is not None else ("enum+@value" if any(e["value_ann"] is not None for e in d["enumerators"]) else "enum")
    if k == "union":
        return "union"
    if k == "typedef":
        if closes_with_shift(d["ty"]):
            return "bound_followed_by_>>"
        return "typedef:" + type_class(d["ty"])
    return "const_" + d["ctype"].replace(" ", "_")


def classify_rustc(sg, d, part, diag):
    """construct tag for a rustc error: message based classes for errors that rustc reports at the
    derive attribute (no member position), otherwise the tag of the part the span points at"""
    msg = diag.get("message", "")
    code = (diag.get("code") or {}).get("code") or "derive"
    tys = re.findall(r"`([^`]*)`", msg)
    t0 = tys[0] if tys else ""
    if code == "E0277" and "DataStorageMapping" in msg or code == "E0277" and ": Type" in msg or (code == "E0277" and "TypeSupport" in msg):
        if "Vec<Vec<" in t0:
            return "sequence_of_sequence"
        if re.search(r"\[Vec<", t0):
            return "array_of_sequence"
        return "type:" + re.sub(r"\b(?!Vec\b|Option\b|Box\b)[A-Za-z_][A-Za-z0-9_:]*\b", "_", re.sub(r"\d+", "N", t0))[:40]
    if code == "E0369" and "Option<" in msg:
        return "@optional_member_of_constructed_type"
    if code == "E0599" and "set_value" in msg:
        return "union_case_member_named_data"
    return part_tag(sg, d, part)


# ------------------------------------------------------------------------------------------------
# dumping program
# ------------------------------------------------------------------------------------------------

BIN_HEAD = """#![allow(dead_code, unused, non_camel_case_types, non_snake_case, non_upper_case_globals, unreachable_patterns, clippy::all)]
#[path = "../prelude.rs"]
mod prelude;
use prelude::*;
use dust_dds::xtypes::type_support::TypeSupport;
"""


def rust_path(mod, d):
    return "::".join([mod] + d["scope"] + [d["name"]])


def present_defs(sg):
    return [d for d in sg.defs if d.get("present", True) and not d.get("removed")]


def spec_harness(sg, mod):
    """Rust fn dumping every type / enumerator / constant of one specification"""
    L = ["fn run_%s() -> String {" % mod, "    let mut o = String::from(\"{\\\"spec\\\":\\\"%s\\\",\\\"types\\\":{\");" % mod]
    first = True
    for d in present_defs(sg):
        if d["k"] in ("struct", "enum", "union"):
            p = rust_path(mod, d)
            L.append("    o.push_str(&format!(\"%s{}:{}\", jstr(\"%s\"), dump_type(&<%s as TypeSupport>::get_type(), 0)));" % ("" if first else ",", p, p))
            first = False
    L.append("    o.push_str(\"},\\\"enums\\\":{\");")
    first = True
    for d in present_defs(sg):
        if d["k"] == "enum":
            p = rust_path(mod, d)
            L.append("    o.push_str(\"%s\\\"%s\\\":[\");" % ("" if first else ",", p))
            first = False
            for i, e in enumerate(d["enumerators"]):
                L.append("    o.push_str(&format!(\"%s{{\\\"name\\\":\\\"%s\\\",\\\"value\\\":{}}}\", match catch(|| enum_value(&%s::%s.create_dynamic_sample())) { Ok(Some(x)) => x.to_string(), Ok(None) => \"null\".to_string(), Err(m) => jstr(&m) }));"
                         % ("," if i else "", e["name"], p, e["name"]))
            L.append("    o.push_str(\"]\");")
    L.append("    o.push_str(\"},\\\"consts\\\":{\");")
    first = True
    for d in present_defs(sg):
        if d["k"] == "const":
            p = rust_path(mod, d)
            L.append("    o.push_str(&format!(\"%s{}:{}\", jstr(\"%s\"), jstr(&format!(\"{:?}\", %s))));" % ("" if first else ",", p, p))
            first = False
    L.append("    o.push_str(\"}}\");")
    L.append("    o")
    L.append("}")
    return "\n".join(L)


def bin_source(specs):
    """specs: [(mod name, SpecGen, rust file name relative to src/specs)].
    Returns (source, line_map [(lo, hi, mod)])."""
    lines = BIN_HEAD.split("\n")
    line_map = []
    for mod, sg, fname in specs:
        start = len(lines) + 1
        lines.append("mod %s { include!(\"../specs/%s\"); }" % (mod, fname))
        lines.extend(spec_harness(sg, mod).split("\n"))
        line_map.append((start, len(lines), mod))
    lines.append("fn main() {")
    lines.append("    install_panic_hook();")
    lines.append("    let mut out: Vec<String> = Vec::new();")
    for mod, sg, fname in specs:
        lines.append("    out.push(match catch(run_%s) { Ok(s) => s, Err(m) => format!(\"{{\\\"spec\\\":\\\"%s\\\",\\\"panic\\\":{}}}\", jstr(&m)) });" % (mod, mod))
    lines.append("    println!(\"[{}]\", out.join(\",\\n\"));")
    lines.append("}")
    return "\n".join(lines) + "\n", line_map


# ------------------------------------------------------------------------------------------------
# oracle
# ------------------------------------------------------------------------------------------------

def resolve(sg, t):
    """follow typedefs"""
    seen = 0
    while t["k"] == "name" and seen < 10:
        tgt = sg.by_path.get(tuple(t["path"]))
        if tgt is None or tgt["k"] != "typedef":
            break
        t = tgt["ty"]
        seen += 1
    return t


def dds_name(d):
    return "::".join(d["scope"] + [d["name"]])


def expected_type(sg, t, arr=None, obs_names=None):
    """obs_names: {def path: name the type's own dump carries}: a member's type name is accepted
    if it equals the name the referenced type publishes itself (its mismatch is reported there)."""
    if arr is not None:
        return {"kinds": ["ARRAY"], "bound": [arr["n"]], "elem": expected_type(sg, t, None, obs_names), "cls": "array"}
    t = resolve(sg, t)
    k = t["k"]
    if k == "base":
        return {"kinds": BASE_TYPES[t["idl"]][1], "cls": t["idl"].replace(" ", "_")}
    if k == "string":
        return {"kinds": ["STRING16"] if t["wide"] else ["STRING8"], "sbound": t["bound"], "cls": ("wstring" if t["wide"] else "string")}
    if k == "seq":
        return {"kinds": ["SEQUENCE"], "sbound": t["bound"], "elem": expected_type(sg, t["e"], None, obs_names), "cls": "sequence"}
    if k == "name":
        tgt = sg.by_path.get(tuple(t["path"]))
        kk = {"struct": "STRUCTURE", "enum": "ENUM", "union": "UNION"}[tgt["k"]]
        names = [dds_name(tgt)]
        if obs_names and obs_names.get(tuple(t["path"])) is not None:
            names.append(obs_names[tuple(t["path"])])
        return {"kinds": [kk], "names": names, "cls": tgt["k"]}
    raise ValueError(k)


def type_diffs(exp, obs, out, parent=""):
    """appends (field, construct class, expected, observed).  The construct class is the leaf
    construct (bounded_string, wchar, ...); base types directly inside a sequence are reported as
    sequence_of_<type> because the sequence element mapping is separate code."""
    base_leaf = exp["cls"] not in ("array", "sequence", "string", "wstring", "struct", "enum", "union", "wchar")
    leaf = ("sequence_of_" + exp["cls"]) if (parent == "sequence" and base_leaf) else exp["cls"]
    if obs is None:
        out.append(("member_kind", leaf, exp["kinds"], None))
        return
    if obs.get("kind") not in exp["kinds"]:
        out.append(("member_kind", leaf, "/".join(exp["kinds"]), obs.get("kind")))
        return
    if exp.get("names") is not None and obs.get("name") not in exp["names"]:
        out.append(("member_type_name", leaf, exp["names"][0], obs.get("name")))
    if "bound" in exp and obs.get("bound") != exp["bound"]:
        out.append(("bound", "array", exp["bound"], obs.get("bound")))
    if "sbound" in exp:
        b = obs.get("bound")
        if exp["sbound"] is None:
            if b not in ([], [0], [4294967295]):
                out.append(("bound", "unbounded_" + exp["cls"], "unbounded", b))
        elif b != [exp["sbound"]]:
            out.append(("bound", "bounded_" + exp["cls"], [exp["sbound"]], b))
    if exp.get("elem") is not None:
        type_diffs(exp["elem"], obs.get("elem"), out, exp["cls"])


def flatten_obs(t):
    """effective observed member list: base members first"""
    out = []
    if t.get("base"):
        out += flatten_obs(t["base"])
    out += t.get("members", [])
    return out


def shape_of(sg):
    parts = []
    for d in present_defs(sg):
        if d["k"] == "struct":
            ms = []
            for m in d["members"]:
                ms.append("%s[%s]x%d%s" % (type_class(m["ty"]), "+".join(sorted(m["ann"])), len(m["decls"]), "a" if any(dc["arr"] for dc in m["decls"]) else ""))
            parts.append("struct(%s,%s,%s|%s)" % (d["ext"], "base" if d["base"] else "", len(d["scope"]), ",".join(sorted(ms))))
        elif d["k"] == "enum":
            parts.append("enum(%s,%s,%d)" % (d["bit_bound"], "".join("v" if e["value_ann"] is not None else "." for e in d["enumerators"]), len(d["scope"])))
        elif d["k"] == "union":
            parts.append("union(%s|%s)" % (d["switch"]["idl"], ",".join("%s:%d%s" % (type_class(c["ty"]), len(c["labels"]), "d" if "default" in c["labels"] else "") for c in d["cases"])))
        elif d["k"] == "typedef":
            parts.append("typedef(%s)" % type_class(d["ty"]))
        else:
            parts.append("const(%s)" % d["ctype"])
    return "|".join(sorted(parts)) + "|defines=%d" % len(sg.defines)


def check_spec(sg, mod, res, emit, note, count):
    """Compares the dump of one specification with the model.  emit(sig, what, def)"""
    types = res.get("types", {})
    obs_names = {}
    for d in present_defs(sg):
        if d["k"] in ("struct", "enum", "union") and types.get(rust_path(mod, d)):
            obs_names[tuple(d["scope"] + [d["name"]])] = types[rust_path(mod, d)].get("name")
    sg.obs_names = obs_names
    for d in present_defs(sg):
        p = rust_path(mod, d)
        if d["k"] == "struct":
            count("checked_struct")
            check_struct(sg, d, types.get(p), emit, note)
        elif d["k"] == "enum":
            count("checked_enum")
            check_enum(sg, d, types.get(p), res.get("enums", {}).get(p, []), emit, note)
        elif d["k"] == "union":
            count("checked_union")
            check_union(sg, d, types.get(p), emit, note)
        elif d["k"] == "const":
            count("checked_const")
            got = res.get("consts", {}).get(p)
            exp = d["expect"]
            ok = got == exp
            if not ok and d["ctype"] in ("float", "double") and got is not None:
                try:
                    ok = float(got) == float(exp)
                except ValueError:
                    ok = False
            if not ok:
                emit("structure_mismatch|field=const_value|construct=const_%s" % d["ctype"].replace(" ", "_"),
                     "const %s: expected %s, generated constant is %s" % (d["name"], exp, got), d)


def mismatch(emit, d, field, construct, exp, obs, what=""):
    emit("structure_mismatch|field=%s|construct=%s" % (field, construct),
         "%s %s: %s expected %s, descriptor has %s%s" % (d["k"], dds_name(d), field, exp, obs, what), d)


def check_struct(sg, d, t, emit, note):
    if t is None:
        return mismatch(emit, d, "type_missing", "struct", dds_name(d), None)
    if t.get("kind") != "STRUCTURE":
        return mismatch(emit, d, "type_kind", "struct", "STRUCTURE", t.get("kind"))
    # several properties of the container at once: extensibility annotation, module scoped name,
    # base type.  One signature when everything but one of them got lost.
    n_props = (d["ext"] is not None) + bool(d["scope"]) + bool(d["base"])
    several = "several_container_properties(annotation/module/base)" if n_props >= 2 else None
    if t.get("name") != dds_name(d):
        if several and t.get("name") == d["name"]:
            mismatch(emit, d, "container_property_ignored", several, "name " + dds_name(d), t.get("name"))
        else:
            mismatch(emit, d, "type_name", "struct_in_module" if d["scope"] else "struct", dds_name(d), t.get("name"))
    if d["ext"] is not None and t.get("ext") != d["ext"]:
        mismatch(emit, d, "extensibility", "@" + d["ext"] + ("+inheritance" if d["base"] else ""), d["ext"], t.get("ext"))
    exp = sg.flat_members(d)
    base_lost = False
    if d["base"]:
        btgt = sg.by_path[tuple(d["base"]["path"])]
        bexp = [dds_name(btgt), sg.obs_names.get(tuple(d["base"]["path"]))]
        bobs = (t.get("base") or {}).get("name")
        if bobs not in bexp:
            if several and bobs is None:
                mismatch(emit, d, "container_property_ignored", several, "base type " + bexp[0], bobs)
                base_lost = True
            else:
                mismatch(emit, d, "base_type", "struct_inheritance", bexp[0], bobs)
    obs = flatten_obs(t)
    if base_lost:
        # consequence of the lost base type: only the struct's own members can be compared
        exp = [m for m in exp if not m["inherited"]]
    if [m["name"] for m in exp] != [o.get("name") for o in obs]:
        construct = "struct_inheritance" if d["base"] else "struct"
        cls = ""
        if d["base"] and [o.get("name") for o in obs if o.get("name") != "parent"] == [m["name"] for m in exp]:
            cls = "|obs=extra_member_parent"
        if base_lost and not cls:
            if [o.get("name") for o in obs if o.get("name") != "parent"] == [m["name"] for m in exp]:
                cls = "|obs=extra_member_parent"
        emit("structure_mismatch|field=member_list|construct=%s%s" % (construct, cls),
             "struct %s: effective members (base members first) expected %s, descriptor (base_type + member_list) has %s"
             % (dds_name(d), [m["name"] for m in exp], [o.get("name") for o in obs]), d)
        if cls:
            obs = [o for o in obs if o.get("name") != "parent"]
        else:
            return
    mutable = d["ext"] == "mutable"
    own_index = -1
    for i, (m, o) in enumerate(zip(exp, obs)):
        if m["inherited"]:
            continue
        own_index += 1
        ann = m["ann"]
        anns = "+".join("@" + a for a in sorted(ann)) or "none"
        explained = set()
        # (a) @id on a struct that is not @mutable
        if m["id_src"] == "id" and o.get("id") != m["id_exp"]:
            if not mutable and o.get("id") in (i, own_index, own_index + 1):
                mismatch(emit, d, "member_id", "@id_on_non_mutable_struct", "%d (@id) for '%s'" % (m["id_exp"], m["name"]), o.get("id"))
                explained.add("id")
        exp_f = {"key": m["key"], "optional": m["optional"], "id": m["id_exp"]}
        obs_f = {"key": bool(o.get("key")), "optional": bool(o.get("opt")), "id": o.get("id")}
        if m["id_src"] == "auto":
            # automatic ids: previous + 1 or position are both accepted (cascades of other findings)
            if obs_f["id"] in (m["id_exp"], i, own_index, own_index + 1) or (i > 0 and obs_f["id"] == (obs[i - 1].get("id") or 0) + 1):
                obs_f["id"] = exp_f["id"]
        bad = [f for f in ("key", "optional", "id") if exp_f[f] != obs_f[f] and f not in explained]
        if bad:
            # (b) only the first of several annotations took effect
            first_only = {"key": ann[:1] == ["key"], "optional": ann[:1] == ["optional"]}
            if len(ann) >= 2 and all((obs_f[f] == first_only[f]) for f in ("key", "optional")) and \
                    ("id" not in bad or ann[0] != "id"):
                mismatch(emit, d, "annotation_ignored", "multiple_member_annotations",
                         "%s on '%s' (key=%s optional=%s id=%s)" % (anns, m["name"], exp_f["key"], exp_f["optional"], exp_f["id"]),
                         "key=%s optional=%s id=%s" % (obs_f["key"], obs_f["optional"], o.get("id")))
            elif m["decl_index"] > 0 and ann and not obs_f["key"] and not obs_f["optional"]:
                mismatch(emit, d, "annotation_ignored", "annotated_member_with_several_declarators",
                         "%s on '%s' (declarator %d of the member)" % (anns, m["name"], m["decl_index"] + 1),
                         "key=%s optional=%s id=%s" % (obs_f["key"], obs_f["optional"], o.get("id")))
            else:
                for f in bad:
                    mismatch(emit, d, {"key": "is_key", "optional": "is_optional", "id": "member_id"}[f],
                             anns + ("" if mutable or f != "id" else "+non_mutable"), exp_f[f], o.get({"key": "key", "optional": "opt", "id": "id"}[f]),
                             " (member '%s')" % m["name"])
        diffs = []
        type_diffs(expected_type(sg, m["ty"], m["arr"], sg.obs_names), o.get("type"), diffs)
        for field, cls, e, ob in diffs:
            mismatch(emit, d, field, cls, e, ob, " (member '%s')" % m["name"])


def check_enum(sg, d, t, values, emit, note):
    if t is None:
        return mismatch(emit, d, "type_missing", "enum", dds_name(d), None)
    if t.get("kind") != "ENUM":
        return mismatch(emit, d, "type_kind", "enum", "ENUM", t.get("kind"))
    if t.get("name") != dds_name(d):
        mismatch(emit, d, "type_name", "enum_in_module" if d["scope"] else "enum", dds_name(d), t.get("name"))
    if d["bit_bound"] is not None:
        disc = (t.get("disc") or {}).get("kind")
        if disc != "INT%d" % d["bit_bound"]:
            mismatch(emit, d, "enum_bit_bound", "@bit_bound", "INT%d" % d["bit_bound"], disc)
    got = {v["name"]: v["value"] for v in values}
    for e in d["enumerators"]:
        if got.get(e["name"]) != e["value"]:
            mismatch(emit, d, "enumerator_value", "@value" if e["value_ann"] is not None else "enumerator",
                     "%s = %d" % (e["name"], e["value"]), got.get(e["name"]))
    if t.get("members"):
        names = [m.get("name") for m in t["members"]]
        if names != [e["name"] for e in d["enumerators"]]:
            mismatch(emit, d, "enumerators", "enum", [e["name"] for e in d["enumerators"]], names)
    else:
        note("unflagged_enum_literals", "enum DynamicType lists no literals; enumerators checked through the generated Rust variants")


def check_union(sg, d, t, emit, note):
    if t is None:
        return mismatch(emit, d, "type_missing", "union", dds_name(d), None)
    if t.get("kind") != "UNION":
        return mismatch(emit, d, "type_kind", "union", "UNION", t.get("kind"))
    if t.get("name") != dds_name(d):
        mismatch(emit, d, "type_name", "union_in_module" if d["scope"] else "union", dds_name(d), t.get("name"))
    disc = (t.get("disc") or {}).get("kind")
    if disc not in BASE_TYPES[d["switch"]["idl"]][1]:
        mismatch(emit, d, "union_discriminator", "switch_" + d["switch"]["idl"].replace(" ", "_"), BASE_TYPES[d["switch"]["idl"]][1], disc)
    obs = [o for o in t.get("members", []) if not (o.get("name") == "discriminator" and not o.get("labels") and not o.get("default_label"))]
    if len(obs) != len(d["cases"]):
        return mismatch(emit, d, "union_case_count", "union", len(d["cases"]), len(obs))
    all_labels = []
    for c, o in zip(d["cases"], obs):
        is_default = "default" in c["labels"]
        explicit = [l for l in c["labels"] if l != "default"]
        labels = o.get("labels", [])
        all_labels += labels
        if o.get("name") != c["name"]:
            cls = "other"
            if re.fullmatch(r"Case\d+|Default", o.get("name") or ""):
                cls = "CaseN"
            emit("structure_mismatch|field=member_name|construct=union_case|obs=%s" % cls,
                 "union %s: case member name expected '%s', descriptor has '%s'" % (dds_name(d), c["name"], o.get("name")), d)
        if bool(o.get("default_label")) != is_default:
            mismatch(emit, d, "union_default", "union_default" if is_default else "union_case", is_default, o.get("default_label"))
        if is_default:
            if not set(explicit) <= set(labels):
                mismatch(emit, d, "union_labels", "union_default_with_labels", explicit, labels)
        elif sorted(labels) != sorted(explicit):
            mismatch(emit, d, "union_labels", "union_case" + ("_multi_label" if len(explicit) > 1 else ""), explicit, labels)
        diffs = []
        type_diffs(expected_type(sg, c["ty"], c["arr"], sg.obs_names), o.get("type"), diffs)
        for field, cls, e, ob in diffs:
            mismatch(emit, d, field, cls, e, ob, " (case member '%s')" % c["name"])
    if len(set(all_labels)) != len(all_labels):
        mismatch(emit, d, "union_labels", "union_default_label_collision" if any("default" in c["labels"] for c in d["cases"]) else "union_case",
                 "pairwise distinct labels", all_labels)
