#!/bin/bash
# Create a scratch copy of the harness that builds against another checkout of the repository
# (e.g. a git worktree carrying a candidate fix), with its own target dir.
# usage: tools/harness_for.sh <repo_checkout> <dest_dir>
#   then: cd <dest_dir> && cargo build --release --offline -p scen_disc && ./target/release/scen_disc c15 --seed 1 --cases 2000 --out /tmp/x.json
set -e
repo="$(realpath "$1")"; dest="$2"
rm -rf "$dest"; mkdir -p "$dest"
rsync -a --exclude target --exclude .cargo /verif/harness/ "$dest/"
sed -i "s#path = \"/repo/dds\"#path = \"$repo/dds\"#" "$dest/Cargo.toml"
mkdir -p "$dest/.cargo"
cat > "$dest/.cargo/config.toml" <<CFG
[net]
offline = true
[build]
target-dir = "$dest/target"
CFG
cp "$repo/Cargo.lock" "$dest/Cargo.lock" 2>/dev/null || true
echo "scratch harness in $dest builds against $repo (target dir $dest/target)"
