// Driver around the real IDL compiler (`dust_dds_gen::compile_idl`, built from /repo's working tree).
// usage: gen_idlc <manifest>; manifest lines: "<idl path>\t<rust output path>".
// Prints one JSON line per entry: {"idl":..,"ok":true} | {"idl":..,"ok":false,"kind":"error"|"panic","msg":..}
use std::io::Write;

fn jstr(s: &str) -> String {
    let mut o = String::from("\"");
    for c in s.chars() {
        match c {
            '"' => o.push_str("\\\""),
            '\\' => o.push_str("\\\\"),
            '\n' => o.push_str("\\n"),
            '\r' => o.push_str("\\r"),
            '\t' => o.push_str("\\t"),
            c if (c as u32) < 0x20 => o.push_str(&format!("\\u{:04x}", c as u32)),
            c => o.push(c),
        }
    }
    o.push('"');
    o
}

fn main() {
    let manifest = std::env::args().nth(1).expect("manifest path");
    let text = std::fs::read_to_string(&manifest).expect("manifest readable");
    let last_panic = std::sync::Arc::new(std::sync::Mutex::new(String::new()));
    let lp = last_panic.clone();
    std::panic::set_hook(Box::new(move |info| {
        let msg = if let Some(s) = info.payload().downcast_ref::<&str>() {
            s.to_string()
        } else if let Some(s) = info.payload().downcast_ref::<String>() {
            s.clone()
        } else {
            "<non-string panic>".to_string()
        };
        let loc = info.location().map(|l| format!("{}:{}", l.file(), l.line())).unwrap_or_default();
        *lp.lock().unwrap() = format!("{} @ {}", msg, loc);
    }));
    let out = std::io::stdout();
    for line in text.lines() {
        let mut it = line.split('\t');
        let (Some(idl), Some(rs)) = (it.next(), it.next()) else { continue };
        let idl_owned = idl.to_string();
        let res = std::panic::catch_unwind(move || dust_dds_gen::compile_idl(std::path::Path::new(&idl_owned)));
        let mut o = out.lock();
        match res {
            Ok(Ok(code)) => {
                std::fs::write(rs, code).expect("write output");
                writeln!(o, "{{\"idl\":{},\"ok\":true}}", jstr(idl)).unwrap();
            }
            Ok(Err(e)) => {
                writeln!(o, "{{\"idl\":{},\"ok\":false,\"kind\":\"error\",\"msg\":{}}}", jstr(idl), jstr(&e)).unwrap();
            }
            Err(_) => {
                let m = last_panic.lock().unwrap().clone();
                writeln!(o, "{{\"idl\":{},\"ok\":false,\"kind\":\"panic\",\"msg\":{}}}", jstr(idl), jstr(&m)).unwrap();
            }
        }
    }
}
