//! Counting global allocator used by the C07 decoder-totality engine.
//!
//! Wraps `std::alloc::System`. Tracking is per thread and only switched on around the call under
//! test (`begin` .. `end`). While on it records: bytes requested (a growing `realloc` counts with
//! its growth only), number of requests, the largest single request and the peak of live tracked
//! bytes. When the cumulative requested bytes cross the limit given to `begin`, the call stack of
//! that request is captured once (with tracking paused, the way heap profilers do it) so that the
//! responsible function can be named in the finding.
//!
//! A single tracked request above `HARD_CAP` (1 GiB) — or live tracked bytes above `LIVE_CAP` — is
//! never attempted. Default mode: a marker line is written with a raw `write(2)` to a pre-opened
//! descriptor (no allocation) and the process aborts; the parent process attributes the abort to the
//! announced case. Park mode (`set_park_mode`, used when the call under test runs on a sacrificial
//! thread): the call stack is recorded, `cap_pending()` starts to report the event and the requesting
//! thread is parked forever instead of taking the whole process down — restarting a process costs a
//! second of DWARF parsing for every such event, parking costs nothing, and the request is still
//! never attempted.
use std::alloc::{GlobalAlloc, Layout, System};
use std::cell::Cell;
use std::sync::Mutex;
use std::sync::atomic::{AtomicBool, AtomicI32, AtomicU64, Ordering::Relaxed};

pub const HARD_CAP: u64 = 1 << 30;
pub const LIVE_CAP: u64 = 3 << 30;
/// Park mode only: once the bound of the call has been crossed and the cumulative requests reach
/// max(SOFT_STOP = 16 MiB, 4 * bound) the call is stopped (the finding is established, going on would only
/// fill gigabytes of memory page by page).
pub const SOFT_STOP: u64 = 16 << 20;

pub struct Counting;

#[global_allocator]
static GLOBAL: Counting = Counting;

thread_local! {
    static ON: Cell<bool> = const { Cell::new(false) };
}

static TOTAL: AtomicU64 = AtomicU64::new(0);
static COUNT: AtomicU64 = AtomicU64::new(0);
static MAXREQ: AtomicU64 = AtomicU64::new(0);
static LIVE: AtomicU64 = AtomicU64::new(0);
static PEAK: AtomicU64 = AtomicU64::new(0);
static LIMIT: AtomicU64 = AtomicU64::new(u64::MAX);
static OVER: AtomicBool = AtomicBool::new(false);
static OVER_REQ: AtomicU64 = AtomicU64::new(0);
static FAILED: AtomicU64 = AtomicU64::new(0);
static MARKER_FD: AtomicI32 = AtomicI32::new(-1);
static CAPTURE_SITE: AtomicBool = AtomicBool::new(true);
static PARK_MODE: AtomicBool = AtomicBool::new(false);
/// 0 = no cap event pending, otherwise the refused size (at least 1)
static CAP_HIT: AtomicU64 = AtomicU64::new(0);
static CAP_TAG: AtomicU64 = AtomicU64::new(0);
static CAP_JOB: AtomicU64 = AtomicU64::new(0);
static CUR_JOB: AtomicU64 = AtomicU64::new(0);
static SITE: Mutex<Option<String>> = Mutex::new(None);
/// call stack of the largest request so far that was at least an eighth of the bound
static BIG_SITE: Mutex<Option<String>> = Mutex::new(None);

unsafe extern "C" {
    fn write(fd: i32, buf: *const u8, count: usize) -> isize;
}

#[derive(Clone, Debug, Default)]
pub struct Stats {
    /// bytes requested during the tracked call (realloc growth counted with its growth)
    pub total: u64,
    /// number of allocation requests
    pub count: u64,
    /// largest single request
    pub max_single: u64,
    /// peak of live tracked bytes
    pub peak_live: u64,
    /// the limit was crossed
    pub over: bool,
    /// size of the request that crossed the limit
    pub over_req: u64,
    /// rendered backtrace of the request that crossed the limit
    pub over_backtrace: Option<String>,
    /// rendered backtrace of the largest request, if that was at least limit / 8
    pub big_backtrace: Option<String>,
    /// size of a request the system allocator refused (0 = none)
    pub failed: u64,
    /// the limit given to `begin`
    pub limit: u64,
}

/// Descriptor the cap marker is written to (append-mode file opened by the child at start-up).
pub fn set_marker_fd(fd: i32) {
    MARKER_FD.store(fd, Relaxed);
}

/// Park the requesting thread instead of aborting the process when a cap is hit.
pub fn set_park_mode(on: bool) {
    PARK_MODE.store(on, Relaxed);
}

/// A cap event happened on the tracked thread (which is parked now): (1 = single request, 2 = live
/// bytes; refused size).
pub fn cap_pending(job: u64) -> Option<(u8, u64)> {
    let v = CAP_HIT.load(std::sync::atomic::Ordering::Acquire);
    if v == 0 || CAP_JOB.load(Relaxed) != job { None } else { Some((CAP_TAG.load(Relaxed) as u8, v)) }
}

/// Like `cap_pending` for any job: (kind, refused size, job number).
pub fn cap_pending_any() -> Option<(u8, u64, u64)> {
    let v = CAP_HIT.load(std::sync::atomic::Ordering::Acquire);
    if v == 0 { None } else { Some((CAP_TAG.load(Relaxed) as u8, v, CAP_JOB.load(Relaxed))) }
}

/// Forget a cap event (after the supervising thread has taken note of it).
pub fn clear_cap() {
    CAP_HIT.store(0, std::sync::atomic::Ordering::Release);
}

/// Counters as they stand (used by the supervising thread after a cap event).
pub fn snapshot() -> Stats {
    let bt = SITE.lock().ok().and_then(|mut s| s.take());
    let big = BIG_SITE.lock().ok().and_then(|mut s| s.take());
    Stats {
        total: TOTAL.load(Relaxed),
        count: COUNT.load(Relaxed),
        max_single: MAXREQ.load(Relaxed),
        peak_live: PEAK.load(Relaxed),
        over: OVER.load(Relaxed),
        over_req: OVER_REQ.load(Relaxed),
        over_backtrace: bt,
        big_backtrace: big,
        failed: FAILED.load(Relaxed),
        limit: LIMIT.load(Relaxed),
    }
}

/// Whether to capture the call stack of the request that crosses the limit.
pub fn set_capture_site(on: bool) {
    CAPTURE_SITE.store(on, Relaxed);
}

fn tls_on() -> bool {
    ON.try_with(|c| c.get()).unwrap_or(false)
}
fn tls_set(v: bool) -> bool {
    ON.try_with(|c| c.replace(v)).unwrap_or(false)
}

/// Pause tracking on this thread (returns the previous state for `resume`).
pub fn pause() -> bool {
    tls_set(false)
}
pub fn resume(prev: bool) {
    tls_set(prev);
}

/// Start tracking on the current thread. `limit` = cumulative byte bound for this call.
pub fn begin(limit: u64) {
    begin_job(limit, 0)
}

/// `begin` with a job number that a later cap event is tagged with.
pub fn begin_job(limit: u64, job: u64) {
    tls_set(false);
    CUR_JOB.store(job, Relaxed);
    TOTAL.store(0, Relaxed);
    COUNT.store(0, Relaxed);
    MAXREQ.store(0, Relaxed);
    LIVE.store(0, Relaxed);
    PEAK.store(0, Relaxed);
    OVER.store(false, Relaxed);
    OVER_REQ.store(0, Relaxed);
    FAILED.store(0, Relaxed);
    CAP_HIT.store(0, Relaxed);
    CAP_TAG.store(0, Relaxed);
    LIMIT.store(limit, Relaxed);
    if let Ok(mut s) = SITE.lock() {
        *s = None;
    }
    if let Ok(mut s) = BIG_SITE.lock() {
        *s = None;
    }
    tls_set(true);
}

/// Stop tracking and return what was observed.
pub fn end() -> Stats {
    tls_set(false);
    let bt = SITE.lock().ok().and_then(|mut s| s.take());
    let big = BIG_SITE.lock().ok().and_then(|mut s| s.take());
    Stats {
        total: TOTAL.load(Relaxed),
        count: COUNT.load(Relaxed),
        max_single: MAXREQ.load(Relaxed),
        peak_live: PEAK.load(Relaxed),
        over: OVER.load(Relaxed),
        over_req: OVER_REQ.load(Relaxed),
        over_backtrace: bt,
        big_backtrace: big,
        failed: FAILED.load(Relaxed),
        limit: LIMIT.load(Relaxed),
    }
}

fn fmt_u64(mut v: u64, out: &mut [u8; 24]) -> usize {
    let mut tmp = [0u8; 24];
    let mut n = 0;
    if v == 0 {
        tmp[0] = b'0';
        n = 1;
    }
    while v > 0 {
        tmp[n] = b'0' + (v % 10) as u8;
        v /= 10;
        n += 1;
    }
    for i in 0..n {
        out[i] = tmp[n - 1 - i];
    }
    n
}

fn raw_marker(tag: &[u8], size: u64) {
    let fd = MARKER_FD.load(Relaxed);
    if fd < 0 {
        return;
    }
    let mut line = [0u8; 96];
    let mut n = 0;
    for b in tag {
        line[n] = *b;
        n += 1;
    }
    line[n] = b' ';
    n += 1;
    let mut num = [0u8; 24];
    let k = fmt_u64(size, &mut num);
    line[n..n + k].copy_from_slice(&num[..k]);
    n += k;
    line[n] = b'\n';
    n += 1;
    unsafe {
        let _ = write(fd, line.as_ptr(), n);
    }
}

#[cold]
fn cap_abort(tag: &[u8], size: u64) -> ! {
    // tracking is already paused by the caller
    if PARK_MODE.load(Relaxed) {
        let soft = tag.ends_with(b"STOP");
        if !soft {
            // (a soft stop keeps the call stack of the request that crossed the bound)
            if CAPTURE_SITE.load(Relaxed) {
                let bt = fast_backtrace();
                if let Ok(mut s) = SITE.lock() {
                    *s = Some(bt);
                }
            }
            OVER.store(true, Relaxed);
            OVER_REQ.store(size, Relaxed);
            if size > MAXREQ.load(Relaxed) {
                MAXREQ.store(size, Relaxed);
            }
        }
        CAP_TAG.store(if soft { 3 } else if tag.ends_with(b"LIVE") { 2 } else { 1 }, Relaxed);
        CAP_JOB.store(CUR_JOB.load(Relaxed), Relaxed);
        CAP_HIT.store(size.max(1), std::sync::atomic::Ordering::Release);
        loop {
            std::thread::park();
        }
    }
    raw_marker(tag, size);
    // Best effort: name the requesting function for the parent (we are about to abort anyway;
    // the raw marker above is already on disk should this fail).
    if CAPTURE_SITE.load(Relaxed) {
        let bt = std::backtrace::Backtrace::force_capture().to_string();
        let fd = MARKER_FD.load(Relaxed);
        if fd >= 0 {
            let mut s = String::with_capacity(bt.len() + 16);
            s.push_str("CAP_BT_BEGIN\n");
            s.push_str(&bt);
            s.push_str("\nCAP_BT_END\n");
            unsafe {
                let _ = write(fd, s.as_ptr(), s.len());
            }
        }
    }
    std::process::abort();
}

#[cold]
fn crossed(size: u64) {
    // tracking is paused by the caller
    OVER_REQ.store(size, Relaxed);
    if CAPTURE_SITE.load(Relaxed) {
        let bt = fast_backtrace();
        if let Ok(mut s) = SITE.lock() {
            *s = Some(bt);
        }
    }
}

// ------------------------------------------------------------------------------------------------
// Cheap call stacks: the raw return addresses of the innermost frames (libgcc unwinder, the one std
// itself links) key a cache of rendered `std::backtrace::Backtrace`s, so that stack walking plus
// DWARF symbolisation (milliseconds) is paid once per distinct call path only.
// ------------------------------------------------------------------------------------------------

#[repr(C)]
struct UnwindContext {
    _private: [u8; 0],
}
type UnwindTraceFn = extern "C" fn(ctx: *mut UnwindContext, arg: *mut core::ffi::c_void) -> i32;
unsafe extern "C" {
    fn _Unwind_Backtrace(trace: UnwindTraceFn, arg: *mut core::ffi::c_void) -> i32;
    fn _Unwind_GetIP(ctx: *mut UnwindContext) -> usize;
}

const FAST_FRAMES: usize = 20;
struct IpAcc {
    ips: [usize; FAST_FRAMES],
    n: usize,
}

extern "C" fn ip_cb(ctx: *mut UnwindContext, arg: *mut core::ffi::c_void) -> i32 {
    let a = unsafe { &mut *(arg as *mut IpAcc) };
    if a.n >= FAST_FRAMES {
        return 5; // _URC_END_OF_STACK
    }
    a.ips[a.n] = unsafe { _Unwind_GetIP(ctx) };
    a.n += 1;
    0 // _URC_NO_REASON
}

static BT_CACHE: Mutex<Vec<(u64, std::sync::Arc<str>)>> = Mutex::new(Vec::new());
/// number of entries of BT_CACHE already handed out by `bt_cache_export_new` / imported
static BT_EXPORTED: AtomicU64 = AtomicU64::new(0);

/// Entries learnt by an earlier process of the same executable (keys are built from return
/// addresses relative to a function of this image, so they survive ASLR).
pub fn bt_cache_import(entries: Vec<(u64, String)>) {
    if let Ok(mut c) = BT_CACHE.lock() {
        for (k, s) in entries {
            if c.len() < 4096 && !c.iter().any(|(k2, _)| *k2 == k) {
                c.push((k, std::sync::Arc::from(s.as_str())));
            }
        }
        BT_EXPORTED.store(c.len() as u64, Relaxed);
    }
}

/// Entries added since the last call (or import).
pub fn bt_cache_export_new() -> Vec<(u64, String)> {
    let mut out = Vec::new();
    if let Ok(c) = BT_CACHE.lock() {
        let from = BT_EXPORTED.load(Relaxed) as usize;
        if from < c.len() {
            for (k, s) in &c[from..] {
                out.push((*k, s.to_string()));
            }
            BT_EXPORTED.store(c.len() as u64, Relaxed);
        }
    }
    out
}

/// Cheap test whether `bt_cache_export_new` would return something.
pub fn bt_cache_has_new() -> bool {
    BT_NEW.load(Relaxed)
        && {
            BT_NEW.store(false, Relaxed);
            true
        }
}
static BT_NEW: AtomicBool = AtomicBool::new(false);
static BT_CACHE_HITS: AtomicU64 = AtomicU64::new(0);
static BT_CACHE_MISSES: AtomicU64 = AtomicU64::new(0);

pub fn backtrace_cache_stats() -> (u64, u64) {
    (BT_CACHE_HITS.load(Relaxed), BT_CACHE_MISSES.load(Relaxed))
}

/// Rendered backtrace of the caller (cached by the innermost return addresses). Call with tracking
/// paused.
pub fn fast_backtrace() -> String {
    let mut acc = IpAcc {
        ips: [0; FAST_FRAMES],
        n: 0,
    };
    unsafe {
        _Unwind_Backtrace(ip_cb, &mut acc as *mut IpAcc as *mut core::ffi::c_void);
    }
    let anchor = fast_backtrace as *const () as usize;
    let mut h: u64 = 0xcbf29ce484222325;
    for ip in &acc.ips[..acc.n] {
        for b in ip.wrapping_sub(anchor).to_le_bytes() {
            h ^= b as u64;
            h = h.wrapping_mul(0x100000001b3);
        }
    }
    if acc.n >= 4 {
        if let Ok(c) = BT_CACHE.lock() {
            if let Some((_, s)) = c.iter().find(|(k, _)| *k == h) {
                BT_CACHE_HITS.fetch_add(1, Relaxed);
                return s.to_string();
            }
        }
    }
    BT_CACHE_MISSES.fetch_add(1, Relaxed);
    let s = std::backtrace::Backtrace::force_capture().to_string();
    if acc.n >= 4 {
        if let Ok(mut c) = BT_CACHE.lock() {
            if c.len() < 4096 {
                c.push((h, std::sync::Arc::from(s.as_str())));
                BT_NEW.store(true, Relaxed);
            }
        }
    }
    s
}

#[inline]
fn account(size: u64, growth: u64) {
    // called with tracking switched off for the duration (re-entrancy guard)
    if size > HARD_CAP {
        cap_abort(b"ALLOC_CAP_SINGLE", size);
    }
    COUNT.fetch_add(1, Relaxed);
    let t = TOTAL.fetch_add(growth, Relaxed) + growth;
    if size > MAXREQ.load(Relaxed) {
        MAXREQ.store(size, Relaxed);
        if size >= LIMIT.load(Relaxed) / 8 && CAPTURE_SITE.load(Relaxed) {
            let bt = fast_backtrace();
            if let Ok(mut s) = BIG_SITE.lock() {
                *s = Some(bt);
            }
        }
    }
    let live = LIVE.fetch_add(growth, Relaxed) + growth;
    if live > PEAK.load(Relaxed) {
        PEAK.store(live, Relaxed);
    }
    if live > LIVE_CAP {
        cap_abort(b"ALLOC_CAP_LIVE", live);
    }
    let limit = LIMIT.load(Relaxed);
    if t > limit {
        if !OVER.swap(true, Relaxed) {
            crossed(size);
        }
        if PARK_MODE.load(Relaxed) && t > SOFT_STOP.max(limit.saturating_mul(4)) {
            cap_abort(b"ALLOC_SOFT_STOP", t);
        }
    }
}

#[inline]
fn release(size: u64) {
    let mut cur = LIVE.load(Relaxed);
    loop {
        let new = cur.saturating_sub(size);
        match LIVE.compare_exchange_weak(cur, new, Relaxed, Relaxed) {
            Ok(_) => break,
            Err(c) => cur = c,
        }
    }
}

unsafe impl GlobalAlloc for Counting {
    unsafe fn alloc(&self, layout: Layout) -> *mut u8 {
        if tls_on() {
            tls_set(false);
            account(layout.size() as u64, layout.size() as u64);
            let p = unsafe { System.alloc(layout) };
            if p.is_null() {
                FAILED.store(layout.size() as u64, Relaxed);
                raw_marker(b"ALLOC_FAIL", layout.size() as u64);
            }
            tls_set(true);
            p
        } else {
            unsafe { System.alloc(layout) }
        }
    }
    unsafe fn alloc_zeroed(&self, layout: Layout) -> *mut u8 {
        if tls_on() {
            tls_set(false);
            account(layout.size() as u64, layout.size() as u64);
            let p = unsafe { System.alloc_zeroed(layout) };
            if p.is_null() {
                FAILED.store(layout.size() as u64, Relaxed);
                raw_marker(b"ALLOC_FAIL", layout.size() as u64);
            }
            tls_set(true);
            p
        } else {
            unsafe { System.alloc_zeroed(layout) }
        }
    }
    unsafe fn dealloc(&self, ptr: *mut u8, layout: Layout) {
        if tls_on() {
            release(layout.size() as u64);
        }
        unsafe { System.dealloc(ptr, layout) }
    }
    unsafe fn realloc(&self, ptr: *mut u8, layout: Layout, new_size: usize) -> *mut u8 {
        if tls_on() {
            tls_set(false);
            let old = layout.size() as u64;
            let new = new_size as u64;
            if new > old {
                account(new, new - old);
            } else {
                release(old - new);
            }
            let p = unsafe { System.realloc(ptr, layout, new_size) };
            if p.is_null() {
                FAILED.store(new, Relaxed);
                raw_marker(b"ALLOC_FAIL", new);
            }
            tls_set(true);
            p
        } else {
            unsafe { System.realloc(ptr, layout, new_size) }
        }
    }
}
