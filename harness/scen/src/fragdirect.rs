//! C05 (a): hook-free micro-driver on the public `rtps` API: fragments built by the real writer code
//! (`CacheChange::as_data_frag_submessage` + `RtpsMessageWrite`), decoded by the real decoder and fed
//! to a real `RtpsStatefulReader` in permuted / duplicated / interleaved order. The reassembled
//! bytes must equal the original and appear exactly once.
use crate::common::Shard;
use dust_dds::rtps::stateful_reader::RtpsStatefulReader;
use dust_dds::rtps_messages::overall_structure::{RtpsMessageRead, RtpsMessageWrite, RtpsSubmessageReadKind};
use dust_dds::transport::types::{
    CacheChange, ChangeKind, DurabilityKind, ENTITYID_UNKNOWN, EntityId, Guid, ReliabilityKind,
    WriterProxy,
};
use std::panic::{AssertUnwindSafe, catch_unwind};
use std::sync::Arc;
use vcore::{Json, Report, Rng};

const WRITER_PREFIX: [u8; 12] = [1; 12];

fn payload(sn: i64, len: usize) -> Vec<u8> {
    let mut v = Vec::with_capacity(len);
    let mut x = vcore::mix(sn as u64, 0xf00d);
    for i in 0..len {
        if i % 8 == 0 {
            x = vcore::mix(x, i as u64);
        }
        v.push((x >> ((i % 8) * 8)) as u8);
    }
    v
}

/// Encoded datagrams, one per fragment (1-based fragment numbers), produced by dust-dds' writer code.
fn fragments(sn: i64, data: &[u8], frag: usize, writer_id: EntityId) -> Vec<Vec<u8>> {
    let cc = CacheChange {
        kind: ChangeKind::Alive,
        writer_guid: Guid::new(WRITER_PREFIX, writer_id),
        sequence_number: sn,
        source_timestamp: None,
        instance_handle: Some([7; 16]),
        data_value: Arc::from(data.to_vec()),
    };
    let n = data.len().div_ceil(frag);
    (0..n)
        .map(|i| {
            let f = cc.as_data_frag_submessage(ENTITYID_UNKNOWN, writer_id, frag, i);
            RtpsMessageWrite::from_submessages(&[&f], WRITER_PREFIX)
                .buffer()
                .to_vec()
        })
        .collect()
}

fn feed(reader: &mut RtpsStatefulReader, datagram: &[u8]) -> Result<(), String> {
    let msg = RtpsMessageRead::try_from(datagram).map_err(|e| format!("decode: {:?}", e))?;
    for s in msg.submessages() {
        if let RtpsSubmessageReadKind::DataFrag(f) = s {
            reader.on_data_frag_submessage(f, WRITER_PREFIX, None);
        }
    }
    Ok(())
}

fn size_class(len: usize, f: usize) -> &'static str {
    match len % f {
        0 => "k*f",
        1 => "k*f+1",
        x if x == f - 1 => "k*f-1",
        _ => "other",
    }
}

pub fn run(shard: &Shard, rep: &mut Report) {
    let frag_sizes: &[usize] = &[8, 9, 16, 17, 64, 100, 255, 256, 1000, 1344, 8192, 65000];
    for case in shard.my_cases() {
        let cs = shard.case_seed(case);
        let mut rng = Rng::new(cs);
        let f = *rng.pick(frag_sizes);
        let kmax = if f > 2000 { 3 } else { 6 };
        let k = 1 + rng.usize(kmax);
        let len = match rng.below(4) {
            0 => k * f + f - 1, // (k+1)*f - 1
            1 => (k + 1) * f,
            2 => (k + 1) * f + 1,
            _ => f + 1 + rng.usize(k * f),
        };
        let reliable = rng.bool();
        let scenario = rng.below(4); // 0 perm, 1 perm+dup, 2 interleave two samples, 3 reverse
        let writer_id = EntityId::new([0, 0, 1], 0x02);
        let reader_guid = Guid::new([2; 12], EntityId::new([0, 0, 2], 0x07));
        let mk_reader = || {
            let mut r = RtpsStatefulReader::new(
                reader_guid,
                if reliable {
                    ReliabilityKind::Reliable
                } else {
                    ReliabilityKind::BestEffort
                },
            );
            r.add_matched_writer(&WriterProxy {
                remote_writer_guid: Guid::new(WRITER_PREFIX, writer_id),
                remote_group_entity_id: ENTITYID_UNKNOWN,
                reliability_kind: ReliabilityKind::Reliable,
                durability_kind: DurabilityKind::Volatile,
                unicast_locator_list: vec![],
                multicast_locator_list: vec![],
            });
            r
        };
        let d1 = payload(1, len);
        let len2 = f + 1 + rng.usize(2 * f);
        let d2 = payload(2, len2);
        let fr1 = fragments(1, &d1, f, writer_id);
        let fr2 = fragments(2, &d2, f, writer_id);
        // delivery order: list of (sample, fragment index)
        let mut order: Vec<(u8, usize)> = (0..fr1.len()).map(|i| (1u8, i)).collect();
        match scenario {
            0 => rng.shuffle(&mut order),
            1 => {
                let extra: Vec<(u8, usize)> =
                    (0..fr1.len()).filter(|_| rng.chance(0.5)).map(|i| (1u8, i)).collect();
                order.extend(extra);
                rng.shuffle(&mut order);
            }
            2 => {
                order.extend((0..fr2.len()).map(|i| (2u8, i)));
                rng.shuffle(&mut order);
            }
            _ => order.reverse(),
        }
        let order2 = order.clone();
        let replay = shard
            .base_replay("fragdirect", case)
            .set("fragment_size", f)
            .set("payload_len", len)
            .set("reliable_reader", reliable)
            .set("scenario", scenario)
            .set(
                "delivery_order",
                order.iter().map(|(s, i)| format!("s{}f{}", s, i + 1)).collect::<Vec<_>>(),
            );
        rep.eval();
        let res = catch_unwind(AssertUnwindSafe(|| {
            let mut reader = mk_reader();
            let mut got: Vec<(i64, Vec<u8>)> = Vec::new();
            for (s, i) in &order2 {
                let d = if *s == 1 { &fr1[*i] } else { &fr2[*i] };
                feed(&mut reader, d)?;
                for c in reader.changes_mut().drain(..) {
                    got.push((c.sequence_number, c.data_value.to_vec()));
                }
            }
            if scenario == 2 {
                // a reliable reader legitimately ignores sample 2 until sample 1 is complete: the
                // writer would repeat it; so do we
                for d in &fr2 {
                    feed(&mut reader, d)?;
                    for c in reader.changes_mut().drain(..) {
                        got.push((c.sequence_number, c.data_value.to_vec()));
                    }
                }
            }
            Ok::<_, String>(got)
        }));
        let class = format!(
            "size={}|fault={}|reader={}",
            size_class(len, f),
            ["perm", "perm+dup", "interleave", "reverse"][scenario as usize],
            if reliable { "reliable" } else { "best_effort" }
        );
        match res {
            Err(_) => {
                let (msg, loc, sym) = simnet::take_last_panic().unwrap_or_default();
                rep.violation(
                    format!("panic|{}|{}", sym, vcore::normalize_msg(&msg)),
                    format!("reassembly panicked at {loc}: {msg}"),
                    replay.clone(),
                );
            }
            Ok(Err(e)) => rep.violation(
                format!("direct|decode_error|{class}"),
                format!("fragment built by dust-dds did not decode: {e}"),
                replay.clone(),
            ),
            Ok(Ok(got)) => {
                let n1 = got.iter().filter(|g| g.0 == 1).count();
                let n2 = got.iter().filter(|g| g.0 == 2).count();
                let mut bad = false;
                for (sn, bytes) in &got {
                    let exp = if *sn == 1 { &d1 } else { &d2 };
                    if bytes != exp {
                        bad = true;
                        rep.violation(
                            format!("direct|corrupt|{class}"),
                            format!(
                                "sample {sn} reassembled to {} bytes that differ from the {} written (fragment size {f})",
                                bytes.len(),
                                exp.len()
                            ),
                            replay.clone(),
                        );
                    }
                }
                if n1 > 1 || n2 > 1 {
                    bad = true;
                    rep.violation(
                        format!("direct|dup|{class}"),
                        format!("sample presented {} times", n1.max(n2)),
                        replay.clone(),
                    );
                }
                // completeness: every fragment of sample 1 was delivered at least once. A best-effort
                // reader may legitimately skip sample 1 if sample 2 completed first.
                let s2_first = got.first().map(|g| g.0 == 2).unwrap_or(false);
                if n1 == 0 && !(scenario == 2 && !reliable && s2_first) {
                    bad = true;
                    rep.violation(
                        format!("direct|not_reassembled|{class}"),
                        format!(
                            "all {} fragments of a {len}-byte sample were delivered (fragment size {f}) but the sample was not reassembled",
                            fr1.len()
                        ),
                        replay.clone(),
                    );
                }
                if scenario == 2 && n2 == 0 {
                    bad = true;
                    rep.violation(
                        format!("direct|not_reassembled_second|{class}"),
                        "second sample not reassembled although all its fragments were delivered again after the first completed".to_string(),
                        replay.clone(),
                    );
                }
                if let (Some(p1), Some(p2)) = (
                    got.iter().position(|g| g.0 == 1),
                    got.iter().position(|g| g.0 == 2),
                ) {
                    if p2 < p1 {
                        bad = true;
                        rep.violation(
                            format!("direct|order|{class}"),
                            "sample 2 presented before sample 1".to_string(),
                            replay.clone(),
                        );
                    }
                }
                if !bad {
                    rep.nontrivial(vcore::mix(
                        vcore::fnv_str(&class),
                        vcore::mix(f as u64, (fr1.len() as u64) << 8 | order.len() as u64),
                    ));
                }
                rep.stat("direct_fragments_fed", order.len() as i128);
                rep.stat("direct_samples_reassembled", (n1 + n2) as i128);
                rep.set("direct_classes", class);
                if case % 997 == 3 {
                    rep.sample(replay.clone().set("reassembled", n1 + n2));
                }
            }
        }
    }
    let _ = Json::Null;
}
