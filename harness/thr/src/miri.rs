//! C34, Miri shards: drive `cargo +nightly miri run --bin thr_miri` with `-Zmiri-many-seeds=a..b`
//! and turn its output into report entries. One Miri invocation interprets the (tiny) program once
//! per seed, each time under a different schedule; Miri runs the seeds on all cores by itself.
use std::process::Command;
use vcore::{Args, Json, Report, Rng, fnv_str, mix};

const CHANNELS: [(&str, u64); 3] = [("mpsc", 48), ("oneshot", 64), ("notification", 32)];

pub fn run_miri(args: &Args, rep: &mut Report, midx: u64, nmiri: u64) {
    let seed = args.u64("seed", 1);
    let jobs = args.u64("miri-jobs", 6);
    let seeds_per_job = args.u64("miri-seeds", 16);
    let root = args.str("root", "/verif");
    let build = args.str("build", "/verif/.build");
    let toolchain = args.str("miri-toolchain", "nightly");
    let t0 = std::time::Instant::now();
    let mut ran_any = false;
    for j in 0..jobs {
        if j % nmiri != midx {
            continue;
        }
        let (chan, nvar) = CHANNELS[(j % 3) as usize];
        let mut rng = Rng::new(mix(mix(seed, 0x3141), j));
        // half of the jobs use a variant in which the receiver registers its waker before the
        // senders start (the wake path is then exercised with certainty)
        let mut variant = rng.below(nvar / 2);
        if j % 2 == 0 {
            variant += nvar / 2; // the upper half of the variants is "prepoll" for all three channels
        }
        let a = seed.wrapping_mul(1_000_003).wrapping_add(j * seeds_per_job) % 1_000_000_000;
        let b = a + seeds_per_job;
        let flags = format!(
            "-Zmiri-many-seeds={a}..{b} {}",
            args.str("miri-flags", "")
        );
        let mut cmd = Command::new("cargo");
        cmd.current_dir(format!("{root}/harness"))
            .arg(format!("+{toolchain}"))
            .args(["miri", "run", "--offline", "-q", "-p", "thr", "--bin", "thr_miri", "--target-dir"])
            .arg(format!("{build}/target-miri"))
            .arg("--")
            .arg(chan)
            .arg(variant.to_string())
            .env("MIRIFLAGS", flags.trim())
            .env("CARGO_NET_OFFLINE", "true")
            .env_remove("RUSTFLAGS");
        let cmdline = format!(
            "cd {root}/harness && MIRIFLAGS='{}' cargo +{toolchain} miri run --offline -q -p thr --bin thr_miri --target-dir {build}/target-miri -- {chan} {variant}",
            flags.trim()
        );
        let out = match cmd.output() {
            Ok(o) => o,
            Err(e) => {
                rep.inconclusive(format!("miri: cannot start cargo ({e}); the thread-stress part of C34 still ran"));
                return;
            }
        };
        let stdout = String::from_utf8_lossy(&out.stdout).to_string();
        let stderr = String::from_utf8_lossy(&out.stderr).to_string();
        let mut obs = 0u64;
        for line in stdout.lines() {
            if let Some(rest) = line.strip_prefix("OBS ") {
                obs += 1;
                rep.eval();
                rep.set("miri_observed_orders", rest.to_string());
                rep.nontrivial(fnv_str(&format!("miri {rest}")));
                if rep.samples.len() < 4 && obs == 1 && j < 3 {
                    rep.sample(Json::obj().set("miri_run", cmdline.clone()).set("observed", rest.to_string()));
                }
            } else if let Some(rest) = line.strip_prefix("VIOLATION ") {
                let (sig, what) = match rest.split_once(" :: ") {
                    Some((s, w)) => (s.trim().to_string(), w.to_string()),
                    None => (rest.to_string(), String::new()),
                };
                rep.violation(
                    sig,
                    format!("(under Miri) {what}"),
                    Json::obj().set("engine", "thr").set("cmd", "miri").set("run", cmdline.clone()),
                );
            }
        }
        rep.stat("miri_seed_runs_completed", obs as i128);
        rep.stat(&format!("miri_seed_runs_{chan}"), obs as i128);
        rep.stat("miri_invocations", 1);
        rep.set("miri_jobs", format!("{chan} variant={variant} seeds={a}..{b}"));
        ran_any = true;
        // Miri's own findings
        let excerpt = |needle: &str| -> String {
            let i = stderr.find(needle).unwrap_or(0);
            let mut s: String = stderr[i..].chars().take(1500).collect();
            s = s.replace('\n', " | ");
            s
        };
        let mut classified = false;
        if stderr.contains("the evaluated program deadlocked") || stderr.contains("error: deadlock") {
            classified = true;
            rep.violation(
                format!("channel={chan}|deadlock"),
                format!("Miri: the evaluated program deadlocked (a parked receiver was never woken): {}", excerpt("deadlock")),
                Json::obj().set("engine", "thr").set("cmd", "miri").set("run", cmdline.clone()),
            );
        }
        if stderr.contains("Undefined Behavior") {
            classified = true;
            rep.violation(
                format!("channel={chan}|miri_ub"),
                format!("Miri: {}", excerpt("Undefined Behavior")),
                Json::obj().set("engine", "thr").set("cmd", "miri").set("run", cmdline.clone()),
            );
        }
        if stderr.contains("panicked at") {
            classified = true;
            rep.violation(
                format!("channel={chan}|panic"),
                format!("Miri run panicked: {}", excerpt("panicked at")),
                Json::obj().set("engine", "thr").set("cmd", "miri").set("run", cmdline.clone()),
            );
        }
        if !out.status.success() && !classified {
            let tail: String = stderr.chars().rev().take(600).collect::<String>().chars().rev().collect();
            rep.inconclusive(format!(
                "miri: `{cmdline}` exited with {:?} without a classifiable report: {}",
                out.status.code(),
                tail.replace('\n', " | ")
            ));
        } else if obs < seeds_per_job && !classified {
            rep.inconclusive(format!("miri: only {obs} of {seeds_per_job} seeds produced an observation for `{cmdline}`"));
        }
    }
    if ran_any {
        rep.maxstat("miri_wall_ms", t0.elapsed().as_millis() as i128);
    }
}
