//! C09: XCDR round trip. deserialize(serialize(v)) == v for generated (type, value) x {XCDR1, XCDR2}
//! x {LE, BE}; total length a multiple of 4 and the encapsulation options record the padding.
use crate::common::*;
use crate::dustrun::*;
use crate::refenc::{self, ALL_REPS, Rep};
use crate::supervise::*;
use std::collections::HashSet;
use vcore::{Json, Report, Rng, fnv_str, mix};
use xcdrlib::dustglue::*;
use xcdrlib::model::*;

/// Outcome of one round trip; `key` is the failure class used for shrinking and signatures.
pub struct Rt {
    pub key: String,
    pub detail: String,
    pub bytes: Option<Vec<u8>>,
    pub harness_problem: bool,
    /// full path of the first difference for `mismatch|...` outcomes
    pub diff: Option<String>,
}

/// dust-dds' deserializer on `bytes`, judged against `v` (for classify::decode_cause)
pub fn probe_decode(dt: dust_dds::xtypes::dynamic_type::DynamicType<'static>, t: &Ty, v: &Val, bytes: &[u8]) -> crate::classify::Probe {
    use crate::classify::Probe;
    match dust_deserialize(dt, bytes) {
        Run::Ok(d) => match read_data(t, &d) {
            Ok(v2) => {
                if v2 == *v {
                    Probe::Ok
                } else {
                    Probe::Wrong(first_diff(t, v, &v2))
                }
            }
            Err(_) => Probe::Other,
        },
        Run::Err(_) => Probe::Error,
        Run::Panic(_) => Probe::Other,
    }
}

pub fn first_diff(t: &Ty, a: &Val, b: &Val) -> String {
    match (t, a, b) {
        (Ty::Struct(s), Val::Struct(x), Val::Struct(y)) => {
            for (i, m) in s.members.iter().enumerate() {
                match (&x[i], &y[i]) {
                    (Some(p), Some(q)) => {
                        if p != q {
                            return format!("{}.{}", m.name, first_diff(&m.ty, p, q));
                        }
                    }
                    (Some(_), None) => return format!("{}:member_lost", m.name),
                    (None, Some(_)) => return format!("{}:member_invented", m.name),
                    (None, None) => {}
                }
            }
            "?".into()
        }
        (Ty::Union(u), Val::Union { disc: d1, sel: s1, val: v1 }, Val::Union { disc: d2, sel: s2, val: v2 }) => {
            if d1 != d2 {
                return "disc:value_differs".into();
            }
            if s1 != s2 {
                return "union:other_case".into();
            }
            match (s1, v1, v2) {
                (Some(i), Some(p), Some(q)) => match &u.cases[*i].ty {
                    Some(ct) => format!("case.{}", first_diff(ct, p, q)),
                    None => "?".into(),
                },
                (_, Some(_), None) => "union:member_lost".into(),
                (_, None, Some(_)) => "union:member_invented".into(),
                _ => "?".into(),
            }
        }
        (Ty::Seq { elem, .. } | Ty::Arr { elem, .. }, Val::List(x), Val::List(y)) => {
            if x.len() != y.len() {
                return "len_differs".into();
            }
            for (p, q) in x.iter().zip(y.iter()) {
                if p != q {
                    return format!("[].{}", first_diff(elem, p, q));
                }
            }
            "?".into()
        }
        (_, Val::Bytes(x), Val::Bytes(y)) => {
            if x.len() != y.len() { "len_differs".into() } else { "value_differs".into() }
        }
        _ => "value_differs".into(),
    }
}

/// keep only the kind of difference, not the member names
fn diff_class(d: &str) -> String {
    d.rsplit(|c| c == '.' || c == ':').next().unwrap_or(d).to_string()
}

pub fn round_trip(dt: dust_dds::xtypes::dynamic_type::DynamicType<'static>, t: &Ty, v: &Val, rep: Rep) -> Rt {
    let data = match build_data(dt, t, v) {
        Ok(d) => d,
        Err(e) => {
            return Rt {
                key: "harness".into(),
                detail: e,
                bytes: None,
                harness_problem: true,
                diff: None,
            };
        }
    };
    let bytes = match dust_serialize(&data, rep) {
        Run::Ok(b) => b,
        Run::Err(e) => {
            return Rt {
                key: format!("ser_error|{}", err_class(&e)),
                detail: e,
                bytes: None,
                harness_problem: false,
                diff: None,
            };
        }
        Run::Panic(p) => {
            return Rt {
                key: format!("ser_panic|{}", p.sig()),
                detail: format!("{} at {}", p.msg, p.location),
                bytes: None,
                harness_problem: !p.in_dust(),
                diff: None,
            };
        }
    };
    // encapsulation: 4-byte header, total length multiple of 4, options record the padding
    if bytes.len() < 4 || bytes.len() % 4 != 0 {
        return Rt {
            key: "encapsulation|length_not_multiple_of_4".into(),
            detail: format!("len {}", bytes.len()),
            bytes: Some(bytes),
            harness_problem: false,
            diff: None,
        };
    }
    let pad = (bytes[3] & 3) as usize;
    if bytes[bytes.len() - pad..].iter().any(|b| *b != 0) {
        return Rt {
            key: "encapsulation|padding_bytes_not_zero_or_count_wrong".into(),
            detail: format!("options {:02x}", bytes[3]),
            bytes: Some(bytes),
            harness_problem: false,
            diff: None,
        };
    }
    // independent parse (where the reference decoder supports the type and the bytes are well formed
    // for it, under either reading of the XCDR1 origin rule): the object must end exactly `pad` bytes
    // before the end
    let readings: Vec<usize> = [true, false]
        .iter()
        .filter_map(|r| refenc::decode_body(t, &bytes, *r).ok())
        .filter(|(d, _)| d.val == *v)
        .map(|(_, consumed)| consumed)
        .collect();
    if !readings.is_empty() && !readings.iter().any(|c| bytes.len() - c == pad) {
        return Rt {
            key: "encapsulation|padding_count_recorded_wrong".into(),
            detail: format!(
                "object ends at {:?}, length {}, options record {}",
                readings,
                bytes.len(),
                pad
            ),
            bytes: Some(bytes),
            harness_problem: false,
            diff: None,
        };
    }
    let back = match dust_deserialize(dt, &bytes) {
        Run::Ok(d) => d,
        Run::Err(e) => {
            return Rt {
                key: format!("de_error|{}", err_class(&e)),
                detail: e,
                bytes: Some(bytes),
                harness_problem: false,
                diff: None,
            };
        }
        Run::Panic(p) => {
            return Rt {
                key: format!("de_panic|{}", p.sig()),
                detail: format!("{} at {}", p.msg, p.location),
                bytes: Some(bytes),
                harness_problem: !p.in_dust(),
                diff: None,
            };
        }
    };
    match read_data(t, &back) {
        Ok(v2) => {
            if v2 == *v {
                Rt {
                    key: "ok".into(),
                    detail: String::new(),
                    bytes: Some(bytes),
                    harness_problem: false,
                    diff: None,
                }
            } else {
                let d = first_diff(t, v, &v2);
                Rt {
                    key: format!("mismatch|{}", diff_class(&d)),
                    detail: format!("first difference at {}", d),
                    bytes: Some(bytes),
                    harness_problem: false,
                    diff: Some(d),
                }
            }
        }
        Err(e) => Rt {
            key: format!("mismatch|readback:{}", vcore::normalize_msg(&e)),
            detail: e,
            bytes: Some(bytes),
            harness_problem: false,
            diff: None,
        },
    }
}

/// Failure family: a deserializer that returns an error for bytes its own serializer produced and
/// one that returns a different value are the same kind of round-trip failure.
pub fn family(key: &str) -> String {
    if key.starts_with("mismatch|") || key.starts_with("de_error|") {
        "value_not_restored".into()
    } else if key.starts_with("ser_error|") {
        "ser_error".into()
    } else {
        key.to_string()
    }
}

pub fn report_failure(rep_out: &mut Report, t: &Ty, v: &Val, rep: Rep, rt: &Rt, shrink_budget: usize) {
    let fam = family(&rt.key);
    let mut evals = 0usize;
    let (mt, mv, _) = minimize(t, v, shrink_budget, &mut |ct, cv| {
        evals += 1;
        let dt = build_type(ct);
        family(&round_trip(dt, ct, cv, rep).key) == fam
    });
    rep_out.stat("shrink_evaluations", evals as i128);
    let dt = build_type(&mt);
    let fin = round_trip(dt, &mt, &mv, rep);
    let ver = crate::classify::ver_name(rep.ver());
    let unclassified = || format!("unclassified|shape={}|val={}", root_class(&mt), value_class(&mt, &mv));
    let sig = if let Some(p) = fam.strip_prefix("de_panic|") {
        format!("roundtrip|de_panic|rep={}|cause={}", ver, crate::classify::panic_cause(p))
    } else if let Some(p) = fam.strip_prefix("ser_panic|") {
        format!("roundtrip|ser_panic|rep={}|cause={}", ver, crate::classify::panic_cause(p))
    } else if let Some(x) = fam.strip_prefix("encapsulation|") {
        format!("roundtrip|encapsulation|rep={}|cause={}", ver, x)
    } else {
        // value_not_restored (deserializer error or wrong value) / ser_error: verified root cause
        use crate::classify::{BytesFrom, DecodeCase, Probe, decode_cause};
        let outcome = if fin.key.starts_with("mismatch|") {
            fin.diff.clone().map(Probe::Wrong).unwrap_or(Probe::Other)
        } else if fin.key.starts_with("de_error|") {
            Probe::Error
        } else {
            Probe::Other
        };
        let cause = match &fin.bytes {
            Some(b) => decode_cause(
                &DecodeCase {
                    wt: &mt,
                    wv: &mv,
                    rt: &mt,
                    rep,
                    bytes: b,
                    from: BytesFrom::DustWriter,
                    outcome,
                },
                &mut |other| probe_decode(dt, &mt, &mv, other),
            ),
            None => None,
        }
        .map(|c| c.to_string())
        .unwrap_or_else(unclassified);
        format!("roundtrip|{}|rep={}|cause={}", fam, ver, cause)
    };
    let what = format!(
        "{} {}: {} ; min shape {} ; type {} value {} bytes {}",
        rep.name(),
        fin.key,
        fin.detail,
        sig_class(&mt),
        ty_to_json(&mt).to_string(),
        val_to_json(&mt, &mv).to_string(),
        fin.bytes.as_ref().map(|b| vcore::hex(b)).unwrap_or_default()
    );
    let replay = Json::obj()
        .set("check", "c09")
        .set("rep", rep.name())
        .set("type", ty_to_json(&mt))
        .set("value", val_to_json(&mt, &mv))
        .set("outcome", fin.key.clone())
        .set("bytes_hex", fin.bytes.as_ref().map(|b| vcore::hex(b)).unwrap_or_default())
        .set("original_type", ty_to_json(t))
        .set("original_value", val_to_json(t, v));
    rep_out.violation(sig, what, replay);
}

/// Cases of classes the random generator reaches only rarely (ids >= 2^14, members > 64 KiB), so that
/// their signatures show at every seed.
pub fn canonical_rare_cases() -> Vec<(Ty, Val)> {
    use std::rc::Rc;
    let m = |id: u32, mu: bool, ty: Ty| Member {
        name: "m".into(),
        id,
        ty,
        key: false,
        optional: false,
        must_understand: mu,
    };
    let st = |members: Vec<Member>| {
        Ty::Struct(Rc::new(StructTy {
            name: "Canon".into(),
            ext: Ext::Mutable,
            members,
        }))
    };
    vec![
        (st(vec![m(0x4000, false, Ty::Prim(Prim::U8))]), Val::Struct(vec![Some(Val::U8(1))])),
        (st(vec![m(0xC000, true, Ty::Prim(Prim::U8))]), Val::Struct(vec![Some(Val::U8(1))])),
        (st(vec![m(0x12345, false, Ty::Prim(Prim::U8))]), Val::Struct(vec![Some(Val::U8(1))])),
        (
            st(vec![m(
                0,
                false,
                Ty::Seq {
                    elem: Box::new(Ty::Prim(Prim::U8)),
                    bound: 0,
                },
            )]),
            Val::Struct(vec![Some(Val::Bytes(vec![7; 70000]))]),
        ),
    ]
}

pub const SHRINK_FLAG: u64 = 1 << 32;
const VALUES_PER_TYPE: u64 = 8;

pub fn unit_gen(seed: u64, shard: u64, unit: u64, salt: u64, cfg: GenCfg) -> Gen {
    Gen::new(Rng::new(mix(mix(mix(seed, salt), shard), unit)), cfg)
}

/// Regenerate case (unit, sub) exactly as the child sees it.
pub fn case_of(seed: u64, shard: u64, unit: u64, sub: u64) -> (Ty, Val, Rep) {
    let mut g = unit_gen(seed, shard, unit, 0xC09, GenCfg::full());
    let t = g.top_type();
    let vi = sub / 4;
    let mut v = g.value(&t);
    for _ in 0..vi {
        v = g.value(&t);
    }
    (t, v, ALL_REPS[(sub % 4) as usize])
}

fn case_json(t: &Ty, v: &Val, rep: Rep) -> Json {
    Json::obj()
        .set("check", "c09")
        .set("rep", rep.name())
        .set("type", ty_to_json(t))
        .set("value", val_to_json(t, v))
}

fn child_units(a: &Cli, from: u64, to: u64, skip: &[(u64, u64)], journal: &mut Journal) -> Report {
    let mut rep = Report::new("C09");
    let mut shrunk: HashSet<u64> = HashSet::new();
    let mut shrinks_left = 8;
    if a.shard == 0 && from == 0 {
        for (t, v) in canonical_rare_cases() {
            let dt = build_type(&t);
            for r in ALL_REPS {
                let rt = round_trip(dt, &t, &v, r);
                rep.eval();
                rep.stat("canonical_rare_cases", 1);
                if rt.key != "ok" && !rt.harness_problem {
                    report_failure(&mut rep, &t, &v, r, &rt, 600);
                }
            }
        }
    }
    for unit in from..to {
        flush_partial(&rep, &a.out, unit);
        let mut g = unit_gen(a.seed, a.shard, unit, 0xC09, GenCfg::full());
        let t = g.top_type();
        journal.announce(unit, u32::MAX as u64);
        let dt = match guarded(|| build_type(&t)) {
            Ok(d) => d,
            Err(p) => {
                rep.inconclusive(format!("building a generated type panicked: {}", p.msg));
                continue;
            }
        };
        let shape = shape_class(&t);
        rep.stat("types", 1);
        rep.maxstat("max_type_depth", type_depth(&t) as i128);
        rep.maxstat("max_type_nodes", type_nodes(&t) as i128);
        for tag in shape_tags(&t) {
            rep.stat(&format!("kind:{tag}"), 1);
        }
        for vi in 0..VALUES_PER_TYPE {
            let v = g.value(&t);
            rep.maxstat("max_value_nodes", val_nodes(&v) as i128);
            for (ri, r) in ALL_REPS.iter().enumerate() {
                let sub = vi * 4 + ri as u64;
                if skip.contains(&(unit, sub)) {
                    continue;
                }
                journal.announce(unit, sub);
                let rt = round_trip(dt, &t, &v, *r);
                if rt.harness_problem {
                    rep.inconclusive(format!("harness problem: {} ({})", rt.key, rt.detail));
                    continue;
                }
                rep.eval();
                let class = rt.key.split('|').next().unwrap_or("").to_string();
                rep.stat(&format!("outcome:{class}"), 1);
                rep.nontrivial(fnv_str(&format!("{}|{}|{}", shape, r.name(), rt.key)));
                rep.set("representations", r.name());
                if let Some(b) = &rt.bytes {
                    rep.maxstat("max_serialized_len", b.len() as i128);
                }
                if rt.key == "ok" {
                    if unit % 16 == 0 && vi == 0 && *r == Rep::X2LE {
                        rep.sample(case_json(&t, &v, *r).set(
                            "bytes_hex",
                            rt.bytes.as_ref().map(|b| vcore::hex(b)).unwrap_or_default(),
                        ).set("outcome", "ok"));
                    }
                    continue;
                }
                rep.set("failure_classes", rt.key.clone());
                let coarse = fnv_str(&format!("{}|{:?}|{}", shape, r.ver(), family(&rt.key)));
                if shrunk.insert(coarse) {
                    if skip.contains(&(unit, sub | SHRINK_FLAG)) {
                        rep.stat("failures_not_minimized(a shrink candidate kills the process)", 1);
                    } else if shrinks_left > 0 {
                        shrinks_left -= 1;
                        journal.announce(unit, sub | SHRINK_FLAG);
                        report_failure(&mut rep, &t, &v, *r, &rt, 3000);
                    } else {
                        rep.stat("failures_not_minimized(shrink budget)", 1);
                    }
                }
            }
        }
    }
    rep
}

pub fn death_kind(death_class: &str) -> &'static str {
    if death_class.starts_with("abort:allocation") {
        "de_abort_alloc"
    } else if death_class.starts_with("hang") {
        "de_hang"
    } else {
        "de_abort_signal"
    }
}

/// No known finding kills the process any more (905bdfe, b28f9ea): a death is never classified.
pub fn death_sig(death_class: &str, ver: &str) -> String {
    format!("roundtrip|{}|rep={}|cause=unclassified", death_kind(death_class), ver)
}

/// A case that kills the process (allocation of a mis-parsed length, CPU hang). The root cause is one
/// of the mis-parses reported under `value_not_restored`; the death itself gets a coarse signature
/// and a witness minimised with a few child probes.
fn report_death(rep: &mut Report, dir: &str, t: &Ty, v: &Val, r: Rep, death_class: &str, detail: &str, probes_allowed: usize) {
    let mut probes = 0;
    let (mt, mv, _) = minimize(t, v, probes_allowed, &mut |ct, cv| {
        probes += 1;
        probe("c09", &case_json(ct, cv, r), dir) == death_class
    });
    rep.stat("shrink_probe_children", probes);
    let ver = match r.ver() {
        refenc::Ver::X1 => "XCDR1",
        refenc::Ver::X2 => "XCDR2",
    };
    let sig = death_sig(death_class, ver);
    let what = format!(
        "{} {}: process died in deserialize(serialize(v)): {} ; type {} value {}",
        r.name(),
        death_class,
        detail,
        ty_to_json(&mt).to_string(),
        val_to_json(&mt, &mv).to_string()
    );
    let replay = case_json(&mt, &mv, r)
        .set("outcome", death_class)
        .set("original_type", ty_to_json(t))
        .set("original_value", val_to_json(t, v));
    rep.violation(sig, what, replay);
}

pub fn run(a: &Cli) -> Report {
    // ---------------------------------------------------------------- child modes
    if a.args.has("child") {
        if a.args.has("probe") {
            // single case; writes {"key": ...} (and a full report when --full)
            let txt = std::fs::read_to_string(a.args.str("probe", "")).unwrap_or_default();
            let mut rep = Report::new("C09");
            let key = match Json::parse(&txt).map_err(|e| e.to_string()).and_then(|j| replay_case(&j)) {
                Ok((t, v, r)) => {
                    let dt = build_type(&t);
                    let rt = round_trip(dt, &t, &v, r);
                    if a.args.has("full") && rt.key != "ok" && !rt.harness_problem {
                        report_failure(&mut rep, &t, &v, r, &rt, 4000);
                    }
                    rt.key
                }
                Err(e) => format!("harness:{e}"),
            };
            let j = rep.to_json().set("key", key);
            let _ = std::fs::write(&a.out, j.to_string());
            std::process::exit(0);
        }
        let from = a.args.u64("from", 0);
        let to = a.args.u64("to", 0);
        let skip = parse_skip(&a.args.str("skip", "none"));
        let mut journal = Journal::open(&a.args.str("journal", ""));
        return child_units(a, from, to, &skip, &mut journal);
    }
    // ---------------------------------------------------------------- parent
    let mut rep = Report::new("C09");
    let dir = scratch_dir(a, "c09p");
    if let Some(w) = &a.replay {
        for wj in w {
            let r = wj.get("replay").cloned().unwrap_or(Json::Null);
            let (t, v, rp) = match replay_case(&r) {
                Ok(x) => x,
                Err(e) => {
                    rep.inconclusive(format!("replay file: {e}"));
                    continue;
                }
            };
            let key = probe("c09", &r, &dir);
            rep.eval();
            rep.nontrivial(fnv_str(&format!("{}|{}", rp.name(), key)));
            rep.sample(Json::obj().set("replayed", r.clone()).set("outcome", key.clone()));
            if key.starts_with("abort") || key.starts_with("hang") {
                report_death(&mut rep, &dir, &t, &v, rp, &key, "replayed witness", 40);
            } else if key != "ok" && !key.starts_with("harness") && key != "wall" {
                // full report from a child (in-process shrinking may itself kill the child)
                let f = format!("{}/replay.json", dir);
                let _ = std::fs::write(&f, r.to_string());
                let res = run_child(
                    "c09",
                    &["--probe".into(), f, "--full".into()],
                    &dir,
                    "replayfull",
                    std::time::Duration::from_secs(60),
                );
                match res.report {
                    Some(j) => merge_report(&mut rep, &j),
                    None => rep.violation(
                        wj.get("sig").and_then(|x| x.as_str()).unwrap_or("roundtrip|unminimized").to_string(),
                        format!("replayed witness still fails with {}", key),
                        r.clone(),
                    ),
                }
            }
        }
        let _ = std::fs::remove_dir_all(&dir);
        return rep;
    }
    let per_shard = (a.cases / a.nshards.max(1)).max(1);
    let units = (per_shard / (VALUES_PER_TYPE * 4)).max(1);
    let (seed, shard) = (a.seed, a.shard);
    let dir2 = dir.clone();
    supervise("c09", a, &mut rep, units, 40, &mut |unit, sub, death, rep| {
        if sub & SHRINK_FLAG != 0 || sub == u32::MAX as u64 {
            rep.stat("deaths_while_shrinking_or_building", 1);
            return;
        }
        let (t, v, r) = case_of(seed, shard, unit, sub);
        rep.eval();
        rep.stat(&format!("outcome:{}", death.class()), 1);
        rep.nontrivial(fnv_str(&format!("{}|{}|{}", shape_class(&t), r.name(), death.class())));
        let sig = death_sig(&death.class(), if r.ver() == refenc::Ver::X1 { "XCDR1" } else { "XCDR2" });
        let seen = rep.violation_counts.get(&sig).copied().unwrap_or(0);
        // minimise the first two witnesses of a signature with child probes, the rest as found
        let probes = if seen >= 2 {
            0
        } else if matches!(death, Death::Hang) {
            0 // every probe of a hanging case burns 5 s of CPU: witness as found
        } else {
            20
        };
        report_death(rep, &dir2, &t, &v, r, &death.class(), &death.detail(), probes);
    });
    let _ = std::fs::remove_dir_all(&dir);
    rep
}
