//! Entity-level model-based monitors through the public async API inside the simulation:
//! `scen_ent <c28|c35|c36|c37> --seed S --shard i --nshards n --cases N --tier T --out F [--replay FILE]`
#[path = "../../scen/src/common.rs"]
mod common;
mod c28;
mod c35;
mod c36;
mod c37;
mod util;

use common::Shard;
use vcore::Args;

fn main() {
    let args = Args::parse();
    let scenario = args.pos.first().cloned().unwrap_or_default();
    let shard = Shard::from_args(args);
    simnet::install_panic_hook();
    if !shard.out.is_empty() && shard.out != "-" {
        simnet::hang::install(&scenario.to_uppercase(), &shard.out);
    }
    let rep = match scenario.as_str() {
        "c28" => c28::run(&shard),
        "c35" => c35::run(&shard),
        "c36" => c36::run(&shard),
        "c37" => c37::run(&shard),
        other => {
            eprintln!("unknown scenario {other}");
            std::process::exit(3);
        }
    };
    rep.write(&shard.out);
}
