//! Mutation operators. Every operator returns the mutated bytes plus a *class label* of the form
//! `<operator>` or `<operator>=<value bucket>`; the label is part of the non-triviality hash and of
//! the finding's description (never of a panic signature).
use super::gen_disc::{self, Lead};
use vcore::rtpswalk::{self, Sub};
use vcore::Rng;

pub struct Mutated {
    pub bytes: Vec<u8>,
    pub class: String,
}

fn m(bytes: Vec<u8>, class: impl Into<String>) -> Mutated {
    Mutated {
        bytes,
        class: class.into(),
    }
}

fn put16(b: &mut [u8], off: usize, v: u16, le: bool) {
    if off + 2 <= b.len() {
        let x = if le { v.to_le_bytes() } else { v.to_be_bytes() };
        b[off..off + 2].copy_from_slice(&x);
    }
}
fn put32(b: &mut [u8], off: usize, v: u32, le: bool) {
    if off + 4 <= b.len() {
        let x = if le { v.to_le_bytes() } else { v.to_be_bytes() };
        b[off..off + 4].copy_from_slice(&x);
    }
}
fn get16(b: &[u8], off: usize, le: bool) -> u16 {
    if off + 2 > b.len() {
        return 0;
    }
    if le { u16::from_le_bytes([b[off], b[off + 1]]) } else { u16::from_be_bytes([b[off], b[off + 1]]) }
}
fn get32(b: &[u8], off: usize, le: bool) -> u32 {
    if off + 4 > b.len() {
        return 0;
    }
    let x = [b[off], b[off + 1], b[off + 2], b[off + 3]];
    if le { u32::from_le_bytes(x) } else { u32::from_be_bytes(x) }
}

/// Extreme 32-bit value and its bucket label. `n` = a "natural" length nearby (buffer length, field
/// value) used for the +-1 variants.
pub fn x32(r: &mut Rng, n: usize) -> (u32, &'static str) {
    let n = n as u32;
    match r.below(16) {
        0 | 1 => (0, "0"),
        2 => (1, "1"),
        3 => (255, "b8"),
        4 => (256, "b8"),
        5 => (257, "b8"),
        6 => (0xFFFF, "b16"),
        7 => (0x10000, "b16"),
        8 => (0x7FFF_FFFF, "huge"),
        9 => (0x8000_0000, "huge"),
        10 | 11 => (0xFFFF_FFFF, "huge"),
        12 => (n.wrapping_sub(1), "len"),
        13 => (n.wrapping_add(1), "len"),
        14 => (n, "len"),
        _ => (0x0FFF_FFFF >> r.below(12), "mid"),
    }
}

pub fn x16(r: &mut Rng, n: usize) -> (u16, &'static str) {
    let n = n as u16;
    match r.below(14) {
        0 | 1 => (0, "0"),
        2 => (1, "1"),
        3 => (2, "small"),
        4 => (3, "small"),
        5 => (4, "small"),
        6 => (0x7FFF, "huge"),
        7 => (0x8000, "huge"),
        8 | 9 => (0xFFFF, "huge"),
        10 => (n.wrapping_sub(1), "len"),
        11 => (n.wrapping_add(1), "len"),
        12 => (n.wrapping_add(4), "len"),
        _ => (n.wrapping_sub(4), "len"),
    }
}

/// Prefix-length classes for truncation.
fn trunc_len(r: &mut Rng, len: usize, marks: &[usize]) -> usize {
    let mut cands: Vec<usize> = vec![0, 1, 2, 3, 4, 5, 7, 8, 12, 16, 19, 20, 21, 23, 24, 28, 32];
    for mk in marks {
        for d in [-1i64, 0, 1, 2, 3, 4, 5, 8] {
            let v = *mk as i64 + d;
            if v >= 0 {
                cands.push(v as usize);
            }
        }
    }
    if len > 0 {
        cands.push(len - 1);
    }
    if len > 2 {
        cands.push(len - 2);
        cands.push(len / 2);
    }
    if r.chance(0.3) && len > 0 {
        return r.usize(len);
    }
    let c = *r.pick(&cands);
    c.min(len.saturating_sub(1))
}

// ---------------------------------------------------------------------------------------------
// generic byte-level operators
// ---------------------------------------------------------------------------------------------

pub fn generic(r: &mut Rng, seed: &[u8], marks: &[usize]) -> Mutated {
    let mut b = seed.to_vec();
    let len = b.len();
    match r.below(10) {
        0 | 1 => {
            let n = trunc_len(r, len, marks);
            b.truncate(n);
            m(b, "trunc")
        }
        2 => {
            if len > 0 {
                for _ in 0..1 + r.below(3) {
                    let i = r.usize(len);
                    b[i] ^= 1 << r.below(8);
                }
            }
            m(b, "bitflip")
        }
        3 => {
            if len > 0 {
                let i = r.usize(len);
                b[i] = *r.pick(&[0u8, 1, 0x7f, 0x80, 0xff, 0xfe]);
            }
            m(b, "byte_extreme")
        }
        4 | 5 => {
            // aligned 32-bit word := extreme
            if len >= 4 {
                let i = r.usize(len / 4) * 4;
                let (v, lab) = x32(r, len);
                let le = r.bool();
                put32(&mut b, i, v, le);
                return m(b, format!("word32={}", lab));
            }
            m(b, "word32=0")
        }
        6 => {
            if len >= 2 {
                let i = r.usize(len / 2) * 2;
                let (v, lab) = x16(r, len);
                let le = r.bool();
                put16(&mut b, i, v, le);
                return m(b, format!("word16={}", lab));
            }
            m(b, "word16=0")
        }
        7 => {
            // delete a chunk
            if len > 4 {
                let a = r.usize(len);
                let n = (1 + r.usize(16)).min(len - a);
                b.drain(a..a + n);
            }
            m(b, "chunk_delete")
        }
        8 => {
            // duplicate a chunk in place
            if len > 4 {
                let a = r.usize(len);
                let n = (1 + r.usize(32)).min(len - a);
                let c: Vec<u8> = b[a..a + n].to_vec();
                let at = a + n;
                b.splice(at..at, c);
            }
            m(b, "chunk_dup")
        }
        _ => {
            let n = *r.pick(&[1usize, 2, 3, 4, 8, 64, 1000]);
            b.extend_from_slice(&r.bytes(n));
            m(b, "append_garbage")
        }
    }
}

/// Set a "length-like" aligned 32-bit word (value small relative to the buffer) to an extreme. Used
/// for CDR payloads where string / sequence lengths, DHEADERs and NEXTINTs are such words.
pub fn lenfield(r: &mut Rng, seed: &[u8], start: usize) -> Option<Mutated> {
    let le = seed.len() > 1 && seed[1] & 1 == 1;
    let mut cands = Vec::new();
    let mut i = start;
    while i + 4 <= seed.len() {
        let v = get32(seed, i, le) as usize;
        if v <= seed.len() + 8 {
            cands.push(i);
        }
        i += 4;
    }
    if cands.is_empty() {
        return None;
    }
    let i = *r.pick(&cands);
    let old = get32(seed, i, le) as usize;
    let (v, lab) = x32(r, old);
    let mut b = seed.to_vec();
    put32(&mut b, i, v, le);
    Some(m(b, format!("lenfield={}", lab)))
}

// ---------------------------------------------------------------------------------------------
// RTPS datagram operators
// ---------------------------------------------------------------------------------------------

fn sub_end(s: &Sub) -> usize {
    s.offset + 4 + s.body_len
}

fn set_otnh(b: &mut [u8], s: &Sub, v: u16) {
    put16(b, s.offset + 2, v, s.le());
}

fn numbits_bucket(v: u32) -> &'static str {
    match v {
        0 => "0",
        1 => "1",
        2..=256 => "le256",
        257..=4096 => "gt256",
        _ => "huge",
    }
}

/// offset (within datagram) of the numBits field and of the set base, width of the base
fn set_layout(s: &Sub) -> Option<(usize, usize, usize)> {
    let b = s.offset + 4;
    match s.id {
        rtpswalk::ACKNACK => Some((b + 16, b + 8, 8)),
        rtpswalk::GAP => Some((b + 24, b + 16, 8)),
        rtpswalk::NACK_FRAG => Some((b + 20, b + 16, 4)),
        _ => None,
    }
}

pub fn rtps(r: &mut Rng, seed: &[u8]) -> Mutated {
    let w = rtpswalk::walk(seed);
    let len = seed.len();
    let marks: Vec<usize> = w.subs.iter().flat_map(|s| [s.offset, sub_end(s)]).collect();
    if w.subs.is_empty() || r.chance(0.12) {
        if r.chance(0.3) && len >= 8 {
            let mut b = seed.to_vec();
            let i = r.usize(8);
            b[i] = *r.pick(&[0u8, b'R', b'X', 0xff, 1, 2, 3]);
            return m(b, "hdr_corrupt");
        }
        return generic(r, seed, &marks);
    }
    let mut b = seed.to_vec();
    let si = r.usize(w.subs.len());
    let s = w.subs[si].clone();
    let le = s.le();
    let body = s.offset + 4;
    match r.below(22) {
        0 | 1 => {
            let rest = len - body;
            let (v, lab): (u16, &str) = match r.below(9) {
                0 => (0, "0"),
                1 => (1, "short"),
                2 => (3, "short"),
                3 => ((s.body_len as u16).wrapping_sub(1), "short"),
                4 => ((s.body_len as u16).wrapping_sub(4), "short"),
                5 => ((s.body_len as u16).wrapping_add(1), "long"),
                6 => ((s.body_len as u16).wrapping_add(4), "long"),
                7 => ((rest as u16).wrapping_add(1), "long"),
                _ => (0xFFFF, "long"),
            };
            set_otnh(&mut b, &s, v);
            m(b, format!("otnh={}", lab))
        }
        2 => {
            b[s.offset + 1] ^= 1;
            m(b, "endian_toggle")
        }
        3 => {
            b[s.offset + 1] ^= 1 << (1 + r.below(7));
            m(b, "flags_flip")
        }
        4 => {
            b[s.offset] = *r.pick(&[0x01u8, 0x06, 0x07, 0x08, 0x09, 0x0c, 0x0d, 0x0e, 0x0f, 0x12, 0x13, 0x15, 0x16, 0x00, 0x02, 0x80, 0xff]);
            m(b, "subid_swap")
        }
        5 | 6 | 7 => {
            // bitmap sizes
            if let Some((nb_off, _, _)) = set_layout(&s) {
                let v = *r.pick(&[0u32, 1, 31, 32, 33, 255, 256, 257, 288, 512, 4096, 0x7FFF_FFFF, 0x8000_0000, 0xFFFF_FFFF]);
                put32(&mut b, nb_off, v, le);
                if r.bool() {
                    // make the bitmap as long as announced (capped) so that the length is consistent
                    let old_words = (get32(seed, nb_off, le).min(256).div_ceil(32)) as usize;
                    let new_words = (v.div_ceil(32)).min(64) as usize;
                    let bm = nb_off + 4;
                    if bm + old_words * 4 <= b.len() {
                        let fill: Vec<u8> = if r.bool() { vec![0xff; new_words * 4] } else { r.bytes(new_words * 4) };
                        b.splice(bm..bm + old_words * 4, fill);
                        let nl = (s.body_len + new_words * 4).saturating_sub(old_words * 4);
                        if s.wire_len != 0 {
                            set_otnh(&mut b, &s, nl.min(0xffff) as u16);
                        }
                    }
                    return m(b, format!("numbits_sized={}", numbits_bucket(v)));
                }
                return m(b, format!("numbits={}", numbits_bucket(v)));
            }
            if s.id == rtpswalk::INFO_REPLY {
                let (v, lab) = x32(r, 1);
                put32(&mut b, body, v, le);
                return m(b, format!("numlocators={}", lab));
            }
            generic(r, seed, &marks)
        }
        8 => {
            if let Some((_, base_off, width)) = set_layout(&s) {
                if width == 4 {
                    let v = *r.pick(&[0u32, 1, 0xFFFF_FFFF, 0xFFFF_FF00, 0xFFFF_FFFE, 0x8000_0000]);
                    put32(&mut b, base_off, v, le);
                } else {
                    let (hi, lo) = *r.pick(&[
                        (0x7FFF_FFFFu32, 0xFFFF_FFFFu32),
                        (0x7FFF_FFFF, 0xFFFF_FF00),
                        (0, 0),
                        (0xFFFF_FFFF, 0xFFFF_FFFF),
                        (0x8000_0000, 0),
                        (0, 0xFFFF_FFFF),
                    ]);
                    put32(&mut b, base_off, hi, le);
                    put32(&mut b, base_off + 4, lo, le);
                }
                return m(b, "setbase_extreme");
            }
            generic(r, seed, &marks)
        }
        9 => {
            // sequence numbers / counts of the submessage
            let offs: &[usize] = match s.id {
                rtpswalk::DATA | rtpswalk::DATA_FRAG => &[12],
                rtpswalk::HEARTBEAT => &[8, 16],
                rtpswalk::HEARTBEAT_FRAG | rtpswalk::NACK_FRAG | rtpswalk::GAP | rtpswalk::ACKNACK => &[8],
                _ => &[],
            };
            if offs.is_empty() {
                return generic(r, seed, &marks);
            }
            let o = body + *r.pick(offs);
            let (hi, lo) = *r.pick(&[
                (0x7FFF_FFFFu32, 0xFFFF_FFFFu32),
                (0, 0),
                (0xFFFF_FFFF, 0xFFFF_FFFF),
                (0x8000_0000, 0),
                (0xFFFF_FFFF, 0),
            ]);
            put32(&mut b, o, hi, le);
            put32(&mut b, o + 4, lo, le);
            m(b, "sn_extreme")
        }
        10 | 11 => {
            if s.id == rtpswalk::DATA_FRAG {
                match r.below(5) {
                    0 | 1 => {
                        put16(&mut b, body + 26, 0, le);
                        return m(b, "fragsize=0");
                    }
                    2 => {
                        put32(&mut b, body + 20, *r.pick(&[0u32, 0xFFFF_FFFF, 0x8000_0000]), le);
                        return m(b, "fragstart_extreme");
                    }
                    3 => {
                        put16(&mut b, body + 24, *r.pick(&[0u16, 0xFFFF, 0x8000]), le);
                        return m(b, "fragsinsub_extreme");
                    }
                    _ => {
                        put32(&mut b, body + 28, *r.pick(&[0u32, 1, 0xFFFF_FFFF, 0x7FFF_FFFF]), le);
                        return m(b, "samplesize_extreme");
                    }
                }
            }
            if s.id == rtpswalk::HEARTBEAT_FRAG {
                put32(&mut b, body + 16, *r.pick(&[0u32, 0xFFFF_FFFF]), le);
                return m(b, "lastfrag_extreme");
            }
            generic(r, seed, &marks)
        }
        12 | 13 => {
            if s.id == rtpswalk::DATA || s.id == rtpswalk::DATA_FRAG {
                let natural = if s.id == rtpswalk::DATA { 16 } else { 28 };
                let (v, lab): (u16, &str) = match r.below(10) {
                    0 => (0, "0"),
                    1 => (1, "small"),
                    2 => (natural - 1, "off1"),
                    3 => (natural + 1, "off1"),
                    4 => (natural + 4, "off4"),
                    5 => (0xFFFF, "huge"),
                    6 => (0xFFFC, "huge"),
                    7 => ((s.body_len as u16).wrapping_sub(4), "body"),
                    8 => ((s.body_len as u16).wrapping_sub(3), "body"),
                    _ => (s.body_len as u16, "body"),
                };
                put16(&mut b, body + 2, v, le);
                return m(b, format!("o2iq={}", lab));
            }
            generic(r, seed, &marks)
        }
        14 | 15 => {
            // inline QoS parameter headers
            if let Some((qo, ql)) = s.inline_qos {
                let mut heads = Vec::new();
                let mut p = qo;
                while p + 4 <= qo + ql && p + 4 <= len {
                    heads.push(p);
                    let pid = get16(seed, p, le);
                    if pid == 1 {
                        break;
                    }
                    p += 4 + get16(seed, p + 2, le) as usize;
                }
                if !heads.is_empty() {
                    let h = *r.pick(&heads);
                    match r.below(4) {
                        0 => {
                            put16(&mut b, h, *r.pick(&[1u16, 0, 0x7f, 0x70, 0x71, 0xffff, 0x8001]), le);
                            return m(b, "iq_pid_swap");
                        }
                        _ => {
                            let (v, lab) = x16(r, get16(seed, h + 2, le) as usize);
                            put16(&mut b, h + 2, v, le);
                            return m(b, format!("iq_pidlen={}", lab));
                        }
                    }
                }
            }
            generic(r, seed, &marks)
        }
        16 => {
            // duplicate the submessage
            let c: Vec<u8> = seed[s.offset..sub_end(&s).min(len)].to_vec();
            let at = sub_end(&s).min(len);
            let times = *r.pick(&[1usize, 1, 2, 8]);
            for _ in 0..times {
                b.splice(at..at, c.iter().copied());
            }
            m(b, "sub_dup")
        }
        17 => {
            // move the submessage to the front / reorder
            if w.subs.len() >= 2 {
                let mut order: Vec<usize> = (0..w.subs.len()).collect();
                r.shuffle(&mut order);
                let mut nb = seed[..20.min(len)].to_vec();
                for i in order {
                    let t = &w.subs[i];
                    nb.extend_from_slice(&seed[t.offset..sub_end(t).min(len)]);
                }
                return m(nb, "sub_reorder");
            }
            generic(r, seed, &marks)
        }
        18 => {
            b.drain(s.offset..sub_end(&s).min(len));
            m(b, "sub_drop")
        }
        19 => {
            // cut inside the submessage
            let cut = match r.below(6) {
                0 => s.offset + 1,
                1 => s.offset + 3,
                2 => s.offset + 4,
                3 => s.offset + 4 + r.usize(s.body_len.max(1)),
                4 => sub_end(&s).saturating_sub(1),
                _ => s.offset + 4 + s.body_len / 2,
            };
            b.truncate(cut.min(len));
            m(b, "sub_trunc")
        }
        _ => generic(r, seed, &marks),
    }
}

// ---------------------------------------------------------------------------------------------
// PL_CDR parameter list operators (discovery data)
// ---------------------------------------------------------------------------------------------

pub fn pl(r: &mut Rng, seed: &[u8]) -> Mutated {
    let (le, params) = gen_disc::walk_pl(seed);
    let len = seed.len();
    let marks: Vec<usize> = params.iter().flat_map(|p| [p.off, p.off + 4, p.off + 4 + p.len]).collect();
    if params.is_empty() || r.chance(0.1) {
        return generic(r, seed, &marks);
    }
    let mut b = seed.to_vec();
    let p = r.pick(&params).clone();
    let val = p.off + 4;
    match r.below(20) {
        0 | 1 | 2 => {
            let (v, lab): (u16, &str) = match r.below(12) {
                0 => (0, "0"),
                1 => (1, "small"),
                2 => (2, "small"),
                3 => (3, "small"),
                4 => ((p.len as u16).wrapping_sub(1), "off1"),
                5 => ((p.len as u16).wrapping_add(1), "off1"),
                6 => ((p.len as u16).wrapping_sub(4), "off4"),
                7 => ((p.len as u16).wrapping_add(4), "off4"),
                8 => ((len - val.min(len)) as u16, "rest"),
                9 => (((len - val.min(len)) as u16).wrapping_add(1), "rest"),
                10 => (0x7FFF, "huge"),
                _ => (0xFFFF, "huge"),
            };
            put16(&mut b, p.off + 2, v, le);
            m(b, format!("pl_len={}", lab))
        }
        3 | 4 => {
            // type confusion / flags / premature sentinel
            let v = match r.below(5) {
                0 => gen_disc::PID_SENTINEL,
                1 => p.pid | 0x4000,
                2 => p.pid | 0x8000,
                _ => *r.pick(&gen_disc::ALL_PIDS),
            };
            put16(&mut b, p.off, v, le);
            m(b, "pl_pid_swap")
        }
        5 | 6 | 7 | 8 | 9 => {
            // leading length-like field of the value
            match gen_disc::lead_of(p.pid) {
                Lead::StrLen => {
                    let (v, lab) = x32(r, get32(seed, val, le) as usize);
                    put32(&mut b, val, v, le);
                    m(b, format!("pl_strlen={}", lab))
                }
                Lead::SeqLen => {
                    let (v, lab) = x32(r, get32(seed, val, le) as usize);
                    put32(&mut b, val, v, le);
                    m(b, format!("pl_seqlen={}", lab))
                }
                Lead::StrSeqLen => {
                    if r.bool() || p.len < 12 {
                        let (v, lab) = x32(r, get32(seed, val, le) as usize);
                        put32(&mut b, val, v, le);
                        m(b, format!("pl_seqlen={}", lab))
                    } else {
                        // first element's string length
                        let (v, lab) = x32(r, get32(seed, val + 4, le) as usize);
                        put32(&mut b, val + 4, v, le);
                        m(b, format!("pl_strlen={}", lab))
                    }
                }
                Lead::Enum => {
                    put32(&mut b, val, *r.pick(&[4u32, 255, 0xFFFF_FFFF, 0x8000_0000, 0x0100_0000]), le);
                    m(b, "pl_enum_extreme")
                }
                Lead::TypeInfo => {
                    // XCDR2 words inside the type information (DHEADERs, EMHEADERs, NEXTINTs, lengths)
                    if p.len >= 4 {
                        let i = val + r.usize(p.len / 4) * 4;
                        if r.chance(0.3) {
                            // EMHEADER length codes 4..7 keeping the member id
                            let old = get32(seed, i, true);
                            let lc = 4 + r.below(4) as u32;
                            put32(&mut b, i, (old & 0x8FFF_FFFF) | (lc << 28), true);
                            let (v, lab) = x32(r, p.len);
                            put32(&mut b, i + 4, v, true);
                            return m(b, format!("pl_typeinfo_lc={}", lab));
                        }
                        let (v, lab) = x32(r, get32(seed, i, true) as usize);
                        put32(&mut b, i, v, true);
                        return m(b, format!("pl_typeinfo_word={}", lab));
                    }
                    generic(r, seed, &marks)
                }
                Lead::None => {
                    // random bytes of the same length
                    let n = p.len.min(len.saturating_sub(val));
                    let rb = r.bytes(n);
                    b[val..val + n].copy_from_slice(&rb);
                    m(b, "pl_value_random")
                }
            }
        }
        10 => {
            let c: Vec<u8> = seed[p.off..(val + p.len).min(len)].to_vec();
            let at = (val + p.len).min(len);
            b.splice(at..at, c);
            m(b, "pl_param_dup")
        }
        11 => {
            b.drain(p.off..(val + p.len).min(len));
            m(b, "pl_param_drop")
        }
        12 => {
            // drop the sentinel
            if let Some(last) = params.last() {
                if last.pid == gen_disc::PID_SENTINEL {
                    b.truncate(last.off);
                }
            }
            m(b, "pl_no_sentinel")
        }
        13 | 14 => {
            // encapsulation header
            b[0] = *r.pick(&[0u8, 0, 0, 1, 0xff]);
            b[1] = *r.pick(&[0u8, 1, 2, 3, 4, 5, 6, 7, 8, 9, 10, 11, 12, 0xff]);
            if r.chance(0.2) && len >= 4 {
                b[2] = r.next_u32() as u8;
                b[3] = r.next_u32() as u8;
            }
            m(b, "pl_encap")
        }
        15 => {
            // cut inside the parameter
            let cut = match r.below(4) {
                0 => p.off + 1,
                1 => p.off + 3,
                2 => val + p.len / 2,
                _ => (val + p.len).saturating_sub(1),
            };
            b.truncate(cut.min(len));
            m(b, "pl_param_trunc")
        }
        16 => {
            // a parameter replaced by a freshly generated one of another kind with this pid
            let other = *r.pick(&gen_disc::ALL_PIDS);
            let v = gen_disc::param_value(other, le, r, None);
            let n = p.len.min(len.saturating_sub(val));
            let mut nv = v;
            nv.resize(n, 0);
            b[val..val + n].copy_from_slice(&nv);
            m(b, "pl_value_confused")
        }
        _ => generic(r, seed, &marks),
    }
}

// ---------------------------------------------------------------------------------------------
// XCDR payload operators (user sample payloads, type lookup)
// ---------------------------------------------------------------------------------------------

pub const REPR_IDS: [[u8; 2]; 18] = [
    [0, 0],
    [0, 1],
    [0, 2],
    [0, 3],
    [0, 4],
    [0, 5],
    [0, 6],
    [0, 7],
    [0, 8],
    [0, 9],
    [0, 10],
    [0, 11],
    [0, 12],
    [1, 0],
    [0x80, 0x01],
    [0xff, 0xff],
    [0, 0x7f],
    [7, 0],
];

/// `member_ids`: ids of (mutable) struct members / union cases of the type, used to recognise
/// EMHEADER / PL-CDR member headers in the encoding.
pub fn xcdr(r: &mut Rng, seed: &[u8], member_ids: &[u32]) -> Mutated {
    let len = seed.len();
    if len < 4 {
        return generic(r, seed, &[4]);
    }
    let le = seed[1] & 1 == 1;
    let v2 = seed[1] >= 6;
    let mut b = seed.to_vec();
    match r.below(20) {
        0 | 1 | 2 => {
            // decode the same body under another representation identifier
            let id = *r.pick(&REPR_IDS);
            b[0] = id[0];
            b[1] = id[1];
            m(b, format!("reprid_swap={:02x}{:02x}", id[0], id[1]))
        }
        3 | 4 | 5 | 6 | 7 => lenfield(r, seed, 4).unwrap_or_else(|| generic(r, seed, &[4])),
        8 | 9 => {
            // first word after the encapsulation header: DHEADER for appendable/mutable XCDR2
            if len >= 8 {
                let (v, lab) = x32(r, len - 8);
                put32(&mut b, 4, v, le);
                return m(b, format!("dheader={}", lab));
            }
            generic(r, seed, &[4])
        }
        10 | 11 | 12 => {
            // member headers
            if v2 {
                let mut heads = Vec::new();
                let mut i = 4;
                while i + 4 <= len {
                    let w = get32(seed, i, le);
                    if member_ids.contains(&(w & 0x0FFF_FFFF)) {
                        heads.push(i);
                    }
                    i += 4;
                }
                if !heads.is_empty() || len >= 12 {
                    let i = if heads.is_empty() { 4 + r.usize((len - 8) / 4) * 4 } else { *r.pick(&heads) };
                    let old = get32(seed, i, le);
                    let lc = 4 + r.below(4) as u32;
                    let (v, lab) = x32(r, len - i);
                    put32(&mut b, i, (old & 0x8FFF_FFFF) | (lc << 28), le);
                    if (old >> 28) & 7 < 4 && r.bool() {
                        // make room for NEXTINT
                        let x = if le { v.to_le_bytes() } else { v.to_be_bytes() };
                        b.splice(i + 4..i + 4, x);
                    } else {
                        put32(&mut b, i + 4, v, le);
                    }
                    return m(b, format!("emheader_lc{}={}", lc, lab));
                }
            } else {
                // XCDR1 parameter headers: u16 id (+flags), u16 length
                let mut heads = Vec::new();
                let mut i = 4;
                while i + 4 <= len {
                    let id = get16(seed, i, le) & 0x3fff;
                    if member_ids.contains(&(id as u32)) || id == 0x3f01 || id == 0x3f02 {
                        heads.push(i);
                    }
                    i += 4;
                }
                if !heads.is_empty() {
                    let i = *r.pick(&heads);
                    if r.chance(0.25) {
                        put16(&mut b, i, *r.pick(&[0x3f01u16, 0x3f02, 0x3f03, 0x3f04, 0x7f01, 0xbf01]), le);
                        return m(b, "pl1_pid_special");
                    }
                    let (v, lab) = x16(r, get16(seed, i + 2, le) as usize);
                    put16(&mut b, i + 2, v, le);
                    return m(b, format!("pl1_len={}", lab));
                }
            }
            lenfield(r, seed, 4).unwrap_or_else(|| generic(r, seed, &[4]))
        }
        13 => {
            // options / padding bytes of the encapsulation header
            b[2] = r.next_u32() as u8;
            b[3] = r.next_u32() as u8;
            m(b, "encap_options")
        }
        _ => generic(r, seed, &[4, 8]),
    }
}

// ---------------------------------------------------------------------------------------------
// random inputs
// ---------------------------------------------------------------------------------------------

pub fn random_len(r: &mut Rng) -> usize {
    match r.below(40) {
        0 => 0,
        1 => r.usize(8),
        2 | 3 => r.usize(32),
        4 => 20000 + r.usize(50001),
        5 => 65530 + r.usize(12),
        _ => r.usize(2049),
    }
}

pub fn random_bytes(r: &mut Rng, n: usize) -> Vec<u8> {
    // mostly uniformly random, sometimes biased to small values so that length fields stay plausible
    match r.below(4) {
        0 => {
            let mut v = r.bytes(n);
            for x in v.iter_mut() {
                if *x > 40 {
                    *x &= 0x07;
                }
            }
            v
        }
        1 => {
            let mut v = vec![0u8; n];
            for _ in 0..n / 8 + 1 {
                if n > 0 {
                    let i = r.usize(n);
                    v[i] = r.next_u32() as u8;
                }
            }
            v
        }
        _ => r.bytes(n),
    }
}
