//! C07 "decoders are total": parent process of a shard.
//!
//! `xcdr c07 --seed S --shard I --nshards N --cases TOTAL --tier quick|thorough --out FILE [--replay FILE]`
//! (options: `--budget-s`, `--alloc-k 1024`, `--alloc-c 1048576`, `--hang-cpu-s 5`, `--stack-mib 8`,
//! `--shrink-budget 250`, `--chunk`, `--probe-budget-ms`; `C07_DEBUG=1` prints a time line to stderr).
//!
//! Decoders: RtpsMessageRead::try_from (+ walking every decoded submessage), the four discovery
//! `from_bytes`, type-lookup request / reply (`deserialize_top_level_type` + `create_sample`, the way
//! discovery_methods.rs does it) and `deserialize_top_level_type` for generated types.
//!
//! Process model. The parent re-executes itself (`current_exe() c07 --child --from A --to B ...`); a
//! child runs a contiguous range of case indices. Cases are grouped in blocks of 256 (one decoder,
//! one generated type per block) and handed to a *decoder thread* in batches of 32; that thread writes
//! an announce record (case index, decoder, input class, the input bytes, checksums) into a file with
//! one `pwrite` right before every decoder call. Findings / summaries stream back as JSON lines.
//! * A child that dies (stack overflow -> SIGABRT, killed for > 5 s user CPU on one input) is
//!   attributed by the parent to the announced input; a hang is confirmed by a second run in a fresh
//!   process; the batch is run again without the fatal case; aborting inputs are minimised by
//!   truncation with probe children (time bounded).
//! * An allocation request above the hard cap (1 GiB single / 3 GiB live) is never attempted: the
//!   decoder thread is parked for good, its call stack recorded, and a fresh thread continues
//!   (signature `abort|<decoder>|alloc_cap|<site>`): such events are frequent on the unchanged tree
//!   and a process restart costs about half a second of DWARF parsing each. Outside park mode the
//!   allocator writes a marker with a raw write(2) and aborts the process (the parent understands
//!   that too).
//!
//! Oracle per input: Ok/Err are fine; a panic whose innermost non-runtime frame is in dust-dds is a
//! violation (`panic|<decoder>|<frame>|<normalised message>`), in harness code inconclusive;
//! cumulative bytes requested during the call must stay <= k*len + c (+ twice what the block's type
//! needs for an empty input) else `alloc|<decoder>|<site of the dominating request>`; child death ->
//! `abort|<decoder>|signal N|<input class>`; CPU overrun -> `hang|<decoder>|<input class>`.
//! Frames: the profile has line-tables-only debug info, i.e. unqualified function names; the module
//! path is rebuilt from the source file (`/repo/dds/src/a/b.rs` + `f` -> `dust_dds::a::b::f`).
pub mod bt;
pub mod child;
pub mod decoders;
pub mod gen_disc;
pub mod gen_rtps;
pub mod gen_tl;
pub mod mutate;

use child::{Announced, DEC_SETUP};
use decoders::Decoder;
use std::collections::{BTreeMap, HashSet};
use std::io::{BufRead, BufReader};
use std::os::unix::fs::FileExt;
use std::os::unix::process::ExitStatusExt;
use std::process::{Command, Stdio};
use std::sync::mpsc;
use std::time::{Duration, Instant};
use vcore::{Json, Report};

unsafe extern "C" {
    fn sysconf(name: i32) -> i64;
}

fn clk_tck() -> f64 {
    let v = unsafe { sysconf(2) };
    if v > 0 { v as f64 } else { 100.0 }
}

/// User-mode CPU time of a process in seconds (utime of /proc/<pid>/stat). Kernel time is left out
/// on purpose: page-fault and reclaim work done on behalf of the process grows several-fold on a
/// loaded machine, time spent executing the decoder does not.
fn cpu_seconds(pid: u32, tck: f64) -> Option<f64> {
    let s = std::fs::read_to_string(format!("/proc/{}/stat", pid)).ok()?;
    let rest = &s[s.rfind(')')? + 1..];
    let f: Vec<&str> = rest.split_whitespace().collect();
    let ut: f64 = f.get(11)?.parse().ok()?;
    Some(ut / tck)
}

#[derive(Clone)]
struct Witness {
    len: usize,
    minimized: bool,
    what: String,
    replay: Json,
}

#[derive(Debug, Clone, PartialEq)]
enum Kill {
    HangCpu(f64),
    WallOnly(f64),
    Budget,
}

struct ChildEnd {
    done_next: Option<u64>,
    reported: u64,
    signal: Option<i32>,
    code: Option<i32>,
    killed: Option<Kill>,
}

struct Parent {
    exe: std::path::PathBuf,
    seed: u64,
    shard: u64,
    k: u64,
    c: u64,
    shrink_budget: u64,
    stack_mib: u64,
    hang_cpu_s: f64,
    wall_case_s: f64,
    probe_budget_ms: u64,
    base: String,
    report: Report,
    cand: BTreeMap<String, Vec<Witness>>,
    samples: BTreeMap<String, Json>,
    deadline: Instant,
    tck: f64,
    abort_minimized: HashSet<String>,
    /// probe children: only their exit matters
    muted: bool,
    /// symbolised call stacks learnt by the children so far (JSON lines, handed to the next child)
    btcache: Vec<String>,
    /// wall time spent in probe children that minimise aborting inputs (bounded per shard)
    probe_time: Duration,
}

impl Parent {
    fn path(&self, ext: &str) -> String {
        format!("{}.{}", self.base, ext)
    }

    fn write_known(&self) {
        // signatures for which a minimized witness exists need no further shrinking
        let mut s = String::new();
        for (sig, ws) in &self.cand {
            if ws.iter().any(|w| w.minimized) || ws.len() >= 3 {
                s.push_str(sig);
                s.push('\n');
            }
        }
        let _ = std::fs::write(self.path("known"), s);
    }

    fn add_witness(&mut self, sig: &str, w: Witness) {
        let v = self.cand.entry(sig.to_string()).or_default();
        v.push(w);
        v.sort_by_key(|w| w.len);
        v.truncate(6);
    }

    fn count(&mut self, sig: &str, n: u64) {
        *self.report.violation_counts.entry(sig.to_string()).or_insert(0) += n;
    }

    fn handle_line(&mut self, line: &str, end: &mut ChildEnd) {
        let j = match Json::parse(line) {
            Ok(j) => j,
            Err(_) => {
                self.report.stat("child_lines_unparsed", 1);
                return;
            }
        };
        let t = j.get("t").and_then(|t| t.as_str()).unwrap_or("");
        if t == "bt" {
            if self.btcache.len() < 2000 {
                self.btcache.push(line.to_string());
            }
            return;
        }
        if self.muted && t != "done" {
            return;
        }
        match t {
            "sum" => {
                let n = j.get("n").and_then(|n| n.as_u64()).unwrap_or(0);
                self.report.evaluations += n;
                end.reported += n;
                if let Some(Json::Obj(m)) = j.get("stats") {
                    for (k, v) in m {
                        if let Json::Int(i) = v {
                            self.report.stat(k, *i);
                        }
                    }
                }
                if let Some(Json::Obj(m)) = j.get("max") {
                    for (k, v) in m {
                        if let Json::Int(i) = v {
                            self.report.maxstat(k, *i);
                        }
                    }
                }
                if let Some(Json::Obj(m)) = j.get("sets") {
                    for (k, v) in m {
                        if let Some(a) = v.as_arr() {
                            for x in a {
                                if let Some(s) = x.as_str() {
                                    self.report.set(k, s);
                                }
                            }
                        }
                    }
                }
                if let Some(a) = j.get("nt").and_then(|a| a.as_arr()) {
                    for x in a {
                        if let Some(h) = x.as_str().and_then(|s| u64::from_str_radix(s, 16).ok()) {
                            self.report.nontrivial(h);
                        }
                    }
                }
                if let Some(a) = j.get("inc").and_then(|a| a.as_arr()) {
                    for x in a {
                        if let Some(s) = x.as_str() {
                            self.report.inconclusive(s);
                        }
                    }
                }
            }
            "finding" => {
                let sig = j.get("sig").and_then(|s| s.as_str()).unwrap_or("?").to_string();
                let counted = j.get("count").and_then(|c| c.as_bool()).unwrap_or(true);
                if counted {
                    self.count(&sig, 1);
                }
                let w = Witness {
                    len: j.get("len").and_then(|l| l.as_u64()).unwrap_or(0) as usize,
                    minimized: j.get("min").and_then(|m| m.as_bool()).unwrap_or(false),
                    what: j.get("what").and_then(|s| s.as_str()).unwrap_or("").to_string(),
                    replay: j.get("replay").cloned().unwrap_or(Json::Null),
                };
                self.add_witness(&sig, w);
            }
            "hit" => {
                let sig = j.get("sig").and_then(|s| s.as_str()).unwrap_or("?").to_string();
                self.count(&sig, 1);
            }
            "sample" => {
                let key = j.get("key").and_then(|s| s.as_str()).unwrap_or("?").to_string();
                if let Some(s) = j.get("sample") {
                    self.samples.entry(key).or_insert_with(|| s.clone());
                }
            }
            "done" => {
                end.done_next = j.get("next").and_then(|n| n.as_u64());
            }
            _ => {}
        }
    }

    /// Spawn one child with `extra` arguments, watch it, consume its output.
    fn run_child(&mut self, extra: &[String], respect_budget: bool) -> ChildEnd {
        let mut end = ChildEnd {
            done_next: None,
            reported: 0,
            signal: None,
            code: None,
            killed: None,
        };
        let _ = std::fs::write(self.path("marker"), b"");
        self.write_known();
        let _ = std::fs::write(self.path("btcache"), self.btcache.join("\n"));
        let stderr_file = std::fs::File::create(self.path("stderr")).ok();
        let mut cmd = Command::new(&self.exe);
        cmd.arg("c07")
            .arg("--child")
            .args(["--seed", &self.seed.to_string()])
            .args(["--shard", &self.shard.to_string()])
            .args(["--ann", &self.path("ann")])
            .args(["--marker", &self.path("marker")])
            .args(["--ctx", &self.path("ctx")])
            .args(["--known", &self.path("known")])
            .args(["--btcache", &self.path("btcache")])
            .args(["--alloc-k", &self.k.to_string()])
            .args(["--alloc-c", &self.c.to_string()])
            .args(["--shrink-budget", &self.shrink_budget.to_string()])
            .args(["--stack-mib", &self.stack_mib.to_string()])
            .args(extra)
            .env("RUST_BACKTRACE", "0")
            .stdin(Stdio::null())
            .stdout(Stdio::piped());
        match stderr_file {
            Some(f) => {
                cmd.stderr(Stdio::from(f));
            }
            None => {
                cmd.stderr(Stdio::null());
            }
        }
        let mut ch = match cmd.spawn() {
            Ok(c) => c,
            Err(e) => {
                self.report.inconclusive(format!("cannot spawn child: {}", e));
                end.code = Some(-1);
                return end;
            }
        };
        self.report.stat("children_spawned", 1);
        let spawn_t = Instant::now();
        let pid = ch.id();
        let stdout = ch.stdout.take();
        let (tx, rx) = mpsc::channel::<String>();
        let reader = std::thread::spawn(move || {
            if let Some(so) = stdout {
                let br = BufReader::with_capacity(1 << 16, so);
                for l in br.lines() {
                    match l {
                        Ok(l) => {
                            if tx.send(l).is_err() {
                                break;
                            }
                        }
                        Err(_) => break,
                    }
                }
            }
        });
        let ann_file = std::fs::File::open(self.path("ann")).ok();
        let mut last_hdr = [0u8; child::ANN_HDR];
        let mut cpu0 = 0.0f64;
        let mut wall0 = Instant::now();
        let mut last_watch = Instant::now();
        let status = loop {
            while let Ok(l) = rx.try_recv() {
                self.handle_line(&l, &mut end);
            }
            match ch.try_wait() {
                Ok(Some(st)) => break Some(st),
                Ok(None) => {}
                Err(_) => break None,
            }
            if last_watch.elapsed() >= Duration::from_millis(20) {
                last_watch = Instant::now();
                let mut hdr = [0u8; child::ANN_HDR];
                let have = ann_file.as_ref().map(|f| f.read_exact_at(&mut hdr, 0).is_ok()).unwrap_or(false);
                let cpu = cpu_seconds(pid, self.tck);
                if have && hdr != last_hdr {
                    last_hdr = hdr;
                    cpu0 = cpu.unwrap_or(cpu0);
                    wall0 = Instant::now();
                } else if let Some(cpu) = cpu {
                    if cpu - cpu0 > self.hang_cpu_s {
                        end.killed = Some(Kill::HangCpu(cpu - cpu0));
                        let _ = ch.kill();
                    } else if wall0.elapsed().as_secs_f64() > self.wall_case_s {
                        end.killed = Some(Kill::WallOnly(wall0.elapsed().as_secs_f64()));
                        let _ = ch.kill();
                    }
                }
                if respect_budget && Instant::now() > self.deadline && end.killed.is_none() {
                    end.killed = Some(Kill::Budget);
                    let _ = ch.kill();
                }
            }
            std::thread::sleep(Duration::from_millis(2));
        };
        let _ = reader.join();
        while let Ok(l) = rx.try_recv() {
            self.handle_line(&l, &mut end);
        }
        if let Some(st) = status {
            end.signal = st.signal();
            end.code = st.code();
        }
        if std::env::var_os("C07_DEBUG").is_some() {
            eprintln!(
                "[c07 parent] child {:?} -> done_next={:?} reported={} signal={:?} code={:?} killed={:?} cpu={:?} t={:.2}s",
                extra,
                end.done_next,
                end.reported,
                end.signal,
                end.code,
                end.killed,
                cpu_seconds(pid, self.tck),
                spawn_t.elapsed().as_secs_f64()
            );
        }
        end
    }

    fn marker(&self) -> (Option<String>, Option<String>) {
        let m = std::fs::read_to_string(self.path("marker")).unwrap_or_default();
        let mut reason = None;
        for l in m.lines() {
            if l.starts_with("ALLOC_CAP_SINGLE") || l.starts_with("ALLOC_CAP_LIVE") {
                reason = Some(l.to_string());
            }
        }
        let site = match (m.find("CAP_BT_BEGIN"), m.find("CAP_BT_END")) {
            (Some(a), Some(b)) if b > a => match bt::origin(&m[a..b]) {
                bt::Origin::Dust(s) => Some(s),
                _ => None,
            },
            _ => None,
        };
        (reason, site)
    }

    fn ctx_type(&self, idx: u64) -> Option<Json> {
        let s = std::fs::read_to_string(self.path("ctx")).ok()?;
        let j = Json::parse(&s).ok()?;
        if j.get("block")?.as_u64()? != idx / child::BLOCK {
            return None;
        }
        match j.get("type")? {
            Json::Null => None,
            t => Some(t.clone()),
        }
    }

    /// Classify a child death. Returns (signature, message) for a genuine finding.
    fn death_sig(&mut self, end: &ChildEnd, a: &Announced) -> Result<(String, String), String> {
        let dec = Decoder::from_id(a.dec).ok_or_else(|| "unknown decoder id in announce".to_string())?;
        let class = a.class.replace("(minimized)", "");
        let cb = class.split('=').next().unwrap_or("?").to_string();
        let stderr_tail: String = std::fs::read_to_string(self.path("stderr"))
            .unwrap_or_default()
            .lines()
            .rev()
            .take(3)
            .collect::<Vec<_>>()
            .join(" / ");
        match &end.killed {
            Some(Kill::HangCpu(s)) => {
                return Ok((
                    // closed form: the input class varies with the seed and goes into the description
                    format!("hang|{}|cpu_over_5s", dec.name()),
                    format!("no result after {:.1} s CPU time on this input (killed); input class {}", s, cb),
                ));
            }
            Some(Kill::WallOnly(s)) => {
                return Err(format!(
                    "case {} {}: {:.0} s wall clock without result but CPU time below the hang threshold",
                    a.idx,
                    dec.name(),
                    s
                ));
            }
            Some(Kill::Budget) => return Err("budget".into()),
            None => {}
        }
        let (reason, site) = self.marker();
        if let Some(r) = reason {
            let what = site.clone().unwrap_or_else(|| format!("class:{}", cb));
            return Ok((
                format!("abort|{}|alloc_cap|{}", dec.name(), what),
                format!("allocation request above the hard cap not attempted ({}); process aborted", r),
            ));
        }
        match end.signal {
            Some(s) => Ok((
                format!("abort|{}|signal {}|{}", dec.name(), s, cb),
                format!("process died with signal {} ({})", s, stderr_tail),
            )),
            None => Err(format!(
                "case {} {}: child exited with code {:?} ({})",
                a.idx,
                dec.name(),
                end.code,
                stderr_tail
            )),
        }
    }

    fn replay_obj(&self, dec: Decoder, a: &Announced, input: &[u8], class: &str) -> Json {
        let mut j = Json::obj()
            .set("engine", "xcdr c07")
            .set("decoder", dec.name())
            .set("input_hex", vcore::hex(input))
            .set("class", class)
            .set("seed", self.seed)
            .set("shard", self.shard)
            .set("index", a.idx)
            .set("alloc_k", self.k)
            .set("alloc_c", self.c);
        if dec == Decoder::Xtypes {
            if let Some(t) = self.ctx_type(a.idx) {
                j.put("type", t);
            }
            if input.len() >= 2 {
                j.put("repr_id", format!("{:02x}{:02x}", input[0], input[1]));
            }
        }
        j
    }

    /// Run one input in a fresh child; returns the death signature (None if it survived).
    fn probe_death(&mut self, replay: &Json) -> Option<String> {
        let _ = std::fs::write(self.path("replay1"), replay.to_string());
        let _ = std::fs::remove_file(self.path("ann"));
        // probing must not distort counts
        self.muted = true;
        let t = Instant::now();
        let end = self.run_child(&["--replay-one".to_string(), self.path("replay1")], false);
        self.probe_time += t.elapsed();
        self.muted = false;
        self.report.stat("shrink_probe_children", 1);
        if end.done_next.is_some() && end.signal.is_none() && end.killed.is_none() {
            return None;
        }
        let a = child::read_announce(&self.path("ann"))?;
        if a.dec == DEC_SETUP {
            return None;
        }
        self.death_sig(&end, &a).ok().map(|(s, _)| s)
    }

    /// A child died on the announced input: record it, minimise by truncation with probe children.
    fn on_death(&mut self, end: &ChildEnd, a: &Announced) {
        self.report.stat("children_died", 1);
        let dec = match Decoder::from_id(a.dec) {
            Some(d) => d,
            None => return,
        };
        let mut verdict = self.death_sig(end, a);
        if let (Ok((sig, _)), Some(Kill::HangCpu(_))) = (&verdict, &end.killed) {
            // second opinion in a fresh process: CPU time is not entirely load independent
            let r = self.replay_obj(dec, a, &a.input, &a.class);
            let again = self.probe_death(&r);
            if again.as_deref() != Some(sig.as_str()) {
                self.report.stat("hang_not_confirmed_on_rerun", 1);
                verdict = Err("unconfirmed".into());
            }
        }
        match verdict {
            Err(why) => {
                if why != "budget" && why != "unconfirmed" {
                    self.report.inconclusive(why);
                }
            }
            Ok((sig, msg)) => {
                self.report.evaluations += 1;
                self.count(&sig, 1);
                self.report.stat(&format!("decoder.{}", dec.name()), 1);
                self.report.stat(if sig.starts_with("hang|") { "outcome.hang" } else { "outcome.abort" }, 1);
                self.report
                    .nontrivial(vcore::fnv_str(&format!("{}|{}|viol:{}", dec.name(), a.class, sig)));
                let replay = self.replay_obj(dec, a, &a.input, &a.class);
                self.add_witness(
                    &sig,
                    Witness {
                        len: a.input.len(),
                        minimized: false,
                        what: child::what_line(dec, &a.class, &a.input, &msg),
                        replay: replay.clone(),
                    },
                );
                self.samples.entry(format!("{}:death", sig.split('|').next().unwrap_or("abort"))).or_insert_with(|| {
                    Json::obj()
                        .set("decoder", dec.name())
                        .set("class", a.class.clone())
                        .set("index", a.idx)
                        .set("len", a.input.len())
                        .set("input_hex_prefix", vcore::hex(&a.input[..a.input.len().min(64)]))
                        .set("outcome", format!("viol:{}", sig))
                });
                // minimise aborts (not hangs: each probe would burn the CPU limit) once per signature
                let probe_budget = Duration::from_millis(self.probe_budget_ms);
                if !sig.starts_with("hang|")
                    && self.probe_time < probe_budget
                    && self.abort_minimized.insert(sig.clone())
                    && Instant::now() < self.deadline
                {
                    let (mut lo, mut hi) = (0usize, a.input.len());
                    let mut probes = 0;
                    let t_sig = Instant::now();
                    while lo < hi
                        && probes < 18
                        && Instant::now() < self.deadline
                        && t_sig.elapsed() < Duration::from_millis(self.probe_budget_ms / 3)
                    {
                        let mid = (lo + hi) / 2;
                        probes += 1;
                        let r = self.replay_obj(dec, a, &a.input[..mid], &a.class);
                        if self.probe_death(&r).as_deref() == Some(sig.as_str()) {
                            hi = mid;
                        } else {
                            lo = mid + 1;
                        }
                    }
                    if hi < a.input.len() {
                        let cls = format!("{}(minimized)", a.class);
                        let r = self.replay_obj(dec, a, &a.input[..hi], &cls);
                        if self.probe_death(&r).as_deref() == Some(sig.as_str()) {
                            self.add_witness(
                                &sig,
                                Witness {
                                    len: hi,
                                    minimized: true,
                                    what: child::what_line(dec, &cls, &a.input[..hi], &msg),
                                    replay: r,
                                },
                            );
                        }
                    }
                }
            }
        }
    }

    fn finish(mut self, out: &str, wall: f64) -> i32 {
        for (sig, ws) in std::mem::take(&mut self.cand) {
            for w in ws.into_iter().take(3) {
                self.report.violations.push(vcore::Violation {
                    sig: sig.clone(),
                    what: w.what,
                    replay: w.replay,
                });
            }
        }
        // 2-4 samples, one per outcome kind, in a stable order
        let order = ["ok:valid", "err:mutated", "panic:mutated", "ok:mutated", "err:random", "alloc:mutated", "abort:death", "hang:death"];
        let mut picked = Vec::new();
        for k in order {
            if let Some(s) = self.samples.get(k) {
                picked.push(s.clone());
            }
        }
        for (_, s) in &self.samples {
            if picked.len() >= 4 {
                break;
            }
            if !picked.contains(s) {
                picked.push(s.clone());
            }
        }
        for s in picked.into_iter().take(4) {
            self.report.sample(s);
        }
        self.report.maxstat("wall_ms", (wall * 1000.0) as i128);
        if wall > 0.0 {
            self.report.maxstat("cases_per_second", (self.report.evaluations as f64 / wall) as i128);
        }
        self.report.maxstat("alloc_bound_k", self.k as i128);
        self.report.maxstat("alloc_bound_c", self.c as i128);
        self.report.write(out);
        for ext in ["ann", "marker", "ctx", "known", "stderr", "replay1", "btcache"] {
            let _ = std::fs::remove_file(self.path(ext));
        }
        0
    }
}

pub fn main(args: &vcore::Args) -> i32 {
    if args.has("child") {
        return child::child_main(args);
    }
    let t0 = Instant::now();
    let seed = args.u64("seed", 1);
    let shard = args.u64("shard", 0);
    let nshards = args.u64("nshards", 1).max(1);
    let total = args.u64("cases", 100_000);
    let tier = args.str("tier", "quick");
    let out = args.str("out", "-");
    let budget_s = args.u64("budget-s", if tier == "thorough" { 540 } else { 52 });
    let chunk = args.u64("chunk", 64 * child::BLOCK).max(1);
    let per = total / nshards + if shard < total % nshards { 1 } else { 0 };
    let base = if out == "-" || out.is_empty() {
        format!(
            "{}/c07-{}-{}-{}",
            std::env::temp_dir().display(),
            std::process::id(),
            seed,
            shard
        )
    } else {
        out.clone()
    };
    let exe = match std::env::current_exe() {
        Ok(e) => e,
        Err(e) => {
            let mut r = Report::new("C07");
            r.inconclusive(format!("current_exe: {}", e));
            r.write(&out);
            return 0;
        }
    };
    let mut p = Parent {
        exe,
        seed,
        shard,
        k: args.u64("alloc-k", 1024),
        c: args.u64("alloc-c", 1 << 20),
        shrink_budget: args.u64("shrink-budget", 250),
        stack_mib: args.u64("stack-mib", 8),
        hang_cpu_s: args.u64("hang-cpu-s", 5) as f64,
        wall_case_s: args.u64("wall-case-s", 60) as f64,
        probe_budget_ms: args.u64("probe-budget-ms", if tier == "thorough" { 30_000 } else { 6_000 }),
        base,
        report: Report::new("C07"),
        cand: BTreeMap::new(),
        samples: BTreeMap::new(),
        deadline: t0 + Duration::from_secs(budget_s),
        tck: clk_tck(),
        abort_minimized: HashSet::new(),
        muted: false,
        btcache: Vec::new(),
        probe_time: Duration::ZERO,
    };
    p.report.max_samples = 4;

    if args.has("replay") {
        return replay(p, &args.str("replay", ""), &out, t0);
    }

    let mut next = 0u64;
    let mut dead: Vec<u64> = Vec::new();
    while next < per {
        if Instant::now() > p.deadline {
            p.report.stat("budget_stopped", 1);
            // (fewer cases than planned is not a harness failure: the runner's min_evaluations decides)
            p.report.stat("cases_not_run", (per - next) as i128);
            break;
        }
        let from = next;
        let to = (from + chunk).min(per);
        let _ = std::fs::remove_file(p.path("ann"));
        // the announce file must exist before the watchdog opens it
        let _ = std::fs::write(p.path("ann"), [0u8; child::ANN_HDR]);
        let skip: Vec<String> = dead.iter().filter(|d| **d >= from && **d < to).map(|d| d.to_string()).collect();
        let end = p.run_child(
            &[
                "--from".to_string(),
                from.to_string(),
                "--to".to_string(),
                to.to_string(),
                "--skip".to_string(),
                if skip.is_empty() { "none".to_string() } else { skip.join(",") },
            ],
            true,
        );
        if end.killed.is_none() && end.signal.is_none() && end.code == Some(0) {
            if let Some(n) = end.done_next {
                next = n.max(from + 1);
                continue;
            }
        }
        if end.killed == Some(Kill::Budget) {
            p.report.stat("budget_stopped", 1);
            p.report.stat("cases_not_run", (per - (from + end.reported).min(per)) as i128);
            break;
        }
        // the child died: attribute to the announced case
        let a = child::read_announce(&p.path("ann"));
        match a {
            Some(a) if a.idx >= from && a.idx < to => {
                if a.dec == DEC_SETUP {
                    p.report.stat("children_died", 1);
                    p.report.inconclusive(format!(
                        "child died in harness code ({}) for case {} (signal {:?}, code {:?}, killed {:?})",
                        a.class, a.idx, end.signal, end.code, end.killed
                    ));
                    if a.class == "setup" {
                        let nb = (a.idx / child::BLOCK + 1) * child::BLOCK;
                        p.report.stat("cases_not_run", (nb.min(per) - a.idx) as i128);
                        next = nb;
                    } else {
                        // input generation of this case: skip it, run its batch again
                        dead.push(a.idx);
                        p.report.stat("cases_not_run", 1);
                        next = from.max(a.idx - a.idx % child::BATCH);
                    }
                } else {
                    p.on_death(&end, &a);
                    dead.push(a.idx);
                    next = match a.flags {
                        // died in the main decoding pass of a batch: the earlier cases of that batch
                        // were decoded but not yet evaluated -> run the batch again without this case
                        0 => from.max(a.idx - a.idx % child::BATCH),
                        // died while probing the type of a block: give the block up
                        2 => {
                            let nb = (a.idx / child::BLOCK + 1) * child::BLOCK;
                            p.report.stat("cases_not_run", (nb.min(per) - a.idx) as i128);
                            nb
                        }
                        // died on a shrink candidate: everything before is evaluated
                        _ => a.idx + 1,
                    };
                }
            }
            _ => {
                p.report.stat("children_died", 1);
                p.report.inconclusive(format!(
                    "child for cases {}..{} died without a usable announce record (signal {:?}, code {:?})",
                    from, to, end.signal, end.code
                ));
                next = from + end.reported + 1;
            }
        }
    }
    let wall = t0.elapsed().as_secs_f64();
    p.finish(&out, wall)
}

fn replay(mut p: Parent, file: &str, out: &str, t0: Instant) -> i32 {
    let txt = std::fs::read_to_string(file).unwrap_or_default();
    let j = match Json::parse(&txt) {
        Ok(j) => j,
        Err(e) => {
            p.report.inconclusive(format!("replay file {}: {}", file, e));
            return p.finish(out, t0.elapsed().as_secs_f64());
        }
    };
    let ws: Vec<Json> = j.get("witnesses").and_then(|w| w.as_arr()).map(|a| a.to_vec()).unwrap_or_default();
    if ws.is_empty() {
        p.report.inconclusive("replay file has no witnesses");
    }
    for w in ws {
        let r = match w.get("replay") {
            Some(r) => r.clone(),
            None => continue,
        };
        if let Some(s) = r.get("seed").and_then(|s| s.as_u64()) {
            p.seed = s;
        }
        if let Some(s) = r.get("shard").and_then(|s| s.as_u64()) {
            p.shard = s;
        }
        let _ = std::fs::write(p.path("replay1"), r.to_string());
        let _ = std::fs::write(p.path("ann"), [0u8; child::ANN_HDR]);
        let end = p.run_child(&["--replay-one".to_string(), p.path("replay1")], false);
        if end.killed.is_none() && end.signal.is_none() && end.code == Some(0) && end.done_next.is_some() {
            continue;
        }
        match child::read_announce(&p.path("ann")) {
            Some(a) if a.dec != DEC_SETUP => {
                // keep the type of the witness for the new replay object
                if let Some(t) = r.get("type") {
                    let _ = std::fs::write(
                        p.path("ctx"),
                        Json::obj().set("block", a.idx / child::BLOCK).set("type", t.clone()).to_string(),
                    );
                }
                let dec = Decoder::from_id(a.dec);
                if let (Some(_), Ok((sig, _))) = (dec, p.death_sig(&end, &a)) {
                    p.abort_minimized.insert(sig);
                }
                p.on_death(&end, &a);
            }
            _ => {
                p.report.inconclusive(format!(
                    "replay child died outside a decoder call (signal {:?}, code {:?})",
                    end.signal, end.code
                ));
            }
        }
    }
    p.finish(out, t0.elapsed().as_secs_f64())
}
