//! Child process: runs a contiguous range of case indices, announces every decoder invocation
//! before making it, streams findings / summaries as JSON lines on stdout.
use super::decoders::{self, Decoder, Ret, Verdict};
use super::gen_disc::{self, Disc};
use super::{bt, gen_rtps, gen_tl, mutate};
use crate::alloc_track;
use crate::dustglue;
use crate::model::{self, Gen, GenCfg, Ty};
use dust_dds::verif_hooks::data_representation_builtin_endpoints::{
    discovered_reader_data::DiscoveredReaderData, discovered_topic_data::DiscoveredTopicData,
    discovered_writer_data::DiscoveredWriterData, spdp_discovered_participant_data::SpdpDiscoveredParticipantData,
};
use dust_dds::verif_hooks::serializer::{serialize_cdr1_be, serialize_cdr1_le, serialize_cdr2_be, serialize_cdr2_le};
use dust_dds::xtypes::dynamic_type::DynamicType;
use dust_dds::xtypes::type_object::{CompleteTypeObject, MinimalTypeObject, TypeInformation, TypeObject};
use dust_dds::xtypes::type_support::TypeSupport;
use std::collections::{BTreeMap, BTreeSet, HashSet};
use std::io::Write;
use std::os::unix::fs::FileExt;
use std::panic::{AssertUnwindSafe, catch_unwind};
use vcore::{Json, Rng, mix};

pub const BLOCK: u64 = 256;
/// cases handed to the decoder thread at once (BLOCK is a multiple)
pub const BATCH: u64 = 32;
pub const ANN_MAGIC: u32 = 0x4137_3043; // "C07A"
pub const DEC_SETUP: u8 = 0xfe;
pub const ANN_HDR: usize = 40;

/// Announce record: magic u32, decoder u8, flags u8 (1 = shrink candidate), class_len u16,
/// idx u64, input_len u64, fnv(input) u64, fnv(class) u64, class bytes, input bytes.
pub struct Announcer {
    file: std::fs::File,
    buf: Vec<u8>,
}

impl Announcer {
    pub fn open(path: &str) -> std::io::Result<Announcer> {
        let file = std::fs::OpenOptions::new().write(true).create(true).truncate(false).open(path)?;
        Ok(Announcer {
            file,
            buf: Vec::with_capacity(1 << 17),
        })
    }
    pub fn announce(&mut self, idx: u64, dec: u8, flags: u8, class: &str, input: &[u8]) {
        let cl = class.as_bytes();
        let cl = &cl[..cl.len().min(200)];
        self.buf.clear();
        self.buf.extend_from_slice(&ANN_MAGIC.to_le_bytes());
        self.buf.push(dec);
        self.buf.push(flags);
        self.buf.extend_from_slice(&(cl.len() as u16).to_le_bytes());
        self.buf.extend_from_slice(&idx.to_le_bytes());
        self.buf.extend_from_slice(&(input.len() as u64).to_le_bytes());
        self.buf.extend_from_slice(&vcore::fnv(input).to_le_bytes());
        self.buf.extend_from_slice(&vcore::fnv(cl).to_le_bytes());
        self.buf.extend_from_slice(cl);
        self.buf.extend_from_slice(input);
        let _ = self.file.write_all_at(&self.buf, 0);
    }
}

#[derive(Clone, Debug)]
pub struct Announced {
    pub idx: u64,
    pub dec: u8,
    pub flags: u8,
    pub class: String,
    pub input: Vec<u8>,
}

/// Parent side: read the last announce record (None if absent / torn).
pub fn read_announce(path: &str) -> Option<Announced> {
    let b = std::fs::read(path).ok()?;
    if b.len() < ANN_HDR || u32::from_le_bytes([b[0], b[1], b[2], b[3]]) != ANN_MAGIC {
        return None;
    }
    let dec = b[4];
    let flags = b[5];
    let cl = u16::from_le_bytes([b[6], b[7]]) as usize;
    let rd = |o: usize| u64::from_le_bytes([b[o], b[o + 1], b[o + 2], b[o + 3], b[o + 4], b[o + 5], b[o + 6], b[o + 7]]);
    let idx = rd(8);
    let il = rd(16) as usize;
    let hin = rd(24);
    let hcl = rd(32);
    if b.len() < ANN_HDR + cl + il {
        return None;
    }
    let class = &b[ANN_HDR..ANN_HDR + cl];
    let input = &b[ANN_HDR + cl..ANN_HDR + cl + il];
    if vcore::fnv(class) != hcl || vcore::fnv(input) != hin {
        return None;
    }
    Some(Announced {
        idx,
        dec,
        flags,
        class: String::from_utf8_lossy(class).to_string(),
        input: input.to_vec(),
    })
}

/// Read only the case index of the announce record (cheap, for the CPU watchdog).
pub fn read_announce_idx(file: &std::fs::File) -> Option<(u64, u8)> {
    let mut h = [0u8; 16];
    file.read_exact_at(&mut h, 0).ok()?;
    if u32::from_le_bytes([h[0], h[1], h[2], h[3]]) != ANN_MAGIC {
        return None;
    }
    Some((u64::from_le_bytes([h[8], h[9], h[10], h[11], h[12], h[13], h[14], h[15]]), h[5]))
}

// ---------------------------------------------------------------------------------------------

pub struct Cfg {
    pub seed: u64,
    pub shard: u64,
    pub k: u64,
    pub c: u64,
    pub shrink_budget: usize,
}

pub fn block_decoder(seed: u64, shard: u64, block: u64) -> Decoder {
    let h = mix(mix(mix(seed, shard), block), 0xC07B) % 100;
    match h {
        0..=27 => Decoder::Rtps,
        28..=36 => Decoder::Participant,
        37..=45 => Decoder::Writer,
        46..=54 => Decoder::Reader,
        55..=61 => Decoder::Topic,
        62..=68 => Decoder::TlRequest,
        69..=75 => Decoder::TlReply,
        _ => Decoder::Xtypes,
    }
}

pub struct BlockCtx {
    pub id: u64,
    pub dec: Decoder,
    pub ty: Option<Ty>,
    pub ty_json: Option<Json>,
    pub dt: Option<DynamicType<'static>>,
    pub member_ids: Vec<u32>,
    pub shape: String,
    pub typeinfo: Option<Vec<u8>>,
    pub objects: Vec<TypeObject>,
}

fn collect_ids(t: &Ty, out: &mut Vec<u32>, depth: usize) {
    if depth > 8 {
        return;
    }
    match t {
        Ty::Struct(s) => {
            for m in &s.members {
                out.push(m.id);
                collect_ids(&m.ty, out, depth + 1);
            }
        }
        Ty::Union(u) => {
            out.push(0);
            for c in &u.cases {
                out.push(c.id);
                if let Some(t) = &c.ty {
                    collect_ids(t, out, depth + 1);
                }
            }
        }
        Ty::Seq { elem, .. } | Ty::Arr { elem, .. } => collect_ids(elem, out, depth + 1),
        _ => {}
    }
}

fn quiet<T>(f: impl FnOnce() -> T) -> Result<T, String> {
    let r = catch_unwind(AssertUnwindSafe(f));
    match r {
        Ok(v) => Ok(v),
        Err(_) => {
            let p = bt::take_last();
            Err(p.map(|p| format!("{} at {}:{}", p.msg, p.file, p.line)).unwrap_or_else(|| "panic".into()))
        }
    }
}

/// Deterministic per-block context (type, type information, type objects).
pub fn setup_block(cfg: &Cfg, id: u64, agg: &mut Agg) -> BlockCtx {
    let dec = block_decoder(cfg.seed, cfg.shard, id);
    let mut ctx = BlockCtx {
        id,
        dec,
        ty: None,
        ty_json: None,
        dt: None,
        member_ids: Vec::new(),
        shape: String::new(),
        typeinfo: None,
        objects: Vec::new(),
    };
    let need_type = matches!(dec, Decoder::Xtypes | Decoder::Writer | Decoder::Reader | Decoder::Topic | Decoder::TlReply);
    if !need_type {
        return ctx;
    }
    let bseed = mix(mix(mix(cfg.seed, cfg.shard), id), 0x7E);
    for attempt in 0..4u64 {
        let built = quiet(|| {
            let mut g = Gen::new(Rng::new(mix(bseed, attempt)), GenCfg::full());
            let ty = g.top_type();
            let dt = dustglue::build_type(&ty);
            (ty, dt)
        });
        match built {
            Ok((ty, dt)) => {
                agg.stat("types_built", 1);
                collect_ids(&ty, &mut ctx.member_ids, 0);
                ctx.member_ids.sort();
                ctx.member_ids.dedup();
                ctx.shape = model::shape_class(&ty);
                ctx.ty_json = Some(model::ty_to_json(&ty));
                ctx.ty = Some(ty);
                ctx.dt = Some(dt);
                break;
            }
            Err(e) => {
                agg.stat("type_build_failed", 1);
                agg.inconclusive(format!("harness: building a generated type panicked ({})", e));
            }
        }
    }
    if let Some(dt) = ctx.dt {
        if matches!(dec, Decoder::Writer | Decoder::Reader | Decoder::Topic) {
            // PID_TYPE_INFORMATION value the way dust-dds writes it (XCDR2 LE without header)
            let ti = quiet(|| {
                let d = TypeInformation::from(dt).create_dynamic_sample();
                serialize_cdr2_le(&d).ok().map(|b| b[4.min(b.len())..].to_vec())
            });
            match ti {
                Ok(Some(b)) => ctx.typeinfo = Some(b),
                _ => agg.stat("typeinfo_unavailable", 1),
            }
        }
        if dec == Decoder::TlReply {
            if let Ok(o) = quiet(|| TypeObject::EkComplete {
                complete: CompleteTypeObject::from(dt),
            }) {
                ctx.objects.push(o);
            }
            if let Ok(o) = quiet(|| TypeObject::EkMinimal {
                minimal: MinimalTypeObject::from(dt),
            }) {
                ctx.objects.push(o);
            }
            if ctx.objects.is_empty() {
                agg.stat("typeobject_unavailable", 1);
            }
        }
    }
    ctx
}

pub struct Case {
    pub input: Vec<u8>,
    pub class: String,
    /// unmutated output of a dust-dds encoder (or accepted by the decoder as is)
    pub valid: bool,
    pub kinds: Vec<&'static str>,
    /// the model value a valid xtypes sample was serialized from
    pub orig: Option<model::Val>,
}

fn disc_of(dec: Decoder) -> Option<Disc> {
    match dec {
        Decoder::Participant => Some(Disc::Participant),
        Decoder::Writer => Some(Disc::Writer),
        Decoder::Reader => Some(Disc::Reader),
        Decoder::Topic => Some(Disc::Topic),
        _ => None,
    }
}

/// own PL -> (if accepted) dust-dds' own encoding of the decoded value
fn through_dust(dec: Decoder, own: &[u8]) -> Option<Vec<u8>> {
    quiet(|| match dec {
        Decoder::Participant => SpdpDiscoveredParticipantData::from_bytes(own).ok().map(|v| v.into_bytes()),
        Decoder::Writer => DiscoveredWriterData::from_bytes(own).ok().map(|v| v.into_bytes()),
        Decoder::Reader => DiscoveredReaderData::from_bytes(own).ok().map(|v| v.into_bytes()),
        Decoder::Topic => DiscoveredTopicData::from_bytes(own).ok().map(|v| v.into_bytes()),
        _ => None,
    })
    .ok()
    .flatten()
}

struct Seed {
    bytes: Vec<u8>,
    label: &'static str,
    kinds: Vec<&'static str>,
    orig: Option<model::Val>,
}

/// Grow the first suitable sequence inside `v` to `target` elements (calibration of the allocation
/// bound on large valid samples). Sequences of aggregated / enumerated elements first: they have the
/// largest decoded size per wire byte.
fn inflate(t: &Ty, v: &mut model::Val, g: &mut Gen, target: usize, want_complex: bool, depth: usize) -> bool {
    use model::Val;
    if depth > 6 {
        return false;
    }
    match (t, v) {
        (Ty::Seq { elem, bound }, Val::List(xs)) if *bound == 0 || *bound as usize >= target => {
            let complex = matches!(**elem, Ty::Struct(_) | Ty::Union(_) | Ty::Enum(_) | Ty::Str { .. } | Ty::WStr { .. });
            if want_complex && !complex {
                return false;
            }
            let mut nodes = 0usize;
            while xs.len() < target && nodes < 60_000 {
                let x = g.value(elem);
                nodes += model::val_nodes(&x);
                xs.push(x);
            }
            true
        }
        (Ty::Seq { bound, .. }, Val::Bytes(b)) if !want_complex && (*bound == 0 || *bound as usize >= target) => {
            b.resize(target, 7);
            true
        }
        (Ty::Struct(s), Val::Struct(ms)) => {
            for (m, mv) in s.members.iter().zip(ms.iter_mut()) {
                if let Some(x) = mv {
                    if inflate(&m.ty, x, g, target, want_complex, depth + 1) {
                        return true;
                    }
                }
            }
            false
        }
        (Ty::Union(u), Val::Union { sel: Some(i), val: Some(x), .. }) => match u.cases.get(*i).and_then(|c| c.ty.as_ref()) {
            Some(ct) => inflate(ct, x, g, target, want_complex, depth + 1),
            None => false,
        },
        _ => false,
    }
}

fn valid_seed(ctx: &BlockCtx, idx: u64, r: &mut Rng, agg: &mut Agg, big: bool) -> Option<Seed> {
    match ctx.dec {
        Decoder::Rtps => {
            let vm = quiet(|| gen_rtps::valid_message(r, idx)).ok()?;
            Some(Seed {
                bytes: vm.bytes,
                label: "valid",
                kinds: vm.kinds,
                orig: None,
            })
        }
        Decoder::Participant | Decoder::Writer | Decoder::Reader | Decoder::Topic => {
            let own = gen_disc::valid_pl(disc_of(ctx.dec)?, r, ctx.typeinfo.as_deref(), big);
            if big || r.chance(0.7) {
                if let Some(b) = through_dust(ctx.dec, &own) {
                    return Some(Seed {
                        bytes: b,
                        label: "valid",
                        kinds: vec![],
                        orig: None,
                    });
                }
                agg.stat("own_pl_not_accepted", 1);
            }
            Some(Seed {
                bytes: own,
                label: "wellformed_own",
                kinds: vec![],
                orig: None,
            })
        }
        Decoder::TlRequest | Decoder::TlReply => {
            let objects = &ctx.objects;
            let is_req = ctx.dec == Decoder::TlRequest;
            let res = quiet(|| {
                let d = if is_req { gen_tl::request(r, big) } else { gen_tl::reply(r, objects, big) };
                gen_tl::serialize(r, &d)
            });
            match res {
                Ok(Some((_lab, b))) => Some(Seed {
                    bytes: b,
                    label: "valid",
                    kinds: vec![],
                    orig: None,
                }),
                _ => {
                    agg.stat("seed_skipped_serializer", 1);
                    None
                }
            }
        }
        Decoder::Xtypes => {
            let ty = ctx.ty.as_ref()?;
            let dt = ctx.dt?;
            let res = quiet(|| {
                let mut g = Gen::new(Rng::new(r.next_u64()), GenCfg::full());
                let mut v = g.value(ty);
                if big {
                    let target = *r.pick(&[300usize, 1000, 3000, 10000]);
                    if !inflate(ty, &mut v, &mut g, target, true, 0) && !inflate(ty, &mut v, &mut g, target, false, 0) {
                        return None;
                    }
                }
                let d = dustglue::build_data(dt, ty, &v).ok()?;
                let b = match r.below(4) {
                    0 => serialize_cdr1_le(&d).ok(),
                    1 => serialize_cdr1_be(&d).ok(),
                    2 => serialize_cdr2_le(&d).ok(),
                    _ => serialize_cdr2_be(&d).ok(),
                }?;
                Some((b, v))
            });
            match res {
                Ok(Some((b, v))) => Some(Seed {
                    bytes: b,
                    label: "valid",
                    kinds: vec![],
                    orig: Some(v),
                }),
                _ => {
                    agg.stat("seed_skipped_serializer", 1);
                    None
                }
            }
        }
    }
}

fn random_prefixed(dec: Decoder, r: &mut Rng) -> Vec<u8> {
    let n = mutate::random_len(r);
    match dec {
        Decoder::Rtps => {
            let mut b = b"RTPS".to_vec();
            b.push(2);
            b.push(r.below(6) as u8);
            b.extend_from_slice(&[1, r.below(20) as u8]);
            b.extend_from_slice(&r.bytes(12));
            if r.bool() {
                b.extend_from_slice(&mutate::random_bytes(r, n));
            } else {
                // plausible submessage framing around random bodies
                while b.len() < n + 20 {
                    let id = *r.pick(&[0x01u8, 0x06, 0x07, 0x08, 0x09, 0x0c, 0x0e, 0x0f, 0x12, 0x13, 0x15, 0x16, 0x15, 0x16, 0x12]);
                    let flags = if r.chance(0.7) { 1 | (r.below(8) as u8) << 1 } else { r.next_u32() as u8 };
                    let bl = *r.pick(&[0usize, 4, 8, 12, 16, 20, 24, 28, 32, 36, 44, 64, 100]);
                    let wl: u16 = if r.chance(0.85) { bl as u16 } else { r.next_u32() as u16 };
                    b.push(id);
                    b.push(flags);
                    if flags & 1 == 1 {
                        b.extend_from_slice(&wl.to_le_bytes());
                    } else {
                        b.extend_from_slice(&wl.to_be_bytes());
                    }
                    b.extend_from_slice(&mutate::random_bytes(r, bl));
                }
            }
            b
        }
        Decoder::Participant | Decoder::Writer | Decoder::Reader | Decoder::Topic => {
            let le = r.chance(0.8);
            let mut b = vec![0, if le { 3 } else { 2 }, 0, 0];
            if r.bool() {
                b.extend_from_slice(&mutate::random_bytes(r, n));
            } else {
                while b.len() < n + 4 {
                    let pid = if r.chance(0.9) { *r.pick(&gen_disc::ALL_PIDS) } else { r.next_u32() as u16 };
                    let vl = *r.pick(&[0usize, 4, 4, 8, 8, 12, 16, 16, 24, 24, 40, 100]);
                    let wl: u16 = if r.chance(0.9) { vl as u16 } else { r.next_u32() as u16 };
                    if le {
                        b.extend_from_slice(&pid.to_le_bytes());
                        b.extend_from_slice(&wl.to_le_bytes());
                    } else {
                        b.extend_from_slice(&pid.to_be_bytes());
                        b.extend_from_slice(&wl.to_be_bytes());
                    }
                    b.extend_from_slice(&mutate::random_bytes(r, vl));
                }
                if r.chance(0.7) {
                    b.extend_from_slice(if le { &[1, 0, 0, 0] } else { &[0, 1, 0, 0] });
                }
            }
            b
        }
        _ => {
            let mut b = vec![0, r.below(12) as u8, 0, 0];
            if r.chance(0.1) {
                b[2] = r.next_u32() as u8;
                b[3] = r.next_u32() as u8;
            }
            b.extend_from_slice(&mutate::random_bytes(r, n));
            b
        }
    }
}

/// Replace the trailing element of a valid request by a chain of nested plain collections.
fn deep_nesting(ctx: &BlockCtx, idx: u64, r: &mut Rng, agg: &mut Agg) -> Option<Case> {
    let depth = *r.pick(&[4usize, 32, 200, 1000, 2000, 3000, 10000]);
    let kind = r.below(3) as u8;
    match ctx.dec {
        Decoder::TlRequest => {
            // request whose single type id is TK_BOOLEAN (one trailing byte 0x01) in XCDR2 LE
            let seed = quiet(|| {
                use dust_dds::transport::types::{EntityId, Guid};
                use dust_dds::verif_hooks::data_representation_builtin_endpoints::type_lookup::*;
                use dust_dds::xtypes::type_object::TypeIdentifier;
                let d = TypeLookupRequest {
                    header: RequestHeader {
                        request_id: SampleIdentity {
                            writer_guid: Guid::new([1; 12], EntityId::new([0, 3, 0], 0xc3)),
                            sequence_number: 1i64.into(),
                        },
                        instance_name: String::new(),
                    },
                    call: TypeLookupCall::TypeLookupGetTypesHashId {
                        get_types: TypeLookupGetTypesIn {
                            type_ids: vec![TypeIdentifier::TkBoolean],
                        },
                    },
                }
                .create_dynamic_sample();
                serialize_cdr2_le(&d).ok()
            })
            .ok()
            .flatten()?;
            let mut b = seed;
            // the serializer pads the sample to a multiple of 4 and notes the amount in the
            // encapsulation options
            let pad = if b.len() >= 4 { (b[3] & 3) as usize } else { 0 };
            if pad > 0 && b.len() > 4 + pad {
                b.truncate(b.len() - pad);
                b[3] &= !3;
            }
            if b.last() != Some(&0x01) {
                if std::env::var_os("C07_DEBUG").is_some() {
                    eprintln!("[c07 child] deep nesting seed: {}", vcore::hex(&b));
                }
                agg.stat("deep_nesting_seed_unexpected", 1);
                return None;
            }
            b.pop();
            gen_tl::nested_type_identifier(&mut b, 4, depth, kind, true);
            Some(Case {
                input: b,
                class: format!("deep_nesting={}", depth_bucket(depth)),
                valid: false,
                kinds: vec![],
                orig: None,
            })
        }
        Decoder::Writer | Decoder::Reader | Decoder::Topic => {
            let _ = idx;
            let le = true;
            let d = disc_of(ctx.dec)?;
            // a well-formed list with the type information replaced
            let own = gen_disc::valid_pl(d, r, None, false);
            let (_, params) = gen_disc::walk_pl(&own);
            let mut pl = gen_disc::Pl::new(le);
            if own.len() > 1 && own[1] == 3 {
                for p in &params {
                    if p.pid != gen_disc::PID_SENTINEL && p.pid != gen_disc::PID_TYPE_INFORMATION && p.fits {
                        pl.param(p.pid, &own[p.off + 4..p.off + 4 + p.len]);
                    }
                }
            } else {
                pl.param(gen_disc::PID_ENDPOINT_GUID, &[7; 16]);
            }
            let depth = depth.min(10000);
            let ti = gen_tl::nested_type_information(depth, kind);
            if ti.len() > 0xfff0 {
                return None;
            }
            pl.param(gen_disc::PID_TYPE_INFORMATION, &ti);
            pl.sentinel();
            Some(Case {
                input: pl.buf,
                class: format!("deep_nesting={}", depth_bucket(depth)),
                valid: false,
                kinds: vec![],
                orig: None,
            })
        }
        _ => None,
    }
}

fn depth_bucket(d: usize) -> &'static str {
    match d {
        0..=99 => "lt100",
        100..=999 => "lt1000",
        _ => "ge1000",
    }
}

/// The input of case `idx` (pure function of seed, shard, idx and the block context).
pub fn make_case(cfg: &Cfg, ctx: &BlockCtx, idx: u64, agg: &mut Agg) -> Case {
    let mut r = Rng::new(mix(mix(mix(cfg.seed, cfg.shard), idx), 0xC07));
    let dec = ctx.dec;
    let roll = r.below(100);
    if roll < 10 {
        let n = mutate::random_len(&mut r);
        return Case {
            input: mutate::random_bytes(&mut r, n),
            class: "random".into(),
            valid: false,
            kinds: vec![],
            orig: None,
        };
    }
    if roll < 18 {
        return Case {
            input: random_prefixed(dec, &mut r),
            class: "random_prefixed".into(),
            valid: false,
            kinds: vec![],
            orig: None,
        };
    }
    if (24..27).contains(&roll) {
        if dec == Decoder::Rtps {
            let n = *r.pick(&[24usize, 100, 2000, 20000, 65000, 70000]);
            // a well-formed datagram of very many minimal submessages
            return Case {
                input: gen_rtps::flood(&mut r, n),
                class: "valid_flood".into(),
                valid: true,
                kinds: vec![],
                orig: None,
            };
        }
        // (a chain that overflows the stack costs a process: keep those to a few per shard)
        if roll == 24 && r.chance(0.8) {
            if let Some(c) = deep_nesting(ctx, idx, &mut r, agg) {
                return c;
            }
        }
    }
    let big = roll == 27 && r.chance(0.6);
    let seed = match valid_seed(ctx, idx, &mut r, agg, big) {
        Some(s) => s,
        None => {
            return Case {
                input: random_prefixed(dec, &mut r),
                class: "random_prefixed".into(),
                valid: false,
                kinds: vec![],
                orig: None,
            };
        }
    };
    if (18..24).contains(&roll) || big {
        return Case {
            input: seed.bytes,
            class: if big && seed.label == "valid" { "valid_big".into() } else { seed.label.into() },
            valid: seed.label == "valid",
            kinds: seed.kinds,
            orig: seed.orig,
        };
    }
    let one = |r: &mut Rng, b: &[u8]| -> mutate::Mutated {
        if r.chance(0.12) {
            return mutate::generic(r, b, &[4, 20]);
        }
        match dec {
            Decoder::Rtps => mutate::rtps(r, b),
            Decoder::Participant | Decoder::Writer | Decoder::Reader | Decoder::Topic => mutate::pl(r, b),
            _ => mutate::xcdr(r, b, &ctx.member_ids),
        }
    };
    let m1 = one(&mut r, &seed.bytes);
    if r.chance(0.08) {
        let m2 = one(&mut r, &m1.bytes);
        return Case {
            input: m2.bytes,
            class: "double".into(),
            valid: false,
            kinds: seed.kinds,
            orig: None,
        };
    }
    Case {
        input: m1.bytes,
        class: m1.class,
        valid: false,
        kinds: seed.kinds,
        orig: None,
    }
}

// ---------------------------------------------------------------------------------------------
// aggregation / output
// ---------------------------------------------------------------------------------------------

#[derive(Default)]
pub struct Agg {
    pub n: u64,
    pub stats: BTreeMap<String, i128>,
    pub maxstats: BTreeMap<String, i128>,
    pub sets: BTreeMap<String, BTreeSet<String>>,
    pub nontrivial: Vec<u64>,
    pub inconclusive: Vec<String>,
    seen_nt: HashSet<u64>,
    seen_set: HashSet<u64>,
    inc_total: usize,
}

impl Agg {
    pub fn stat(&mut self, k: &str, n: i128) {
        *self.stats.entry(k.to_string()).or_insert(0) += n;
    }
    pub fn maxstat(&mut self, k: &str, n: i128) {
        let e = self.maxstats.entry(k.to_string()).or_insert(n);
        if n > *e {
            *e = n;
        }
    }
    pub fn set(&mut self, k: &str, v: &str) {
        let h = vcore::fnv_str(&format!("{}\u{1}{}", k, v));
        if self.seen_set.len() < 20000 && self.seen_set.insert(h) {
            self.sets.entry(k.to_string()).or_default().insert(v.to_string());
        }
    }
    pub fn nontrivial(&mut self, h: u64) {
        if self.seen_nt.len() < 100_000 && self.seen_nt.insert(h) {
            self.nontrivial.push(h);
        }
    }
    pub fn inconclusive(&mut self, s: String) {
        self.inc_total += 1;
        if self.inc_total <= 10 {
            self.inconclusive.push(s);
        }
    }
    pub fn flush(&mut self, out: &mut impl Write) {
        let mut stats = Json::obj();
        for (k, v) in &self.stats {
            stats.put(k, *v);
        }
        let mut mx = Json::obj();
        for (k, v) in &self.maxstats {
            mx.put(k, *v);
        }
        let mut sets = Json::obj();
        for (k, v) in &self.sets {
            sets.put(k, v.iter().cloned().collect::<Vec<_>>());
        }
        let j = Json::obj()
            .set("t", "sum")
            .set("n", self.n)
            .set("stats", stats)
            .set("max", mx)
            .set("sets", sets)
            .set("nt", self.nontrivial.iter().map(|h| Json::Str(format!("{:x}", h))).collect::<Vec<_>>())
            .set("inc", self.inconclusive.clone());
        let _ = writeln!(out, "{}", j.to_string());
        let _ = out.flush();
        self.n = 0;
        self.stats.clear();
        self.maxstats.clear();
        self.sets.clear();
        self.nontrivial.clear();
        self.inconclusive.clear();
    }
}

pub fn replay_json(cfg: &Cfg, ctx: Option<&BlockCtx>, dec: Decoder, idx: u64, class: &str, input: &[u8]) -> Json {
    let mut j = Json::obj()
        .set("engine", "xcdr c07")
        .set("decoder", dec.name())
        .set("input_hex", vcore::hex(input))
        .set("class", class)
        .set("seed", cfg.seed)
        .set("shard", cfg.shard)
        .set("index", idx)
        .set("alloc_k", cfg.k)
        .set("alloc_c", cfg.c);
    if dec == Decoder::Xtypes {
        if let Some(c) = ctx {
            if let Some(t) = &c.ty_json {
                j.put("type", t.clone());
            }
        }
        if input.len() >= 2 {
            j.put("repr_id", format!("{:02x}{:02x}", input[0], input[1]));
        }
    }
    j
}

pub fn what_line(dec: Decoder, class: &str, input: &[u8], msg: &str) -> String {
    let n = input.len().min(48);
    let mut m: String = msg.chars().take(220).collect();
    m = m.replace('\n', " ");
    format!(
        "{} len={} class={} input[..{}]={} :: {}",
        dec.name(),
        input.len(),
        class,
        n,
        vcore::hex(&input[..n]),
        m
    )
}

struct Runner<'a> {
    cfg: &'a Cfg,
    pool: &'a mut decoders::Pool,
    evals: u64,
}

impl Runner<'_> {
    /// does `cand` still produce signature `sig`?
    fn still(&mut self, dec: Decoder, dt: Option<DynamicType<'static>>, idx: u64, class: &str, cand: &[u8], sig: &str) -> bool {
        self.evals += 1;
        let run = self.pool.run(
            dec,
            dt,
            decoders::Spec {
                idx,
                flags: 1,
                class,
                input: cand,
            },
            self.cfg.k,
            self.cfg.c,
        );
        decoders::verdicts(dec, class, &run)
            .iter()
            .any(|v| matches!(v, Verdict::Violation { sig: s, .. } if s == sig))
    }
}

/// Shrink `input` while signature `sig` persists (bounded budget).
fn shrink(
    cfg: &Cfg,
    pool: &mut decoders::Pool,
    dec: Decoder,
    dt: Option<DynamicType<'static>>,
    idx: u64,
    class: &str,
    input: &[u8],
    sig: &str,
) -> (Vec<u8>, u64) {
    let mut rn = Runner { cfg, pool, evals: 0 };
    // every probe of a cap finding gives up a thread: keep those few
    let budget = if sig.starts_with("abort|") {
        (cfg.shrink_budget as u64).min(60)
    } else if sig.starts_with("alloc|") {
        (cfg.shrink_budget as u64).min(150)
    } else {
        cfg.shrink_budget as u64
    };
    let mut cur = input.to_vec();
    // 1. drop whole submessages (RTPS)
    if dec == Decoder::Rtps {
        let mut progress = true;
        while progress && rn.evals < budget {
            progress = false;
            let w = vcore::rtpswalk::walk(&cur);
            for s in w.subs.iter().rev() {
                if rn.evals >= budget {
                    break;
                }
                let end = (s.offset + 4 + s.body_len).min(cur.len());
                let mut cand = cur.clone();
                cand.drain(s.offset..end);
                if rn.still(dec, dt, idx, class, &cand, sig) {
                    cur = cand;
                    progress = true;
                    break;
                }
            }
        }
    }
    // 2. truncate the tail (bisection, then confirm)
    {
        let (mut lo, mut hi) = (0usize, cur.len());
        while lo < hi && rn.evals < budget {
            let mid = (lo + hi) / 2;
            if rn.still(dec, dt, idx, class, &cur[..mid], sig) {
                hi = mid;
            } else {
                lo = mid + 1;
            }
        }
        if hi < cur.len() && rn.still(dec, dt, idx, class, &cur[..hi], sig) {
            cur.truncate(hi);
        }
    }
    // 3. delete chunks
    let mut size = (cur.len() / 2).max(1);
    while size >= 1 && rn.evals < budget {
        let mut pos = cur.len();
        while pos >= size && rn.evals < budget {
            let start = pos - size;
            let mut cand = cur.clone();
            cand.drain(start..pos);
            if rn.still(dec, dt, idx, class, &cand, sig) {
                cur = cand;
                pos = start.min(cur.len());
            } else {
                pos = start;
            }
            if size > 64 && pos < size {
                break;
            }
        }
        if size == 1 {
            break;
        }
        size /= 2;
    }
    // 4. zero what can be zeroed
    let step = if cur.len() <= 160 { 1 } else { 4 };
    let mut i = cur.len();
    while i >= step && rn.evals < budget {
        i -= step;
        if cur[i..i + step].iter().all(|b| *b == 0) {
            continue;
        }
        let mut cand = cur.clone();
        for b in &mut cand[i..i + step] {
            *b = 0;
        }
        if rn.still(dec, dt, idx, class, &cand, sig) {
            cur = cand;
        }
    }
    (cur, rn.evals)
}

/// What decoding the block's *type* allocates independently of the input (fixed-size arrays and
/// default members that appendable / mutable aggregates fill in when the data ends early): the
/// largest amount requested for header-only and all-zero inputs in the four encodings. Twice that
/// is added to the allocation bound of every case of the block.
fn type_baseline(cfg: &Cfg, pool: &mut decoders::Pool, dec: Decoder, dt: Option<DynamicType<'static>>, idx: u64) -> u64 {
    pool.extra_limit = 0;
    let mut base = 0u64;
    for rid in [0u8, 1, 6, 7] {
        for n in [0usize, 4, 8, 64] {
            let mut input = vec![0, rid, 0, 0];
            input.resize(4 + n, 0);
            let run = pool.run(
                dec,
                dt,
                decoders::Spec {
                    idx,
                    flags: 2,
                    class: "type_baseline",
                    input: &input,
                },
                cfg.k,
                cfg.c,
            );
            if run.cap.is_none() {
                base = base.max(run.stats.total);
            }
        }
    }
    base
}

pub struct ChildState {
    pub known: HashSet<String>,
    pub samples_sent: HashSet<String>,
}

/// Classify and report the outcome `run` of case `idx` (shrinks a new finding).
#[allow(clippy::too_many_arguments)]
pub fn post_case(
    cfg: &Cfg,
    pool: &mut decoders::Pool,
    out: &mut impl Write,
    agg: &mut Agg,
    st: &mut ChildState,
    ctx: Option<&BlockCtx>,
    dec: Decoder,
    dt: Option<DynamicType<'static>>,
    idx: u64,
    case: &Case,
    run: decoders::Run,
    do_shrink: bool,
) {
    let input = &case.input;
    let class = case.class.as_str();
    let run_us = 0u128;
    agg.n += 1;
    if alloc_track::bt_cache_has_new() {
        for (k, b) in alloc_track::bt_cache_export_new() {
            let j = Json::obj().set("t", "bt").set("k", format!("{:x}", k)).set("bt", b);
            let _ = writeln!(out, "{}", j.to_string());
        }
        let _ = out.flush();
    }
    let mut label = decoders::outcome_label(&run);
    let verdicts = decoders::verdicts(dec, class, &run);
    let class_base = class.split('=').next().unwrap_or(class);

    agg.stat(&format!("decoder.{}", dec.name()), 1);
    agg.stat(&format!("class.{}", class_base), 1);
    if std::env::var_os("C07_DEBUG").is_some() {
        agg.stat(&format!("us.class.{}", class_base), run_us as i128);
        agg.stat(&format!("us.outcome.{}", label.split(':').next().unwrap_or("?")), run_us as i128);
    }
    agg.set("input_classes", class);
    match (&run.ret, &run.panic) {
        _ if matches!(run.cap, Some((3, _))) => agg.stat("outcome.alloc_stopped", 1),
        _ if run.cap.is_some() => agg.stat("outcome.alloc_cap", 1),
        (_, Some(_)) => agg.stat("outcome.panic", 1),
        (Some(Ret::Ok { kinds }), _) => {
            agg.stat("outcome.ok", 1);
            for k in decoders::kind_names(*kinds) {
                agg.set("submessage_kinds_decoded", k);
            }
        }
        (Some(Ret::Err(e)), _) => {
            agg.stat("outcome.err", 1);
            agg.set(&format!("err_variants.{}", dec.name()), e);
        }
        _ => {}
    }
    for k in &case.kinds {
        agg.set("submessage_kinds_encoded", k);
    }
    if matches!(dec, Decoder::Xtypes | Decoder::TlRequest | Decoder::TlReply)
        && input.len() >= 2
        && (class.starts_with("valid") || class.starts_with("reprid_swap") || class == "random_prefixed")
    {
        agg.set(&format!("repr_ids.{}", dec.name()), &format!("{:02x}{:02x}", input[0], input[1]));
    }
    if dec == Decoder::Xtypes {
        if let Some(c) = ctx {
            agg.set("type_shapes", &c.shape);
        }
    }
    agg.maxstat("input_len_max", input.len() as i128);
    agg.maxstat("alloc_total_max", run.stats.total as i128);
    agg.maxstat("alloc_single_max", run.stats.max_single as i128);
    agg.maxstat("alloc_peak_live_max", run.stats.peak_live as i128);
    // A sample written by dust-dds' serializer that its deserializer reads back as a *different*
    // value is not a calibration point for the allocation bound (mis-decoded lengths allocate
    // arbitrary amounts); the round trip itself is C09's subject.
    let mut faithful = true;
    let safe_to_repeat = run.cap.is_none() && run.stats.total < (256 << 20);
    if case.valid && dec == Decoder::Xtypes && matches!(run.ret, Some(Ret::Ok { .. })) && !safe_to_repeat {
        faithful = false;
    }
    if case.valid && dec == Decoder::Xtypes && matches!(run.ret, Some(Ret::Ok { .. })) && safe_to_repeat {
        if let (Some(c), Some(orig), Some(dt)) = (ctx, &case.orig, dt) {
            if let Some(ty) = &c.ty {
                let same = quiet(|| {
                    dust_dds::verif_hooks::deserializer::deserialize_top_level_type(dt, input)
                        .ok()
                        .and_then(|d| dustglue::read_data(ty, &d).ok())
                        .map(|v| v == *orig)
                        .unwrap_or(false)
                })
                .unwrap_or(false);
                if !same {
                    faithful = false;
                    agg.stat("valid_samples_read_back_differently", 1);
                }
            }
        }
    }
    if case.valid && faithful && matches!(run.ret, Some(Ret::Ok { .. })) {
        agg.stat("valid_inputs_decoded_ok", 1);
        if run.stats.over {
            agg.stat("valid_faithful_inputs_over_bound", 1);
        }
        let over = run.stats.total as i128 - (cfg.k as i128) * input.len() as i128;
        agg.maxstat("valid_alloc_minus_k_len_max", over);
        agg.maxstat(&format!("valid_alloc_minus_k_len_max.{}", dec.name()), over);
        agg.maxstat("valid_alloc_total_max", run.stats.total as i128);
        agg.maxstat("valid_alloc_minus_bound_max", run.stats.total as i128 - run.stats.limit as i128);
        if input.len() >= 64 {
            agg.maxstat("valid_alloc_per_input_byte_x100_max", (run.stats.total as i128 * 100) / input.len() as i128);
            agg.maxstat(
                &format!("valid_alloc_per_input_byte_x100_max.{}", dec.name()),
                (run.stats.total as i128 * 100) / input.len() as i128,
            );
        }
    }

    let mut first_sig: Option<String> = None;
    for v in &verdicts {
        match v {
            Verdict::Inconclusive(why) => {
                agg.stat("inconclusive_cases", 1);
                agg.inconclusive(format!("case {} {}: {}", idx, dec.name(), why));
            }
            Verdict::Violation { sig, msg } => {
                if (sig.starts_with("alloc|") || sig.contains("|alloc_cap|")) && case.valid {
                    agg.stat("alloc_findings_on_valid_inputs", 1);
                    agg.set("alloc_findings_on_valid_inputs", &what_line(dec, class, input, msg));
                }
                if sig.starts_with("alloc|") {
                    agg.stat("outcome.alloc_over_bound", 1);
                    if label == "ok" || label.starts_with("err:") {
                        label = format!("{}+alloc", label);
                    }
                }
                if first_sig.is_none() {
                    first_sig = Some(sig.clone());
                }
                if st.known.contains(sig) {
                    let j = Json::obj().set("t", "hit").set("sig", sig.clone());
                    let _ = writeln!(out, "{}", j.to_string());
                    continue;
                }
                // provisional (unshrunk) finding first: shrinking may kill the process
                let j = Json::obj()
                    .set("t", "finding")
                    .set("sig", sig.clone())
                    .set("what", what_line(dec, class, input, msg))
                    .set("min", false)
                    .set("len", input.len())
                    .set("replay", replay_json(cfg, ctx, dec, idx, class, input));
                let _ = writeln!(out, "{}", j.to_string());
                let _ = out.flush();
                st.known.insert(sig.clone());
                if do_shrink && cfg.shrink_budget > 0 {
                    let tsh = std::time::Instant::now();
                    let (small, evals) = shrink(cfg, pool, dec, dt, idx, class, input, sig);
                    agg.stat("shrink_evaluations", evals as i128);
                    agg.stat("us.shrink", tsh.elapsed().as_micros() as i128);
                    if small.len() <= input.len() && small != *input {
                        // message of the minimized input
                        let run2 = pool.run(
                            dec,
                            dt,
                            decoders::Spec {
                                idx,
                                flags: 1,
                                class,
                                input: &small,
                            },
                            cfg.k,
                            cfg.c,
                        );
                        let msg2 = decoders::verdicts(dec, class, &run2)
                            .into_iter()
                            .find_map(|v| match v {
                                Verdict::Violation { sig: s, msg } if s == *sig => Some(msg),
                                _ => None,
                            })
                            .unwrap_or_else(|| msg.clone());
                        let j = Json::obj()
                            .set("t", "finding")
                            .set("sig", sig.clone())
                            .set("what", what_line(dec, &format!("{}(minimized)", class), &small, &msg2))
                            .set("min", true)
                            .set("len", small.len())
                            .set("count", false)
                            .set("replay", replay_json(cfg, ctx, dec, idx, &format!("{}(minimized)", class), &small));
                        let _ = writeln!(out, "{}", j.to_string());
                        let _ = out.flush();
                    }
                }
            }
        }
    }
    let outcome_key = match &first_sig {
        Some(s) => format!("viol:{}", s),
        None => label.clone(),
    };
    agg.nontrivial(vcore::fnv_str(&format!("{}|{}|{}", dec.name(), class, outcome_key)));
    let skey = match &first_sig {
        Some(s) => s.split('|').next().unwrap_or("viol").to_string(),
        None => label.split(':').next().unwrap_or("?").to_string(),
    };
    let skey = format!("{}:{}", skey, if class.starts_with("random") { "random" } else if case.valid { "valid" } else { "mutated" });
    if st.samples_sent.len() < 12 && st.samples_sent.insert(skey.clone()) {
        let n = input.len().min(64);
        let j = Json::obj()
            .set("t", "sample")
            .set("key", skey)
            .set(
                "sample",
                Json::obj()
                    .set("decoder", dec.name())
                    .set("class", class)
                    .set("index", idx)
                    .set("len", input.len())
                    .set("input_hex_prefix", vcore::hex(&input[..n]))
                    .set("outcome", outcome_key)
                    .set("alloc_bytes", run.stats.total),
            );
        let _ = writeln!(out, "{}", j.to_string());
    }
}

fn load_known(path: &str) -> HashSet<String> {
    std::fs::read_to_string(path)
        .map(|s| s.lines().filter(|l| !l.is_empty()).map(|l| l.to_string()).collect())
        .unwrap_or_default()
}

unsafe extern "C" {
    fn mallopt(param: i32, value: i32) -> i32;
}

/// Entry of the child process (`c07 --child ...`).
pub fn child_main(args: &vcore::Args) -> i32 {
    // One malloc arena, large requests served from the heap instead of mmap/munmap pairs, no eager
    // trimming: a decoder thread is created per allocation-cap event and inputs / decoded values are
    // allocated and freed hundreds of thousands of times; with the defaults the resulting
    // mmap/munmap/mprotect traffic (TLB shoot-downs) costs more system time than the decoding when 16
    // shards run side by side. Purely a property of the underlying system allocator: what the
    // counting wrapper records is unaffected.
    unsafe {
        mallopt(-8, 1); // M_ARENA_MAX
        mallopt(-3, 32 << 20); // M_MMAP_THRESHOLD
        mallopt(-1, 256 << 20); // M_TRIM_THRESHOLD
        mallopt(-2, 16 << 20); // M_TOP_PAD
    }
    let stack = args.u64("stack-mib", 8) as usize;
    let args2 = args.clone();
    let h = std::thread::Builder::new()
        .name("c07-child".into())
        .stack_size(stack << 20)
        .spawn(move || child_body(&args2));
    match h {
        Ok(h) => h.join().unwrap_or(3),
        Err(_) => 3,
    }
}

fn child_body(args: &vcore::Args) -> i32 {
    bt::install_hook();
    let cfg = Cfg {
        seed: args.u64("seed", 1),
        shard: args.u64("shard", 0),
        k: args.u64("alloc-k", 1024),
        c: args.u64("alloc-c", 1 << 20),
        shrink_budget: args.u64("shrink-budget", 250) as usize,
    };
    let ann_path = args.str("ann", "");
    let ann = match Announcer::open(&ann_path) {
        Ok(a) => a,
        Err(e) => {
            eprintln!("c07 child: cannot open announce file {}: {}", ann_path, e);
            return 3;
        }
    };
    if let Ok(f) = std::fs::OpenOptions::new().append(true).create(true).open(args.str("marker", "/dev/null")) {
        use std::os::fd::IntoRawFd;
        alloc_track::set_marker_fd(f.into_raw_fd());
    }
    let stdout = std::io::stdout();
    let mut out = std::io::BufWriter::with_capacity(1 << 16, stdout.lock());
    let mut agg = Agg::default();
    let mut st = ChildState {
        known: load_known(&args.str("known", "")),
        samples_sent: HashSet::new(),
    };

    alloc_track::set_park_mode(true);
    {
        // call stacks symbolised by earlier children of this shard
        let mut entries = Vec::new();
        if let Ok(txt) = std::fs::read_to_string(args.str("btcache", "")) {
            for l in txt.lines() {
                if let Ok(j) = Json::parse(l) {
                    let k = j.get("k").and_then(|k| k.as_str()).and_then(|k| u64::from_str_radix(k, 16).ok());
                    let b = j.get("bt").and_then(|b| b.as_str());
                    if let (Some(k), Some(b)) = (k, b) {
                        entries.push((k, b.to_string()));
                    }
                }
            }
        }
        agg.stat("backtrace_cache_imported", entries.len() as i128);
        alloc_track::bt_cache_import(entries);
    }
    let mut pool = decoders::Pool::new((args.u64("stack-mib", 8) as usize) << 20, ann);
    if args.has("replay-one") {
        return replay_one(&cfg, &mut pool, &mut out, &mut agg, &mut st, &args.str("replay-one", ""));
    }

    let from = args.u64("from", 0);
    let to = args.u64("to", 0);
    let batch = BATCH;
    // cases that killed an earlier child of this shard (recorded by the parent, not to be run again)
    let skip: HashSet<u64> = args
        .str("skip", "")
        .split(',')
        .filter_map(|x| x.parse().ok())
        .collect();
    let ctx_path = args.str("ctx", "");
    let debug = std::env::var_os("C07_DEBUG").is_some();
    let mut blk: Option<BlockCtx> = None;
    let mut idx = from;
    while idx < to {
        let b = idx / BLOCK;
        if blk.as_ref().map(|c| c.id) != Some(b) {
            pool.announce(idx, DEC_SETUP, 0, "setup", &[]);
            let ts = std::time::Instant::now();
            let c = setup_block(&cfg, b, &mut agg);
            agg.stat("us.block_setup", ts.elapsed().as_micros() as i128);
            if !ctx_path.is_empty() {
                let j = Json::obj()
                    .set("block", b)
                    .set("type", c.ty_json.clone().unwrap_or(Json::Null));
                let _ = std::fs::write(&ctx_path, j.to_string());
            }
            pool.extra_limit = 0;
            if c.dec == Decoder::Xtypes && c.dt.is_some() {
                let base = type_baseline(&cfg, &mut pool, c.dec, c.dt, idx);
                pool.extra_limit = base.saturating_mul(2);
                agg.maxstat("type_baseline_alloc_max", base as i128);
            }
            blk = Some(c);
        }
        let ctx = blk.as_ref().unwrap();
        // a batch stays inside its block and ends on a multiple of the batch size
        let end = to.min((b + 1) * BLOCK).min((idx / batch + 1) * batch);
        // 1. generate the inputs of the batch
        let tg = std::time::Instant::now();
        let mut cases: Vec<(u64, Case)> = Vec::with_capacity((end - idx) as usize);
        for i in idx..end {
            if skip.contains(&i) {
                continue;
            }
            pool.announce(i, DEC_SETUP, 0, "generate", &[]);
            match quiet(|| make_case(&cfg, ctx, i, &mut agg)) {
                Ok(c) => cases.push((i, c)),
                Err(e) => {
                    agg.stat("generator_panics", 1);
                    agg.inconclusive(format!("harness: input generator panicked at case {}: {}", i, e));
                }
            }
        }
        agg.stat("us.generate", tg.elapsed().as_micros() as i128);
        // 2. decode them on the decoder thread (each announced right before its call)
        let td = std::time::Instant::now();
        let specs: Vec<decoders::Spec> = cases
            .iter()
            .map(|(i, c)| decoders::Spec {
                idx: *i,
                flags: 0,
                class: &c.class,
                input: &c.input,
            })
            .collect();
        let runs = pool.run_batch(ctx.dec, ctx.dt, &specs, cfg.k, cfg.c);
        drop(specs);
        agg.stat("us.decode_batches", td.elapsed().as_micros() as i128);
        if debug && td.elapsed().as_millis() > 200 {
            eprintln!(
                "[c07 child] slow batch {}..{} {} took {} ms",
                idx,
                end,
                ctx.dec.name(),
                td.elapsed().as_millis()
            );
        }
        // 3. classify, report, shrink
        let tp = std::time::Instant::now();
        for ((i, case), run) in cases.iter().zip(runs.into_iter()) {
            post_case(&cfg, &mut pool, &mut out, &mut agg, &mut st, Some(ctx), ctx.dec, ctx.dt, *i, case, run, true);
        }
        agg.stat("us.classify_and_shrink", tp.elapsed().as_micros() as i128);
        idx = end;
        if pool.threads_given_up >= 400 && idx < to {
            // enough parked threads in this process: let the parent start a fresh one
            agg.flush(&mut out);
            let _ = writeln!(out, "{}", Json::obj().set("t", "done").set("next", idx).to_string());
            let _ = out.flush();
            return 0;
        }
        if idx % 64 == 0 {
            agg.flush(&mut out);
        }
    }
    let (hits, misses) = alloc_track::backtrace_cache_stats();
    agg.stat("backtrace_cache_hits", hits as i128);
    agg.stat("backtrace_cache_misses", misses as i128);
    agg.flush(&mut out);
    let _ = writeln!(out, "{}", Json::obj().set("t", "done").set("next", to).to_string());
    let _ = out.flush();
    0
}

fn replay_one(
    cfg: &Cfg,
    pool: &mut decoders::Pool,
    out: &mut impl Write,
    agg: &mut Agg,
    st: &mut ChildState,
    path: &str,
) -> i32 {
    let txt = std::fs::read_to_string(path).unwrap_or_default();
    let j = match Json::parse(&txt) {
        Ok(j) => j,
        Err(e) => {
            agg.inconclusive(format!("replay: cannot parse {}: {}", path, e));
            agg.flush(out);
            return 0;
        }
    };
    let dec = j.get("decoder").and_then(|d| d.as_str()).and_then(Decoder::from_name);
    let input = j.get("input_hex").and_then(|d| d.as_str()).map(vcore::unhex);
    let (dec, input) = match (dec, input) {
        (Some(d), Some(i)) => (d, i),
        _ => {
            agg.inconclusive("replay: witness without decoder / input_hex".into());
            agg.flush(out);
            return 0;
        }
    };
    let class = j.get("class").and_then(|c| c.as_str()).unwrap_or("replay").to_string();
    let idx = j.get("index").and_then(|c| c.as_u64()).unwrap_or(0);
    let mut ctx = BlockCtx {
        id: idx / BLOCK,
        dec,
        ty: None,
        ty_json: None,
        dt: None,
        member_ids: vec![],
        shape: String::new(),
        typeinfo: None,
        objects: vec![],
    };
    if dec == Decoder::Xtypes {
        pool.announce(idx, DEC_SETUP, 0, "setup", &[]);
        let tj = j.get("type").cloned().unwrap_or(Json::Null);
        match model::ty_from_json(&tj) {
            Ok(ty) => match quiet(|| dustglue::build_type(&ty)) {
                Ok(dt) => {
                    ctx.shape = model::shape_class(&ty);
                    ctx.ty_json = Some(tj);
                    ctx.ty = Some(ty);
                    ctx.dt = Some(dt);
                }
                Err(e) => {
                    agg.inconclusive(format!("replay: building the type panicked: {}", e));
                    agg.flush(out);
                    return 0;
                }
            },
            Err(e) => {
                agg.inconclusive(format!("replay: bad type json: {}", e));
                agg.flush(out);
                return 0;
            }
        }
    }
    if dec == Decoder::Xtypes && ctx.dt.is_some() {
        let base = type_baseline(cfg, pool, dec, ctx.dt, idx);
        pool.extra_limit = base.saturating_mul(2);
    }
    let case = Case {
        input,
        class,
        valid: false,
        kinds: vec![],
        orig: None,
    };
    let run = pool.run(
        dec,
        ctx.dt,
        decoders::Spec {
            idx,
            flags: 0,
            class: &case.class,
            input: &case.input,
        },
        cfg.k,
        cfg.c,
    );
    post_case(cfg, pool, out, agg, st, Some(&ctx), dec, ctx.dt, idx, &case, run, false);
    agg.flush(out);
    let _ = writeln!(out, "{}", Json::obj().set("t", "done").set("next", idx + 1).to_string());
    let _ = out.flush();
    0
}
