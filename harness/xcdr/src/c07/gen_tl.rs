//! Valid type-lookup request / reply samples built from dust-dds' own types and serializers, plus a
//! hand-made "deeply nested TypeIdentifier" encoder (nesting depth is chosen by the sender of a
//! type-lookup message or of a PID_TYPE_INFORMATION parameter, so it is part of the input space).
use dust_dds::xtypes::type_support::TypeSupport;
use dust_dds::transport::types::{EntityId, Guid};
use dust_dds::verif_hooks::data_representation_builtin_endpoints::type_lookup::*;
use dust_dds::verif_hooks::serializer::{serialize_cdr1_be, serialize_cdr1_le, serialize_cdr2_be, serialize_cdr2_le};
use dust_dds::xtypes::dynamic_type::DynamicData;
use dust_dds::xtypes::type_object::*;
use vcore::Rng;

fn hash14(r: &mut Rng) -> [u8; 14] {
    let b = r.bytes(14);
    let mut h = [0u8; 14];
    h.copy_from_slice(&b);
    h
}

fn flags(r: &mut Rng) -> MemberFlag {
    let mut f = MemberFlag::default();
    if r.bool() {
        f |= MEMBER_FLAG_TRY_CONSTRUCT1;
    }
    if r.chance(0.2) {
        f |= MEMBER_FLAG_TRY_CONSTRUCT2;
    }
    if r.chance(0.2) {
        f |= MEMBER_FLAG_IS_EXTERNAL;
    }
    f
}

fn header(r: &mut Rng) -> PlainCollectionHeader {
    PlainCollectionHeader {
        equiv_kind: *r.pick(&[EK_MINIMAL, EK_COMPLETE, EK_BOTH, 0]),
        element_flags: flags(r),
    }
}

pub fn type_identifier(r: &mut Rng, depth: usize) -> TypeIdentifier {
    let leaf = depth == 0 || r.chance(0.5);
    if leaf {
        return match r.below(24) {
            0 => TypeIdentifier::TkNone,
            1 => TypeIdentifier::TkBoolean,
            2 => TypeIdentifier::TkByteType,
            3 => TypeIdentifier::TkInt8Type,
            4 => TypeIdentifier::TkInt16Type,
            5 => TypeIdentifier::TkInt32Type,
            6 => TypeIdentifier::TkInt64Type,
            7 => TypeIdentifier::TkUint8Type,
            8 => TypeIdentifier::TkUint16Type,
            9 => TypeIdentifier::TkUint32Type,
            10 => TypeIdentifier::TkUint64Type,
            11 => TypeIdentifier::TkFloat32Type,
            12 => TypeIdentifier::TkFloat64Type,
            13 => TypeIdentifier::TkFloat128Type,
            14 => TypeIdentifier::TkChar8Type,
            15 => TypeIdentifier::TkChar16Type,
            16 => TypeIdentifier::TiString8Small {
                string_sdefn: StringSTypeDefn { bound: r.next_u32() as u8 },
            },
            17 => TypeIdentifier::TiString16Small {
                string_sdefn: StringSTypeDefn { bound: r.next_u32() as u8 },
            },
            18 => TypeIdentifier::TiString8Large {
                string_ldefn: StringLTypeDefn { bound: r.next_u32() },
            },
            19 => TypeIdentifier::TiString16Large {
                string_ldefn: StringLTypeDefn { bound: r.next_u32() },
            },
            20 => TypeIdentifier::TiStronglyConnectedComponent {
                sc_component_id: StronglyConnectedComponentId {
                    sc_component_id: if r.bool() {
                        TypeObjectHashId::EkComplete { hash: hash14(r) }
                    } else {
                        TypeObjectHashId::EkMinimal { hash: hash14(r) }
                    },
                    scc_length: r.next_u32() as i32,
                    scc_index: r.next_u32() as i32,
                },
            },
            21 => TypeIdentifier::EkComplete { equivalence_hash: hash14(r) },
            22 => TypeIdentifier::EkMinimal { equivalence_hash: hash14(r) },
            _ => TypeIdentifier::EkMinimal { equivalence_hash: hash14(r) },
        };
    }
    let d = depth - 1;
    match r.below(6) {
        0 => TypeIdentifier::TiPlainSequenceSmall {
            seq_sdefn: PlainSequenceSElemDefn {
                header: header(r),
                bound: r.next_u32() as u8,
                element_identifier: Box::new(type_identifier(r, d)),
            },
        },
        1 => TypeIdentifier::TiPlainSequenceLarge {
            seq_ldefn: PlainSequenceLElemDefn {
                header: header(r),
                bound: r.next_u32(),
                element_identifier: Box::new(type_identifier(r, d)),
            },
        },
        2 => TypeIdentifier::TiPlainArraySmall {
            array_sdefn: PlainArraySElemDefn {
                header: header(r),
                array_bound_seq: {
                    let n = r.usize(4);
                    r.bytes(n)
                },
                element_identifier: Box::new(type_identifier(r, d)),
            },
        },
        3 => TypeIdentifier::TiPlainArrayLarge {
            array_ldefn: PlainArrayLElemDefn {
                header: header(r),
                array_bound_seq: (0..r.usize(4)).map(|_| r.next_u32()).collect(),
                element_identifier: Box::new(type_identifier(r, d)),
            },
        },
        4 => TypeIdentifier::TiPlainMapSmall {
            map_sdefn: PlainMapSTypeDefn {
                header: header(r),
                bound: r.next_u32() as u8,
                element_identifier: Box::new(type_identifier(r, d)),
                key_flags: flags(r),
                key_identifier: Box::new(type_identifier(r, 0)),
            },
        },
        _ => TypeIdentifier::TiPlainMapLarge {
            map_ldefn: PlainMapLTypeDefn {
                header: header(r),
                bound: r.next_u32(),
                element_identifier: Box::new(type_identifier(r, d)),
                key_flags: flags(r),
                key_identifier: Box::new(type_identifier(r, 0)),
            },
        },
    }
}

fn sample_identity(r: &mut Rng) -> SampleIdentity {
    let g = r.bytes(16);
    let mut p = [0u8; 12];
    p.copy_from_slice(&g[..12]);
    SampleIdentity {
        writer_guid: Guid::new(p, EntityId::new([g[12], g[13], g[14]], g[15])),
        sequence_number: (r.next_u64() as i64 >> r.below(63)).into(),
    }
}

fn with_size(r: &mut Rng) -> TypeIdentifierWithSize {
    TypeIdentifierWithSize {
        type_id: type_identifier(r, 2),
        typeobject_serialized_size: r.next_u32() >> r.below(32),
    }
}

pub fn request(r: &mut Rng, big: bool) -> DynamicData<'static> {
    let header = RequestHeader {
        request_id: sample_identity(r),
        instance_name: if r.bool() { String::new() } else { "dds.builtin.TOS.0102030405060708090a0b0c".to_string() },
    };
    let n = if big { 500 + r.usize(3000) } else { *r.pick(&[0usize, 1, 1, 2, 5, 20]) };
    // (a list of one-byte primitive identifiers has the largest decoded size per wire byte)
    let depth = if big && r.bool() { 0 } else { 3 };
    let type_ids: Vec<TypeIdentifier> = (0..n).map(|_| type_identifier(r, depth)).collect();
    let call = if r.chance(0.7) {
        TypeLookupCall::TypeLookupGetTypesHashId {
            get_types: TypeLookupGetTypesIn { type_ids },
        }
    } else {
        TypeLookupCall::TypeLookupGetDependenciesHash {
            get_type_dependencies: TypeLookupGetTypeDependenciesIn {
                type_ids,
                continuation_point: {
                    let n = *r.pick(&[0usize, 4, 32]);
                    r.bytes(n)
                },
            },
        }
    };
    TypeLookupRequest { header, call }.create_dynamic_sample()
}

/// `objects`: TypeObjects converted by dust-dds from generated types (may be empty).
pub fn reply(r: &mut Rng, objects: &[TypeObject], big: bool) -> DynamicData<'static> {
    let header = ReplyHeader {
        related_request_id: sample_identity(r),
        remote_ex: *r.pick(&[
            RemoteExceptionCode::Ok,
            RemoteExceptionCode::Unsupported,
            RemoteExceptionCode::InvalidArgument,
            RemoteExceptionCode::OutOfResources,
            RemoteExceptionCode::UnknownOperation,
            RemoteExceptionCode::UnknownException,
        ]),
    };
    let ret = if r.chance(0.7) {
        let mut types = Vec::new();
        if !objects.is_empty() {
            let n = if big { 20 + r.usize(60) } else { *r.pick(&[0usize, 1, 1, 2, 3]) };
            for _ in 0..n {
                types.push(TypeIdentifierTypeObjectPair {
                    type_identifier: if r.bool() {
                        TypeIdentifier::EkComplete { equivalence_hash: hash14(r) }
                    } else {
                        type_identifier(r, 1)
                    },
                    type_object: r.pick(objects).clone(),
                });
            }
        }
        let complete_to_minimal = (0..r.below(3))
            .map(|_| TypeIdentifierPair {
                type_identifier1: type_identifier(r, 1),
                type_identifier2: type_identifier(r, 1),
            })
            .collect();
        TypeLookupReturn::TypeLookupGetTypesHash {
            get_type: TypeLookupGetTypesResult::Ok {
                result: TypeLookupGetTypesOut {
                    types,
                    complete_to_minimal,
                },
            },
        }
    } else {
        TypeLookupReturn::TypeLookupGetDependenciesHash {
            get_type_dependencies: TypeLookupGetTypeDependenciesResult::Ok {
                result: TypeLookupGetTypeDependenciesOut {
                    dependent_typeids: (0..r.below(4)).map(|_| with_size(r)).collect(),
                    continuation_point: {
                    let n = *r.pick(&[0usize, 4, 32]);
                    r.bytes(n)
                },
                },
            },
        }
    };
    TypeLookupReply { header, r#return: ret }.create_dynamic_sample()
}

/// Serialize with one of the four encoders; returns (representation label, bytes).
pub fn serialize(r: &mut Rng, d: &DynamicData<'static>) -> Option<(&'static str, Vec<u8>)> {
    // the repository itself sends type lookup as XCDR2 little endian
    let which = *r.pick(&[2usize, 2, 2, 0, 1, 3]);
    let (lab, res) = match which {
        0 => ("cdr1_le", serialize_cdr1_le(d)),
        1 => ("cdr1_be", serialize_cdr1_be(d)),
        2 => ("cdr2_le", serialize_cdr2_le(d)),
        _ => ("cdr2_be", serialize_cdr2_be(d)),
    };
    res.ok().map(|b| (lab, b))
}

/// Encoding of a chain of `depth` plain-collection TypeIdentifiers ending in a primitive, appended
/// at `out.len()`; alignment is relative to `origin` (offset of the CDR stream start in `out`).
pub fn nested_type_identifier(out: &mut Vec<u8>, origin: usize, depth: usize, kind: u8, le: bool) {
    let align = |out: &mut Vec<u8>, a: usize| {
        while (out.len() - origin) % a != 0 {
            out.push(0);
        }
    };
    for _ in 0..depth {
        match kind {
            0 => {
                // TI_PLAIN_SEQUENCE_SMALL: header{equiv_kind u8, element_flags u16}, bound u8, element
                out.push(0x80);
                out.push(0xF1);
                align(out, 2);
                out.extend_from_slice(&[1, 0]);
                out.push(0);
            }
            1 => {
                // TI_PLAIN_SEQUENCE_LARGE: bound u32
                out.push(0x81);
                out.push(0xF2);
                align(out, 2);
                out.extend_from_slice(&[1, 0]);
                align(out, 4);
                out.extend_from_slice(&[0, 0, 0, 0]);
            }
            _ => {
                // TI_PLAIN_ARRAY_SMALL: header, array_bound_seq (sequence<octet>: u32 length + bytes), element
                out.push(0x90);
                out.push(0xF1);
                align(out, 2);
                out.extend_from_slice(&[1, 0]);
                align(out, 4);
                if le {
                    out.extend_from_slice(&[1, 0, 0, 0]);
                } else {
                    out.extend_from_slice(&[0, 0, 0, 1]);
                }
                out.push(3);
            }
        }
    }
    out.push(0x04); // TK_INT32
}

/// Value of a PID_TYPE_INFORMATION parameter (XCDR2 little endian, no encapsulation header) whose
/// minimal type id is a chain of `depth` nested plain collections.
pub fn nested_type_information(depth: usize, kind: u8) -> Vec<u8> {
    let mut out = Vec::new();
    out.extend_from_slice(&[0, 0, 0, 0]); // DHEADER TypeInformation (mutable)
    out.extend_from_slice(&0x4000_1001u32.to_le_bytes()); // EMHEADER: LC=4, id 0x1001 (minimal)
    out.extend_from_slice(&[0, 0, 0, 0]); // NEXTINT
    out.extend_from_slice(&[0, 0, 0, 0]); // DHEADER TypeIdentifierWithDependencies (appendable)
    out.extend_from_slice(&[0, 0, 0, 0]); // DHEADER TypeIdentifierWithSize (appendable)
    nested_type_identifier(&mut out, 0, depth, kind, true);
    out
}
