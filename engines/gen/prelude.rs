// Shared prelude of every generated program (C40/C41): tiny RNG, JSON helpers, descriptor dumper,
// panic capture.  Only public dust_dds API is used.
#![allow(dead_code, unused, non_camel_case_types, non_snake_case, non_upper_case_globals, unreachable_patterns, clippy::all)]

use dust_dds::xtypes::dynamic_type::{DynamicData, DynamicType, ExtensibilityKind, TypeKind};

pub struct Rng(pub u64);
impl Rng {
    pub fn new(seed: u64) -> Self {
        Rng(seed.wrapping_mul(0x9E3779B97F4A7C15) | 1)
    }
    pub fn next(&mut self) -> u64 {
        let mut x = self.0;
        x ^= x >> 12;
        x ^= x << 25;
        x ^= x >> 27;
        self.0 = x;
        x.wrapping_mul(0x2545F4914F6CDD1D)
    }
    pub fn below(&mut self, n: u64) -> u64 {
        (self.next() >> 11) % n
    }
    // integers: mix of edge values and random ones
    fn edge(&mut self, bits: u32, signed: bool) -> u64 {
        match self.below(8) {
            0 => 0,
            1 => 1,
            2 => {
                if signed {
                    (1u64 << (bits - 1)).wrapping_sub(1)
                } else if bits == 64 {
                    u64::MAX
                } else {
                    (1u64 << bits) - 1
                }
            }
            3 => {
                if signed {
                    1u64 << (bits - 1)
                } else {
                    0
                }
            }
            4 => {
                if signed {
                    u64::MAX
                } else {
                    2
                }
            }
            _ => self.next(),
        }
    }
    pub fn u8(&mut self) -> u8 {
        self.edge(8, false) as u8
    }
    pub fn i8(&mut self) -> i8 {
        self.edge(8, true) as i8
    }
    pub fn u16(&mut self) -> u16 {
        self.edge(16, false) as u16
    }
    pub fn i16(&mut self) -> i16 {
        self.edge(16, true) as i16
    }
    pub fn u32(&mut self) -> u32 {
        self.edge(32, false) as u32
    }
    pub fn i32(&mut self) -> i32 {
        self.edge(32, true) as i32
    }
    pub fn u64(&mut self) -> u64 {
        self.edge(64, false)
    }
    pub fn i64(&mut self) -> i64 {
        self.edge(64, true) as i64
    }
    pub fn f32(&mut self) -> f32 {
        match self.below(6) {
            0 => 0.0,
            1 => -1.5,
            2 => f32::MAX,
            3 => f32::MIN_POSITIVE,
            _ => (self.next() as i32 as f32) / 1024.0,
        }
    }
    pub fn f64(&mut self) -> f64 {
        match self.below(6) {
            0 => 0.0,
            1 => -2.25,
            2 => f64::MAX,
            3 => f64::MIN_POSITIVE,
            _ => (self.next() as i64 as f64) / 65536.0,
        }
    }
    pub fn bool(&mut self) -> bool {
        self.below(2) == 1
    }
    pub fn ch(&mut self) -> char {
        (0x20u8 + self.below(0x5f) as u8) as char
    }
    pub fn string(&mut self) -> String {
        let n = self.below(7);
        (0..n).map(|_| self.ch()).collect()
    }
    pub fn vec<T>(&mut self, mut f: impl FnMut(&mut Rng) -> T) -> Vec<T> {
        let n = self.below(4);
        (0..n).map(|_| f(self)).collect()
    }
}

pub fn jstr(s: &str) -> String {
    let mut o = String::with_capacity(s.len() + 2);
    o.push('"');
    for c in s.chars() {
        match c {
            '"' => o.push_str("\\\""),
            '\\' => o.push_str("\\\\"),
            '\n' => o.push_str("\\n"),
            '\r' => o.push_str("\\r"),
            '\t' => o.push_str("\\t"),
            c if (c as u32) < 0x20 => o.push_str(&format!("\\u{:04x}", c as u32)),
            c => o.push(c),
        }
    }
    o.push('"');
    o
}

fn ext_name(e: ExtensibilityKind) -> &'static str {
    match e {
        ExtensibilityKind::Final => "final",
        ExtensibilityKind::Appendable => "appendable",
        ExtensibilityKind::Mutable => "mutable",
    }
}

/// JSON description of a DynamicType. `members` are only expanded at depth 0 (and for base types).
pub fn dump_type(t: &DynamicType<'_>, depth: u32) -> String {
    let d = t.get_descriptor();
    let mut o = String::new();
    o.push('{');
    o.push_str(&format!("\"kind\":{}", jstr(&format!("{:?}", d.kind))));
    o.push_str(&format!(",\"name\":{}", jstr(d.name)));
    o.push_str(&format!(",\"ext\":{}", jstr(ext_name(d.extensibility_kind))));
    o.push_str(&format!(",\"nested\":{}", d.is_nested));
    o.push_str(&format!(
        ",\"bound\":[{}]",
        d.bound.iter().map(|b| b.to_string()).collect::<Vec<_>>().join(",")
    ));
    match &d.element_type {
        Some(e) if depth < 6 => o.push_str(&format!(",\"elem\":{}", dump_type(e, depth + 1))),
        _ => o.push_str(",\"elem\":null"),
    }
    match &d.discriminator_type {
        Some(e) if depth < 6 => o.push_str(&format!(",\"disc\":{}", dump_type(e, depth + 1))),
        _ => o.push_str(",\"disc\":null"),
    }
    match &d.base_type {
        Some(b) if depth < 6 => o.push_str(&format!(",\"base\":{}", dump_members_type(b, depth + 1))),
        _ => o.push_str(",\"base\":null"),
    }
    o.push_str(&format!(",\"member_count\":{}", t.get_member_count()));
    if depth == 0 {
        o.push_str(",\"members\":");
        o.push_str(&dump_members(t, depth));
    }
    o.push('}');
    o
}

fn dump_members_type(t: &DynamicType<'_>, depth: u32) -> String {
    let d = t.get_descriptor();
    let base = match &d.base_type {
        Some(b) if depth < 6 => dump_members_type(b, depth + 1),
        _ => "null".to_string(),
    };
    format!(
        "{{\"kind\":{},\"name\":{},\"ext\":{},\"base\":{},\"members\":{}}}",
        jstr(&format!("{:?}", d.kind)),
        jstr(d.name),
        jstr(ext_name(d.extensibility_kind)),
        base,
        dump_members(t, depth)
    )
}

fn dump_members(t: &DynamicType<'_>, depth: u32) -> String {
    let mut o = String::from("[");
    for i in 0..t.get_member_count() {
        if i > 0 {
            o.push(',');
        }
        match t.get_member_by_index(i).and_then(|m| m.get_descriptor()) {
            Ok(m) => {
                o.push('{');
                o.push_str(&format!("\"name\":{}", jstr(m.name)));
                o.push_str(&format!(",\"id\":{}", m.id));
                o.push_str(&format!(",\"index\":{}", m.index));
                o.push_str(&format!(",\"key\":{}", m.is_key));
                o.push_str(&format!(",\"opt\":{}", m.is_optional));
                o.push_str(&format!(",\"mu\":{}", m.is_must_understand));
                o.push_str(&format!(",\"external\":{}", m.is_external));
                o.push_str(&format!(
                    ",\"labels\":[{}]",
                    m.label.iter().map(|b| b.to_string()).collect::<Vec<_>>().join(",")
                ));
                o.push_str(&format!(",\"default_label\":{}", m.is_default_label));
                match m.default_value {
                    Some(s) => o.push_str(&format!(",\"default\":{}", jstr(s))),
                    None => o.push_str(",\"default\":null"),
                }
                o.push_str(&format!(",\"type\":{}", dump_type(&m.r#type, depth + 1)));
                o.push('}');
            }
            Err(e) => o.push_str(&format!("{{\"error\":{}}}", jstr(&format!("{:?}", e)))),
        }
    }
    o.push(']');
    o
}

/// Integer stored at member id 0 of an enum's dynamic sample.
pub fn enum_value(d: &DynamicData<'_>) -> Option<i64> {
    if let Ok(v) = d.get_int8_value(0) {
        return Some(*v as i64);
    }
    if let Ok(v) = d.get_int16_value(0) {
        return Some(*v as i64);
    }
    if let Ok(v) = d.get_int32_value(0) {
        return Some(*v as i64);
    }
    if let Ok(v) = d.get_uint8_value(0) {
        return Some(*v as i64);
    }
    if let Ok(v) = d.get_uint16_value(0) {
        return Some(*v as i64);
    }
    if let Ok(v) = d.get_uint32_value(0) {
        return Some(*v as i64);
    }
    None
}

thread_local! {
    static LAST_PANIC: std::cell::RefCell<String> = std::cell::RefCell::new(String::new());
}

pub fn install_panic_hook() {
    std::panic::set_hook(Box::new(|info| {
        let msg = if let Some(s) = info.payload().downcast_ref::<&str>() {
            s.to_string()
        } else if let Some(s) = info.payload().downcast_ref::<String>() {
            s.clone()
        } else {
            "<non-string panic>".to_string()
        };
        let loc = info
            .location()
            .map(|l| format!("{}:{}", l.file(), l.line()))
            .unwrap_or_default();
        LAST_PANIC.with(|p| *p.borrow_mut() = format!("{} @ {}", msg, loc));
    }));
}

/// Runs `f`, turning a panic into Err(message @ location).
pub fn catch<T>(f: impl FnOnce() -> T) -> Result<T, String> {
    match std::panic::catch_unwind(std::panic::AssertUnwindSafe(f)) {
        Ok(v) => Ok(v),
        Err(_) => Err(LAST_PANIC.with(|p| p.borrow().clone())),
    }
}

pub fn trunc(s: String) -> String {
    if s.len() > 600 {
        let mut e = 600;
        while !s.is_char_boundary(e) {
            e -= 1;
        }
        format!("{}...", &s[..e])
    } else {
        s
    }
}

/// Result of converting `n` generated values to dynamic data and back (JSON fragment).
pub fn roundtrip<T>(seed: u64, n: u32, g: fn(&mut Rng, bool) -> T, norm: fn(T) -> T) -> String
where
    T: dust_dds::xtypes::type_support::TypeSupport + Clone + PartialEq + core::fmt::Debug,
{
    let mut r = Rng::new(seed);
    let mut ok = 0u32;
    let mut fails: Vec<String> = Vec::new();
    let mut first = String::new();
    let mut first_dyn = String::new();
    for i in 0..n {
        let v = g(&mut r, true);
        if i == 0 {
            first = trunc(format!("{:?}", v));
        }
        let exp = norm(v.clone());
        let vv = v.clone();
        let want_dyn = i == 0;
        let res = catch(move || {
            let mut dd = vv.create_dynamic_sample();
            let dbg = if want_dyn { trunc(format!("{:?}", dd)) } else { String::new() };
            (T::create_sample(&mut dd), dbg)
        });
        let (why, got) = match res {
            Ok((Some(x), dbg)) => {
                if want_dyn {
                    first_dyn = dbg;
                }
                if x == exp {
                    ok += 1;
                    continue;
                }
                ("mismatch", trunc(format!("{:?}", x)))
            }
            Ok((None, dbg)) => {
                if want_dyn {
                    first_dyn = dbg;
                }
                ("none", "None".to_string())
            }
            Err(m) => ("panic", m),
        };
        if fails.len() < 3 {
            fails.push(format!(
                "{{\"i\":{},\"why\":{},\"value\":{},\"expected\":{},\"got\":{}}}",
                i,
                jstr(why),
                jstr(&trunc(format!("{:?}", v))),
                jstr(&trunc(format!("{:?}", exp))),
                jstr(&got)
            ));
        } else {
            fails.push(format!("{{\"i\":{},\"why\":{}}}", i, jstr(why)));
        }
    }
    format!(
        "\"rt_n\":{},\"rt_ok\":{},\"rt_fail\":[{}],\"first\":{},\"first_dyn\":{}",
        n,
        ok,
        fails.join(","),
        jstr(&first),
        jstr(&first_dyn)
    )
}
