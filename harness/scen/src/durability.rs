//! C04: late TRANSIENT_LOCAL readers get the retained history (and wait_for_historical_data then
//! completes); VOLATILE readers never present samples written before they were matched.
use crate::common::*;
use dust_dds::infrastructure::qos::{DataReaderQos, DataWriterQos};
use dust_dds::infrastructure::qos_policy::*;
use dust_dds::infrastructure::sample_info::{ANY_INSTANCE_STATE, ANY_SAMPLE_STATE, ANY_VIEW_STATE};
use simnet::*;
use std::collections::{BTreeMap, BTreeSet};
use vcore::{Json, Report, Rng};

#[derive(Clone, Debug)]
struct Params {
    writer_tl: bool,
    reader_tl: bool,
    keep_last: Option<u32>,
    frag: usize,
    n_before: u32,
    n_after: u32,
    n_instances: u32,
    sizes: Vec<usize>,
    plan: FaultPlan,
    fault_ms: i64,
    policy: Policy,
    jitter: i64,
    /// ms between the last "before" write and reader creation
    settle_ms: i64,
}

impl Params {
    fn to_json(&self) -> Json {
        Json::obj()
            .set("writer_durability", if self.writer_tl { "TRANSIENT_LOCAL" } else { "VOLATILE" })
            .set("reader_durability", if self.reader_tl { "TRANSIENT_LOCAL" } else { "VOLATILE" })
            .set(
                "writer_history",
                match self.keep_last {
                    None => "KEEP_ALL".to_string(),
                    Some(d) => format!("KEEP_LAST({d})"),
                },
            )
            .set("fragment_size", self.frag)
            .set("writes_before_reader", self.n_before)
            .set("writes_after_match", self.n_after)
            .set("instances", self.n_instances)
            .set("payload_lens", self.sizes.clone())
            .set("faults", self.plan.describe())
            .set("fault_window_ms", self.fault_ms)
            .set("policy", format!("{:?}", self.policy))
            .set("settle_ms", self.settle_ms)
    }
}

fn gen_params(rng: &mut Rng) -> Params {
    let frag = *rng.pick(&[256usize, 1344]);
    let mut plan = FaultPlan::default();
    match rng.below(4) {
        0 => plan.loss = rng.f64() * 0.5,
        1 => {
            plan.loss = rng.f64() * 0.3;
            plan.delay = rng.f64() * 0.4;
            plan.delay_max_ns = (1 + rng.below(600)) as i64 * MS;
        }
        2 => plan.dup = rng.f64() * 0.4,
        _ => {}
    }
    let reader_tl = rng.chance(0.6);
    // a TRANSIENT_LOCAL reader only matches a TRANSIENT_LOCAL writer
    let writer_tl = reader_tl || rng.bool();
    let mut sizes = vec![8usize, 30];
    if rng.chance(0.3) {
        sizes.push(frag + 7);
    }
    Params {
        writer_tl,
        reader_tl,
        keep_last: if rng.chance(0.4) { None } else { Some(*rng.pick(&[1u32, 2, 3, 5])) },
        frag,
        n_before: 1 + rng.below(25) as u32,
        n_after: rng.below(10) as u32,
        n_instances: 1 + rng.below(3) as u32,
        sizes,
        plan,
        fault_ms: 100 + rng.below(2500) as i64,
        policy: pick_policy(rng),
        jitter: *rng.pick(&[0i64, 1000, 1_000_000]),
        settle_ms: *rng.pick(&[0i64, 1, 60, 300]),
    }
}

struct Outcome {
    matched: bool,
    before_ok: Vec<(u32, u32)>, // (seq, key)
    after_ok: Vec<u32>,
    presented: BTreeSet<u32>,
    /// ids the reader had received when wait_for_historical_data returned Ok
    wfhd: String,
    wfhd_ret_ms: i64,
    wfhd_missing: Vec<u32>,
    history_complete_ms: i64,
    stuck: bool,
    storm: bool,
    reader_created_ms: i64,
}

fn retained(before_ok: &[(u32, u32)], keep_last: Option<u32>) -> BTreeSet<u32> {
    match keep_last {
        None => before_ok.iter().map(|x| x.0).collect(),
        Some(d) => {
            let mut per: BTreeMap<u32, Vec<u32>> = BTreeMap::new();
            for (s, k) in before_ok {
                per.entry(*k).or_default().push(*s);
            }
            per.values().flat_map(|v| v.iter().rev().take(d as usize).cloned().collect::<Vec<_>>()).collect()
        }
    }
}

async fn scenario(w: World, p: Params) -> Outcome {
    let sim = w.sim.clone();
    let ms = |sim: &Sim| sim.elapsed() / MS;
    let dur = |tl: bool| DurabilityQosPolicy {
        kind: if tl { DurabilityQosPolicyKind::TransientLocal } else { DurabilityQosPolicyKind::Volatile },
    };
    let wq = DataWriterQos {
        reliability: reliable(1000),
        durability: dur(p.writer_tl),
        history: match p.keep_last {
            None => keep_all(),
            Some(d) => keep_last(d),
        },
        ..Default::default()
    };
    let rq = DataReaderQos {
        reliability: reliable(100),
        durability: dur(p.reader_tl),
        history: keep_all(),
        ..Default::default()
    };
    let mut out = Outcome {
        matched: false,
        before_ok: vec![],
        after_ok: vec![],
        presented: BTreeSet::new(),
        wfhd: String::new(),
        wfhd_ret_ms: -1,
        wfhd_missing: vec![],
        history_complete_ms: -1,
        stuck: false,
        storm: false,
        reader_created_ms: -1,
    };
    let dpw = new_participant(&w, 0).await;
    let tw = new_topic::<Msg>(&dpw, "Dur", "Msg").await;
    let pb = new_publisher(&dpw).await;
    let dw = new_writer::<Msg>(&pb, &tw, wq).await;
    // the reader's participant exists already (discovery done) but not the reader
    let dpr = new_participant(&w, 0).await;
    let tr = new_topic::<Msg>(&dpr, "Dur", "Msg").await;
    let sb = new_subscriber(&dpr).await;
    sim.sleep(300 * MS).await;
    let mut rng = Rng::new(p.n_before as u64 * 131 + p.fault_ms as u64);
    for seq in 0..p.n_before {
        let key = rng.below(p.n_instances as u64) as u32;
        let len = *rng.pick(&p.sizes);
        if dw.write(msg(key, 0, seq, len), None).await.is_ok() {
            out.before_ok.push((seq, key));
        }
        if rng.chance(0.3) {
            sim.sleep(rng.below(5) as i64 * MS + 1).await;
        }
    }
    if p.settle_ms > 0 {
        sim.sleep(p.settle_ms * MS).await;
    }
    // faults on the catch-up traffic
    let until = sim.now() + p.fault_ms * MS;
    {
        let mut plan = p.plan.clone();
        plan.until_ns = until;
        w.net.set_policy(Some(plan.into_fn()));
    }
    out.reader_created_ms = ms(&sim);
    let dr = new_reader::<Msg>(&sb, &tr, rq).await;
    out.matched = wait_matched(&sim, &dw, 1, 20 * SEC).await
        && wait_reader_matched(&sim, &dr, 1, 20 * SEC).await;
    if !out.matched {
        return out;
    }
    let expect_history = p.reader_tl && p.writer_tl;
    let hist = retained(&out.before_ok, p.keep_last);
    // wait_for_historical_data, issued after the reader has observed the match; the writer is
    // quiet meanwhile so the retained history is a fixed set
    let take_all = |dr: dust_dds::dds_async::data_reader::DataReaderAsync<Msg>| async move {
        let mut v = Vec::new();
        if let Ok(s) = dr.take(i32::MAX, ANY_SAMPLE_STATE, ANY_VIEW_STATE, ANY_INSTANCE_STATE).await {
            for x in s {
                if let Some(m) = x.data {
                    v.push(m.seq);
                }
            }
        }
        v
    };
    let wfhd = sim.spawn_local({
        let dr = dr.clone();
        async move { dr.wait_for_historical_data().await }
    });
    let datagram_cap = w.net.counters().submitted + 300_000;
    let mut last_progress = sim.now();
    let hard = sim.now() + 200 * SEC;
    let mut wfhd_seen = false;
    loop {
        if !wfhd_seen && wfhd.is_done() {
            wfhd_seen = true;
            out.wfhd_ret_ms = ms(&sim);
            match wfhd.try_take() {
                Some(Ok(())) => {
                    out.wfhd = "Ok".into();
                    // soundness probe with the network frozen
                    w.net.set_frozen(true);
                    for s in take_all(dr.clone()).await {
                        out.presented.insert(s);
                    }
                    w.net.set_frozen(false);
                    if expect_history {
                        out.wfhd_missing = hist.iter().filter(|s| !out.presented.contains(s)).cloned().collect();
                    }
                }
                Some(Err(e)) => out.wfhd = err_name(&e),
                None => {}
            }
        }
        let before = out.presented.len();
        for s in take_all(dr.clone()).await {
            out.presented.insert(s);
        }
        if out.presented.len() != before {
            last_progress = sim.now();
        }
        let complete = !expect_history || hist.iter().all(|s| out.presented.contains(s));
        if complete && out.history_complete_ms < 0 {
            out.history_complete_ms = ms(&sim);
        }
        if complete && (wfhd_seen || sim.now() > EPOCH_NS + out.history_complete_ms * MS + 30 * SEC) && sim.now() > until {
            break;
        }
        if !complete && sim.now() > until && sim.now() - last_progress.max(until) > 30 * SEC {
            out.stuck = true;
            break;
        }
        if sim.now() > hard || w.net.counters().submitted > datagram_cap {
            out.storm = true;
            break;
        }
        sim.sleep(50 * MS).await;
    }
    if !wfhd_seen {
        out.wfhd = "pending".into();
    }
    // phase 3: writes after the match must arrive for every reader kind (sanity, C01 owns it)
    for i in 0..p.n_after {
        let seq = 1000 + i;
        if dw.write(msg(i % p.n_instances, 0, seq, 8), None).await.is_ok() {
            out.after_ok.push(seq);
        }
    }
    sim.sleep(2 * SEC).await;
    for s in take_all(dr.clone()).await {
        out.presented.insert(s);
    }
    out
}

pub fn run(shard: &Shard) -> Report {
    let mut rep = Report::new("C04");
    for case in shard.my_cases() {
        let cs = shard.case_seed(case);
        let mut rng = Rng::new(cs);
        let p = gen_params(&mut rng);
        let mut cfg = WorldConfig::default();
        cfg.sim.seed = cs;
        cfg.sim.policy = p.policy;
        cfg.sim.jitter_max = p.jitter;
        cfg.sim.max_polls = 6_000_000;
        cfg.fragment_size = p.frag;
        let p2 = p.clone();
        let (res, stats, net) = run_world(&cfg, move |w| scenario(w, p2));
        rep.eval();
        let replay = shard.base_replay("durability", case).set("params", p.to_json());
        let panicked = report_panics(&mut rep, &stats, &replay);
        let Some(o) = res else {
            if !panicked {
                rep.inconclusive(format!("case {case}: scenario did not finish ({:?})", stats.stop));
            }
            continue;
        };
        if !o.matched {
            if !panicked {
                rep.inconclusive(format!("case {case}: endpoints did not match within 20 s"));
            }
            continue;
        }
        let c = net.counters();
        let lossy = c.user_dropped + c.user_delayed + c.user_dup > 0;
        let fragd = p.sizes.iter().any(|l| l + 20 > p.frag);
        let feat = format!("frag={}|loss={}", if fragd { "yes" } else { "no" }, if lossy { "yes" } else { "no" });
        let hist = retained(&o.before_ok, p.keep_last);
        if !p.reader_tl {
            // VOLATILE reader: nothing written before the reader was created may be presented
            let leaked: Vec<u32> = o.before_ok.iter().map(|x| x.0).filter(|s| o.presented.contains(s)).collect();
            rep.stat("volatile_reader_cases", 1);
            if !leaked.is_empty() {
                rep.violation(
                    format!("volatile_leak|writer={}|{feat}", if p.writer_tl { "transient_local" } else { "volatile" }),
                    format!(
                        "VOLATILE reader created at +{} ms presented {} samples whose write had returned before it was created (e.g. #{})",
                        o.reader_created_ms, leaked.len(), leaked[0]
                    ),
                    replay.clone().set("violation", "volatile_leak").set("leaked", leaked.iter().take(10).cloned().collect::<Vec<_>>()),
                );
            }
        } else {
            rep.stat("transient_local_reader_cases", 1);
            rep.stat("retained_history_samples", hist.len() as i128);
            let missing: Vec<u32> = hist.iter().filter(|s| !o.presented.contains(s)).cloned().collect();
            if !missing.is_empty() {
                if o.stuck {
                    rep.violation(
                        format!("history_missing|hist={}|{feat}", if p.keep_last.is_some() { "keep_last" } else { "keep_all" }),
                        format!(
                            "late TRANSIENT_LOCAL reliable reader: {} of {} retained samples not presented and no progress for 30 s (virtual) after healing (e.g. #{})",
                            missing.len(), hist.len(), missing[0]
                        ),
                        replay.clone().set("violation", "history_missing").set("missing", missing.iter().take(10).cloned().collect::<Vec<_>>()),
                    );
                } else {
                    rep.stat("cases_unfinished_storm(no verdict)", 1);
                }
            } else if !o.storm {
                if o.wfhd == "pending" {
                    rep.violation(
                        format!("wfhd_hang|{feat}"),
                        format!(
                            "wait_for_historical_data still pending 30 s (virtual) after the reader had presented the whole retained history ({} samples, complete at +{} ms)",
                            hist.len(), o.history_complete_ms
                        ),
                        replay.clone().set("violation", "wfhd_hang"),
                    );
                } else if o.wfhd == "Ok" {
                    rep.stat("wfhd_ok", 1);
                } else {
                    rep.set("wfhd_errors", o.wfhd.clone());
                }
            }
            if !o.wfhd_missing.is_empty() {
                rep.violation(
                    format!("wfhd_premature|{feat}"),
                    format!(
                        "wait_for_historical_data returned Ok at +{} ms while {} of {} retained samples had not been received (e.g. #{})",
                        o.wfhd_ret_ms, o.wfhd_missing.len(), hist.len(), o.wfhd_missing[0]
                    ),
                    replay.clone().set("violation", "wfhd_premature").set("missing", o.wfhd_missing.iter().take(10).cloned().collect::<Vec<_>>()),
                );
            }
            // nothing outside the retained history may appear from the "before" phase
            let extra: Vec<u32> = o.before_ok.iter().map(|x| x.0).filter(|s| o.presented.contains(s) && !hist.contains(s)).collect();
            if !extra.is_empty() {
                rep.stat("presented_beyond_retained_depth(not judged)", extra.len() as i128);
            }
        }
        rep.nontrivial(vcore::mix(vcore::mix(net.fate_hash(), stats.poll_hash), vcore::fnv_str(&p.to_json().to_string())));
        if case < 40 {
            rep.sample(
                Json::obj()
                    .set("case", case)
                    .set("params", p.to_json())
                    .set("before_ok", o.before_ok.len())
                    .set("retained", hist.len())
                    .set("presented", o.presented.len())
                    .set("wfhd", o.wfhd.clone()),
            );
        }
    }
    rep
}
