#!/bin/bash
# Validate a seeded breaking change in a scratch worktree: patch applies and compiles, the crate's
# unit tests + chosen integration tests still pass with it, and the demonstration fails with the
# change and passes without it. Results are written to /verif/seeded/<name>/validation.txt.
# usage: tools/validate_seeded.sh <name> <dir with patch.diff and demo/> [integration test names...]
set -u
name="$1"; src="$2"; shift 2
wt=/tmp/val_$name
out=/verif/seeded/$name
mkdir -p "$out"
cp "$src/patch.diff" "$out/patch.diff"
rm -rf "$out/demo"; cp -r "$src/demo" "$out/demo"
[ -f "$src/notes.md" ] && cp "$src/notes.md" "$out/notes.md"
git -C /repo worktree remove --force "$wt" 2>/dev/null
git -C /repo worktree add -q "$wt" HEAD || exit 2
export CARGO_TARGET_DIR=$wt/target CARGO_NET_OFFLINE=true
log="$out/validation.txt"; : > "$log"
cd "$wt"
for f in "$out"/demo/*.rs; do cp "$f" dds/tests/; done
demos=$(cd "$out/demo" && ls *.rs | sed 's/\.rs$//')
echo "## base: $(git -C /repo log --format=%h -1)" >> "$log"
echo "## demo WITHOUT the change (must pass)" >> "$log"
for d in $demos; do (cd dds && timeout 2400 cargo test --offline -p dust_dds ${DEMO_FEATURES:+--features $DEMO_FEATURES} --test $d 2>&1 | grep -E "^test |test result|error" | head -20) >> "$log"; done
git apply "$out/patch.diff" || { echo "PATCH DOES NOT APPLY" >> "$log"; exit 1; }
echo "## with the change: unit tests" >> "$log"
(cd dds && timeout 2400 cargo test --offline --lib 2>&1 | grep -E "test result|error\[" | head -5) >> "$log"
for t in "$@"; do echo "## with the change: integration test file $t" >> "$log"; (cd dds && timeout 2400 cargo test --offline -p dust_dds --test $t -- --test-threads=1 2>&1 | grep -E "test result|FAILED|failed" | head -8) >> "$log"; done
echo "## demo WITH the change (must fail)" >> "$log"
for d in $demos; do (cd dds && timeout 2400 cargo test --offline -p dust_dds ${DEMO_FEATURES:+--features $DEMO_FEATURES} --test $d 2>&1 | grep -E "^test |test result|panicked|error" | head -20) >> "$log"; done
cd /; git -C /repo worktree remove --force "$wt"
cat "$log"
