//! C11: same instance handle <=> equal key members (hook `get_instance_handle_from_dynamic_data`).
//! C12: key hash = big-endian XCDR serialization of the key members, zero padded to 16 bytes when the
//! key's MAXIMUM serialized size is <= 16, MD5 otherwise. The maximum is computed exactly per admitted
//! serialization variant (refenc::max_size_exact); a handle that is right under one variant is right.
//!
//! dust-dds and XTypes disagree on which members form the key when `@key` marks sit inside a nested
//! structure (XTypes: only through key members; dust-dds additionally collects marks inside non-key
//! struct members and takes a key struct member as a whole). Every leaf member is therefore classified
//! KEY / NONKEY / AMBIGUOUS (the two readings differ) and only KEY / NONKEY leaves are ever used by an
//! oracle, so nothing is demanded that one of the readings would not demand.
use crate::common::*;
use crate::dustrun::*;
use crate::refenc::*;
use dust_dds::verif_hooks::xtypes_glue::key_and_instance_handle::get_instance_handle_from_dynamic_data;
use std::collections::HashSet;
use std::rc::Rc;
use vcore::{Json, Report, Rng, fnv_str, mix};
use xcdrlib::dustglue::*;
use xcdrlib::model::*;

#[derive(Clone, Copy, PartialEq, Eq, Debug)]
pub enum Cls {
    Key,
    NonKey,
    Ambig,
}

fn scalar_key_ty(g: &mut Gen) -> Ty {
    match g.rng.below(10) {
        0..=4 => loop {
            let p = g.prim();
            if !matches!(p, Prim::F32 | Prim::F64 | Prim::F128) {
                break Ty::Prim(p);
            }
        },
        5 => Ty::Str { bound: 0 },
        6 | 7 => {
            let hi = if g.rng.bool() { 8 } else { 30 };
            Ty::Str {
                bound: 1 + g.rng.below(hi) as u32,
            }
        }
        _ => g.enum_ty(),
    }
}

fn collection_key_ty(g: &mut Gen) -> Ty {
    let elem = match g.rng.below(4) {
        0 => Ty::Str {
            bound: if g.rng.bool() { 0 } else { 1 + g.rng.below(5) as u32 },
        },
        _ => loop {
            let p = g.prim();
            if !matches!(p, Prim::F32 | Prim::F64 | Prim::F128) {
                break Ty::Prim(p);
            }
        },
    };
    if g.rng.bool() {
        Ty::Seq {
            elem: Box::new(elem),
            bound: if g.rng.chance(0.6) { 1 + g.rng.below(4) as u32 } else { 0 },
        }
    } else {
        let len = if matches!(elem, Ty::Prim(_)) { 1 + g.rng.below(12) as u32 } else { 1 + g.rng.below(2) as u32 };
        Ty::Arr {
            elem: Box::new(elem),
            len,
        }
    }
}

fn nested_key_struct(g: &mut Gen, depth: usize, counter: &mut u32) -> Ty {
    let n = 1 + g.rng.usize(3);
    let mark = g.rng.chance(0.5);
    let mut members = Vec::new();
    for i in 0..n {
        let ty = if depth < 2 && g.rng.chance(0.2) {
            nested_key_struct(g, depth + 1, counter)
        } else if g.rng.chance(0.15) {
            collection_key_ty(g)
        } else {
            scalar_key_ty(g)
        };
        let key = mark && g.rng.chance(0.6);
        members.push(Member {
            name: format!("n{i}"),
            id: i as u32,
            ty,
            key,
            optional: false,
            must_understand: key,
        });
    }
    *counter += 1;
    let ext = match g.rng.below(10) {
        0 => Ext::Appendable,
        1 => Ext::Mutable,
        _ => Ext::Final,
    };
    Ty::Struct(Rc::new(StructTy {
        name: format!("N{}", counter),
        ext,
        members,
    }))
}

pub fn keyed_type(g: &mut Gen) -> Ty {
    loop {
        let ext = *g.rng.pick(&[Ext::Final, Ext::Final, Ext::Appendable, Ext::Mutable]);
        let n = 2 + g.rng.usize(5);
        let mut counter = 0u32;
        let mut ids: Vec<u32> = (0..n as u32).collect();
        if ext == Ext::Mutable && g.rng.bool() {
            let mut set = std::collections::BTreeSet::new();
            while set.len() < n {
                set.insert(g.rng.below(200) as u32);
            }
            ids = set.into_iter().collect();
            g.rng.shuffle(&mut ids);
        }
        let mut members = Vec::new();
        for (i, id) in ids.iter().enumerate() {
            let (ty, capable) = match g.rng.below(100) {
                0..=39 => (scalar_key_ty(g), true),
                40..=54 => (collection_key_ty(g), true),
                55..=74 => (nested_key_struct(g, 1, &mut counter), true),
                _ => (g.member_ty(2), false),
            };
            let key = capable && g.rng.chance(0.45);
            let optional = !key && g.rng.chance(0.15);
            members.push(Member {
                name: format!("m{i}"),
                id: *id,
                ty,
                key,
                optional,
                must_understand: key,
            });
        }
        if members.iter().any(|m| m.key) {
            return Ty::Struct(Rc::new(StructTy {
                name: "Keyed".into(),
                ext,
                members,
            }));
        }
    }
}

fn xt_keyset(s: &StructTy) -> Vec<usize> {
    let marked: Vec<usize> = s.members.iter().enumerate().filter(|(_, m)| m.key).map(|(i, _)| i).collect();
    if marked.is_empty() { (0..s.members.len()).collect() } else { marked }
}

/// classify every leaf member path (indices through nested structures)
pub fn leaves(t: &Ty) -> Vec<(Vec<usize>, Cls)> {
    fn inside_key_struct(s: &StructTy, prefix: &mut Vec<usize>, in_xt: bool, out: &mut Vec<(Vec<usize>, Cls)>) {
        let ks = xt_keyset(s);
        for (i, m) in s.members.iter().enumerate() {
            prefix.push(i);
            let here = in_xt && ks.contains(&i);
            match &m.ty {
                Ty::Struct(sub) => inside_key_struct(sub, prefix, here, out),
                _ => out.push((prefix.clone(), if here { Cls::Key } else { Cls::Ambig })),
            }
            prefix.pop();
        }
    }
    fn inside_nonkey_struct(s: &StructTy, prefix: &mut Vec<usize>, out: &mut Vec<(Vec<usize>, Cls)>) {
        for (i, m) in s.members.iter().enumerate() {
            prefix.push(i);
            if m.key {
                // dust-dds collects it, XTypes does not
                mark_all(&m.ty, prefix, Cls::Ambig, out);
            } else {
                match &m.ty {
                    Ty::Struct(sub) if !m.optional => inside_nonkey_struct(sub, prefix, out),
                    _ => out.push((prefix.clone(), Cls::NonKey)),
                }
            }
            prefix.pop();
        }
    }
    fn mark_all(t: &Ty, prefix: &mut Vec<usize>, c: Cls, out: &mut Vec<(Vec<usize>, Cls)>) {
        match t {
            Ty::Struct(s) => {
                for (i, m) in s.members.iter().enumerate() {
                    prefix.push(i);
                    mark_all(&m.ty, prefix, c, out);
                    prefix.pop();
                }
            }
            _ => out.push((prefix.clone(), c)),
        }
    }
    let mut out = Vec::new();
    if let Ty::Struct(s) = t {
        let mut prefix = Vec::new();
        for (i, m) in s.members.iter().enumerate() {
            prefix.push(i);
            if m.key {
                match &m.ty {
                    Ty::Struct(sub) => inside_key_struct(sub, &mut prefix, true, &mut out),
                    _ => out.push((prefix.clone(), Cls::Key)),
                }
            } else {
                match &m.ty {
                    Ty::Struct(sub) if !m.optional => inside_nonkey_struct(sub, &mut prefix, &mut out),
                    _ => out.push((prefix.clone(), Cls::NonKey)),
                }
            }
            prefix.pop();
        }
    }
    out
}

fn names_of(t: &Ty, path: &[usize]) -> Vec<String> {
    let mut out = Vec::new();
    let mut cur = t.clone();
    for i in path {
        if let Ty::Struct(s) = &cur {
            out.push(s.members[*i].name.clone());
            let next = s.members[*i].ty.clone();
            cur = next;
        }
    }
    out
}

fn resolve(t: &Ty, names: &[String]) -> Option<Vec<usize>> {
    let mut out = Vec::new();
    let mut cur = t.clone();
    for n in names {
        let s = match &cur {
            Ty::Struct(s) => s.clone(),
            _ => return None,
        };
        let i = s.members.iter().position(|m| &m.name == n)?;
        out.push(i);
        cur = s.members[i].ty.clone();
    }
    Some(out)
}

fn get_at<'a>(t: &'a Ty, v: &'a Val, path: &[usize]) -> Option<(&'a Ty, &'a Val)> {
    if path.is_empty() {
        return Some((t, v));
    }
    match (t, v) {
        (Ty::Struct(s), Val::Struct(ms)) => {
            let mv = ms.get(path[0])?.as_ref()?;
            get_at(&s.members[path[0]].ty, mv, &path[1..])
        }
        _ => None,
    }
}

fn set_at(v: &Val, path: &[usize], nv: Val) -> Option<Val> {
    if path.is_empty() {
        return Some(nv);
    }
    match v {
        Val::Struct(ms) => {
            let mut ms2 = ms.clone();
            let inner = ms.get(path[0])?.as_ref()?;
            ms2[path[0]] = Some(set_at(inner, &path[1..], nv)?);
            Some(Val::Struct(ms2))
        }
        _ => None,
    }
}

/// deterministic "some other value" of a type
fn other_value(t: &Ty, cur: &Val, salt: u64) -> Option<Val> {
    let mut g = Gen::new(Rng::new(mix(0xD1FF, salt)), GenCfg::common_subset());
    for _ in 0..40 {
        let v = g.value(t);
        if v != *cur {
            return Some(v);
        }
    }
    None
}

pub enum H {
    Ok([u8; 16]),
    Err(String),
    Panic(PanicInfo),
    Harness(String),
}

pub fn handle(dt: dust_dds::xtypes::dynamic_type::DynamicType<'static>, t: &Ty, v: &Val) -> H {
    let d = match build_data(dt, t, v) {
        Ok(d) => d,
        Err(e) => return H::Harness(e),
    };
    match guarded(|| get_instance_handle_from_dynamic_data(&d)) {
        Ok(Ok(h)) => H::Ok(<[u8; 16]>::from(h)),
        Ok(Err(e)) => H::Err(format!("{:?}", e)),
        Err(p) => {
            if p.in_dust() {
                H::Panic(p)
            } else {
                H::Harness(p.msg)
            }
        }
    }
}

/// C11 evaluation of a pair described by (type, value a, name path of the changed leaf).
/// Returns "ok", "n/a" (path gone / class changed) or a failure key.
fn eval_pair(t: &Ty, a: &Val, names: &[String], want: Cls, salt: u64) -> (String, String) {
    let path = match resolve(t, names) {
        Some(p) => p,
        None => return ("n/a".into(), String::new()),
    };
    let cls = leaves(t).into_iter().find(|(p, _)| *p == path).map(|x| x.1);
    if cls != Some(want) {
        return ("n/a".into(), String::new());
    }
    let (lt, lv) = match get_at(t, a, &path) {
        Some(x) => x,
        None => return ("n/a".into(), String::new()),
    };
    let nv = match other_value(lt, lv, salt) {
        Some(x) => x,
        None => return ("n/a".into(), String::new()),
    };
    let b = match set_at(a, &path, nv) {
        Some(b) => b,
        None => return ("n/a".into(), String::new()),
    };
    let dt = build_type(t);
    let (ha, hb) = (handle(dt, t, a), handle(dt, t, &b));
    match (ha, hb) {
        (H::Ok(x), H::Ok(y)) => {
            let detail = format!(
                "handle(a)={} handle(b)={} b={}",
                vcore::hex(&x),
                vcore::hex(&y),
                val_to_json(t, &b).to_string()
            );
            match want {
                Cls::NonKey if x != y => ("same_key_different_handle".into(), detail),
                Cls::Key if x == y => ("different_key_same_handle".into(), detail),
                _ => ("ok".into(), detail),
            }
        }
        (H::Panic(p), _) | (_, H::Panic(p)) => (format!("handle_panic|{}", p.sig()), format!("{} at {}", p.msg, p.location)),
        (H::Err(e), _) | (_, H::Err(e)) => (format!("handle_error|{}", err_class(&e)), e),
        (H::Harness(e), _) | (_, H::Harness(e)) => ("harness".into(), e),
    }
}

fn pair_replay(t: &Ty, a: &Val, names: &[String], want: Cls, salt: u64) -> Json {
    Json::obj()
        .set("check", "c11")
        .set("type", ty_to_json(t))
        .set("value", val_to_json(t, a))
        .set("changed_member_path", names.to_vec())
        .set("changed_member_is", if want == Cls::Key { "key" } else { "nonkey" })
        .set("salt", salt)
}

fn report_c11(rep: &mut Report, t: &Ty, a: &Val, names: &[String], want: Cls, salt: u64, key: &str) {
    let single = key.starts_with("handle_error|") || key.starts_with("handle_panic|");
    let single_key = |ct: &Ty, cv: &Val| -> (String, String) {
        let dt = build_type(ct);
        match handle(dt, ct, cv) {
            H::Ok(_) => ("ok".into(), String::new()),
            H::Err(e) => (format!("handle_error|{}", err_class(&e)), e),
            H::Panic(p) => (format!("handle_panic|{}", p.sig()), format!("{} at {}", p.msg, p.location)),
            H::Harness(e) => ("harness".into(), e),
        }
    };
    let (mt, mv, used) = if single && single_key(t, a).0 == key {
        minimize(t, a, 1500, &mut |ct, cv| {
            matches!(ct, Ty::Struct(s) if s.members.iter().any(|m| m.key)) && single_key(ct, cv).0 == key
        })
    } else {
        minimize(t, a, 1500, &mut |ct, cv| eval_pair(ct, cv, names, want, salt).0 == key)
    };
    rep.stat("shrink_evaluations", used as i128);
    let (k2, detail) = if single && single_key(&mt, &mv).0 == key {
        single_key(&mt, &mv)
    } else {
        eval_pair(&mt, &mv, names, want, salt)
    };
    // closed classes: the only known cause is dust-dds' flattening of @key marks found inside NON-key
    // nested structs into one holder indexed by member id (ids of different structs collide). Verified
    // on the minimised type by replaying the flattening (classify::flattened_key_id_collisions):
    //   handle_error: some id occurs twice; different_key_same_handle: the id of the changed top-level
    //   key member occurs twice (its value is the one that gets overwritten)
    let collisions = crate::classify::flattened_key_id_collisions(&mt);
    let changed_top_id = match (&mt, names.first()) {
        (Ty::Struct(s), Some(n)) => s.members.iter().find(|m| &m.name == n).map(|m| m.id),
        _ => None,
    };
    let kind = key.split('|').next().unwrap_or("");
    let explained = match kind {
        "handle_error" => !collisions.is_empty(),
        "different_key_same_handle" => changed_top_id.map(|i| collisions.contains(&i)).unwrap_or(false),
        _ => false,
    };
    let cause = if let Some(p) = key.strip_prefix("handle_panic|") {
        format!("unclassified|site={}", p)
    } else if explained {
        crate::classify::S5.to_string()
    } else {
        format!("unclassified|shape={}", sig_class(&mt))
    };
    let sig = format!("instance_identity|{}|cause={}", kind, cause);
    let what = format!(
        "{}: changed {} member {} ; type {} a={} {}",
        k2,
        if want == Cls::Key { "KEY" } else { "NON-KEY" },
        names.join("."),
        ty_to_json(&mt).to_string(),
        val_to_json(&mt, &mv).to_string(),
        detail
    );
    rep.violation(sig, what, pair_replay(&mt, &mv, names, want, salt));
}

pub fn run_c11(a: &Cli) -> Report {
    let mut rep = Report::new("C11");
    if let Some(w) = &a.replay {
        for wj in w {
            let r = wj.get("replay").cloned().unwrap_or(Json::Null);
            let parsed = (|| -> Result<_, String> {
                let t = ty_from_json(r.get("type").ok_or("type")?)?;
                let v = val_from_json(&t, r.get("value").ok_or("value")?)?;
                let names: Vec<String> = r
                    .get("changed_member_path")
                    .and_then(|x| x.as_arr())
                    .ok_or("path")?
                    .iter()
                    .filter_map(|x| x.as_str().map(|s| s.to_string()))
                    .collect();
                let want = if r.get("changed_member_is").and_then(|x| x.as_str()) == Some("key") { Cls::Key } else { Cls::NonKey };
                let salt = r.get("salt").and_then(|x| x.as_u64()).unwrap_or(0);
                Ok((t, v, names, want, salt))
            })();
            match parsed {
                Ok((t, v, names, want, salt)) => {
                    let (key, _) = eval_pair(&t, &v, &names, want, salt);
                    rep.eval();
                    rep.nontrivial(fnv_str(&key));
                    rep.sample(Json::obj().set("replayed", r.clone()).set("outcome", key.clone()));
                    if key != "ok" && key != "n/a" && key != "harness" {
                        report_c11(&mut rep, &t, &v, &names, want, salt, &key);
                    }
                }
                Err(e) => rep.inconclusive(format!("replay file: {e}")),
            }
        }
        return rep;
    }
    let per_shard = (a.cases / a.nshards.max(1)).max(1);
    let pairs_per_type = 24u64;
    let ntypes = (per_shard / pairs_per_type).max(1).min(4000);
    let mut shrunk: HashSet<u64> = HashSet::new();
    for ti in 0..ntypes {
        let mut g = Gen::new(Rng::new(mix(mix(mix(a.seed, 0xC11), a.shard), ti)), GenCfg::common_subset());
        let t = keyed_type(&mut g);
        let ls = leaves(&t);
        let usable: Vec<&(Vec<usize>, Cls)> = ls.iter().filter(|(_, c)| *c != Cls::Ambig).collect();
        rep.stat("types", 1);
        rep.stat("leaves_key", ls.iter().filter(|x| x.1 == Cls::Key).count() as i128);
        rep.stat("leaves_nonkey", ls.iter().filter(|x| x.1 == Cls::NonKey).count() as i128);
        rep.stat("leaves_ambiguous_never_used", ls.iter().filter(|x| x.1 == Cls::Ambig).count() as i128);
        if usable.is_empty() {
            continue;
        }
        let shape = shape_class(&t);
        for pi in 0..pairs_per_type {
            let va = g.value(&t);
            let (path, cls) = (*g.rng.pick(&usable)).clone();
            let names = names_of(&t, &path);
            let salt = mix(ti, pi);
            let (key, detail) = eval_pair(&t, &va, &names, cls, salt);
            if key == "n/a" {
                rep.stat("pairs_not_applicable(optional parent absent / single-valued type)", 1);
                continue;
            }
            if key == "harness" {
                rep.inconclusive(format!("harness problem: {detail}"));
                continue;
            }
            rep.eval();
            let leaf_tag = get_at(&t, &va, &path).map(|x| ty_tag(x.0)).unwrap_or_default();
            let kind = if cls == Cls::Key { "different_key" } else { "same_key_different_nonkey" };
            rep.stat(&format!("pairs:{kind}"), 1);
            rep.stat(&format!("outcome:{}", key.split('|').next().unwrap_or("")), 1);
            rep.set("changed_leaf_kinds", format!("{kind}:{leaf_tag}:depth{}", path.len()));
            rep.nontrivial(fnv_str(&format!("{}|{}|{}|{}|{}", shape, kind, leaf_tag, path.len(), key)));
            if key == "ok" {
                if ti < 2 && pi < 2 {
                    rep.sample(pair_replay(&t, &va, &names, cls, salt).set("outcome", "ok").set("detail", detail));
                }
                continue;
            }
            let coarse = fnv_str(&format!("{}|{}|{}", shape, kind, key));
            if shrunk.insert(coarse) && shrunk.len() < 400 {
                report_c11(&mut rep, &t, &va, &names, cls, salt, &key);
            } else {
                rep.stat("failures_not_minimized", 1);
            }
        }
    }
    rep
}

// ------------------------------------------------------------------------------------------------
// C12
// ------------------------------------------------------------------------------------------------

fn all_final_on_key_path(t: &Ty) -> bool {
    fn key_struct_final(t: &Ty) -> bool {
        match t {
            Ty::Struct(s) => s.ext == Ext::Final && s.members.iter().all(|m| key_struct_final(&m.ty)),
            _ => true,
        }
    }
    match t {
        Ty::Struct(s) => s.ext == Ext::Final && s.members.iter().filter(|m| m.key).all(|m| key_struct_final(&m.ty)),
        _ => false,
    }
}

/// returns (key, detail)
fn eval_hash(t: &Ty, v: &Val) -> (String, String) {
    if leaves(t).iter().any(|x| x.1 == Cls::Ambig) {
        return ("n/a:ambiguous_key_set".into(), String::new());
    }
    let (ht, hv) = match key_holder(t, v, false) {
        Some(x) => x,
        None => return ("n/a:no_key".into(), String::new()),
    };
    let dt = build_type(t);
    let h = match handle(dt, t, v) {
        H::Ok(h) => h,
        H::Err(e) => return (format!("handle_error|{}", err_class(&e)), e),
        H::Panic(p) => return (format!("handle_panic|{}", p.sig()), format!("{} at {}", p.msg, p.location)),
        H::Harness(e) => return ("harness".into(), e),
    };
    // (variant, exact maximum serialized size of the key holder in that variant, class, serialization)
    let mut cands = Vec::new();
    for var in KEY_VARIANTS {
        if let Ok(ser) = serialize_key(&ht, &hv, var) {
            let max = max_size_exact(&ht, var);
            if let Some(m) = max {
                if ser.len() > m {
                    return (
                        "harness".into(),
                        format!("{}: this value takes {} bytes, more than the computed maximum {}", var.name(), ser.len(), m),
                    );
                }
            }
            cands.push((var, max_class(&ht, var), ser));
        }
    }
    if cands.is_empty() {
        return ("harness".into(), "reference key serialization failed".into());
    }
    // The property does not say which serialization variant S is. The handle is right if it is right
    // under at least one admitted variant: pad16(S) where that variant's maximum is <= 16, MD5(S) where
    // it is > 16. (The same bytes can be the zero padded S of a second variant whose maximum is larger:
    // that is no violation.)
    for (var, cls, ser) in &cands {
        if h == key_hash(ser, *cls == MaxClass::Over16) {
            return (
                "ok".into(),
                format!(
                    "matches {} ({})",
                    var.name(),
                    if *cls == MaxClass::Over16 { "md5" } else { "zero padded" }
                ),
            );
        }
    }
    // right under no variant: name the kind of wrong decision
    let show = |ser: &Vec<u8>| if ser.len() > 48 { format!("{}..({} bytes)", vcore::hex(&ser[..48]), ser.len()) } else { vcore::hex(ser) };
    let maxes = || {
        cands
            .iter()
            .map(|(var, _, _)| format!("{}:{}", var.name(), max_size_exact(&ht, *var).map(|m| m.to_string()).unwrap_or("unbounded".into())))
            .collect::<Vec<_>>()
            .join(" ")
    };
    for (var, cls, ser) in &cands {
        if *cls == MaxClass::Over16 && ser.len() <= 16 && h == key_hash(ser, false) {
            return (
                "keyhash|zero_padded_although_max_serialized_key_size_over_16".into(),
                format!(
                    "handle {} is the zero padded {} serialization {} ({} bytes now) but the key's maximum serialized size exceeds 16 bytes in every variant whose zero padded form this is (maxima: {}), so the MD5 {} is required",
                    vcore::hex(&h),
                    var.name(),
                    show(ser),
                    ser.len(),
                    maxes(),
                    vcore::hex(&key_hash(ser, true))
                ),
            );
        }
    }
    for (var, cls, ser) in &cands {
        if *cls == MaxClass::AtMost16 && h == key_hash(ser, true) {
            return (
                "keyhash|md5_although_max_serialized_key_size_at_most_16".into(),
                format!(
                    "handle {} is the MD5 of the {} serialization {} (maxima: {})",
                    vcore::hex(&h),
                    var.name(),
                    show(ser),
                    maxes()
                ),
            );
        }
    }
    if all_final_on_key_path(t) {
        (
            "keyhash|not_a_big_endian_xcdr_serialization_of_the_key_members".into(),
            format!(
                "handle {} ; candidates: {}",
                vcore::hex(&h),
                cands
                    .iter()
                    .map(|(var, cls, ser)| format!("{}[{:?}]={}", var.name(), cls, show(ser)))
                    .collect::<Vec<_>>()
                    .join(" ")
            ),
        )
    } else {
        ("n/a:bytes_not_judged_for_non_final_key_holders".into(), String::new())
    }
}

fn report_c12(rep: &mut Report, t: &Ty, v: &Val, key: &str) {
    let (mt, mv, used) = minimize(t, v, 1500, &mut |ct, cv| eval_hash(ct, cv).0 == key);
    rep.stat("shrink_evaluations", used as i128);
    let (k2, detail) = eval_hash(&mt, &mv);
    let sig = if key.starts_with("handle_panic|") || key.starts_with("handle_error|") || key.contains("although_max_serialized") {
        // the kind of wrong decision is the root cause; the witness shows a minimal key shape
        format!("key_hash|{}", key)
    } else {
        format!("key_hash|{}|shape={}", key, sig_class(&mt))
    };
    let what = format!(
        "{}: {} ; type {} value {}",
        k2,
        detail,
        ty_to_json(&mt).to_string(),
        val_to_json(&mt, &mv).to_string()
    );
    rep.violation(
        sig,
        what,
        Json::obj()
            .set("check", "c12")
            .set("type", ty_to_json(&mt))
            .set("value", val_to_json(&mt, &mv)),
    );
}

pub fn run_c12(a: &Cli) -> Report {
    let mut rep = Report::new("C12");
    let c = crate::calib::run();
    rep.set(
        "trusted_base",
        format!(
            "reference key serialization in refenc.rs calibrated on {} key-hash vectors (incl. the Cyclone DDS capture) and {} byte vectors",
            c.key_passed, c.passed
        ),
    );
    if !c.failures.is_empty() {
        rep.inconclusive(format!("reference encoder fails its calibration: {}", c.failures.join(" ; ")));
        return rep;
    }
    if let Some(w) = &a.replay {
        for wj in w {
            let r = wj.get("replay").cloned().unwrap_or(Json::Null);
            let parsed = (|| -> Result<_, String> {
                let t = ty_from_json(r.get("type").ok_or("type")?)?;
                let v = val_from_json(&t, r.get("value").ok_or("value")?)?;
                Ok((t, v))
            })();
            match parsed {
                Ok((t, v)) => {
                    let (key, detail) = eval_hash(&t, &v);
                    rep.eval();
                    rep.nontrivial(fnv_str(&key));
                    rep.sample(Json::obj().set("replayed", r.clone()).set("outcome", key.clone()).set("detail", detail));
                    if key != "ok" && !key.starts_with("n/a") && key != "harness" {
                        report_c12(&mut rep, &t, &v, &key);
                    }
                }
                Err(e) => rep.inconclusive(format!("replay file: {e}")),
            }
        }
        return rep;
    }
    let per_shard = (a.cases / a.nshards.max(1)).max(1);
    let values_per_type = 12u64;
    let ntypes = (per_shard / values_per_type).max(1).min(6000);
    let mut shrunk: HashSet<u64> = HashSet::new();
    for ti in 0..ntypes {
        let mut g = Gen::new(Rng::new(mix(mix(mix(a.seed, 0xC12), a.shard), ti)), GenCfg::common_subset());
        let t = keyed_type(&mut g);
        rep.stat("types", 1);
        let shape = shape_class(&t);
        for vi in 0..values_per_type {
            let v = g.value(&t);
            let (key, detail) = eval_hash(&t, &v);
            if key.starts_with("n/a") {
                rep.stat(&key, 1);
                if key != "n/a:bytes_not_judged_for_non_final_key_holders" {
                    break;
                }
                continue;
            }
            if key == "harness" {
                rep.inconclusive(format!("harness problem: {detail}"));
                continue;
            }
            rep.eval();
            let klass = key_holder(&t, &v, false)
                .map(|(ht, _)| {
                    let c = max_class(&ht, KeyVariant::X2ById);
                    format!("{}|max={:?}", sig_class(&ht), c)
                })
                .unwrap_or_default();
            rep.set("key_shapes", klass.clone());
            rep.stat(&format!("outcome:{}", key.split('|').take(2).collect::<Vec<_>>().join("|")), 1);
            if key == "ok" {
                rep.set("matching_reference_variant", detail.clone());
            }
            rep.nontrivial(fnv_str(&format!("{}|{}", klass, key)));
            if key == "ok" {
                if ti < 3 && vi == 0 {
                    rep.sample(
                        Json::obj()
                            .set("type", ty_to_json(&t))
                            .set("value", val_to_json(&t, &v))
                            .set("outcome", "ok")
                            .set("detail", detail),
                    );
                }
                continue;
            }
            let coarse = fnv_str(&format!("{}|{}", shape, key));
            if shrunk.insert(coarse) && shrunk.len() < 400 {
                report_c12(&mut rep, &t, &v, &key);
            } else {
                rep.stat("failures_not_minimized", 1);
            }
        }
    }
    rep
}
