//! C38: `RtpsUdpTransportParticipantFactory::set_fragment_size` accepts exactly 8..=65000,
//! rejects everything else with `BadParameter` and leaves the previous setting unchanged.
//!
//! A case is a transition (previous accepted setting p, new value v): a fresh default factory is
//! brought to p through the public API (the default itself needs no call), then `set_fragment_size(v)`
//! is called once and the result and `fragment_size()` are observed. No socket is opened.
use crate::{Run, util};
use dust_dds::infrastructure::error::DdsError;
use dust_dds::rtps_udp_transport::udp_transport::RtpsUdpTransportParticipantFactory;
use vcore::{Json, Report, Rng};

const LO: usize = 8;
const HI: usize = 65000;
const VALUES: [usize; 11] = [0, 1, 7, 8, 9, 1344, 64999, 65000, 65001, 65536, usize::MAX];

fn in_range(v: usize) -> bool {
    (LO..=HI).contains(&v)
}

fn class_of(v: usize) -> &'static str {
    if v < LO {
        "below"
    } else if v > HI {
        "above"
    } else {
        "inside"
    }
}

fn fine_class(v: usize) -> String {
    match v {
        0 => "0".into(),
        1..=6 => "1..6".into(),
        7 => "7".into(),
        8 => "8".into(),
        9..=1343 => "9..1343".into(),
        1344 => "1344".into(),
        1345..=64998 => "1345..64998".into(),
        64999 => "64999".into(),
        65000 => "65000".into(),
        65001 => "65001".into(),
        65002..=65535 => "65002..65535".into(),
        65536 => "65536".into(),
        usize::MAX => "usize::MAX".into(),
        _ => {
            // 65537..: by bit length
            format!("2^{}", usize::BITS - v.leading_zeros())
        }
    }
}

/// `prev`: None = the default setting (no call), Some(p) = call set_fragment_size(p) first.
fn transition(r: &mut Report, prev: Option<usize>, v: usize, origin: &str) {
    let replay = Json::obj()
        .set("prev", match prev {
            Some(p) => util::u64_json(p as u64),
            None => Json::Null,
        })
        .set("value", util::u64_json(v as u64));
    let res = util::guarded(|| {
        let mut f = RtpsUdpTransportParticipantFactory::default();
        let default = f.fragment_size();
        let mut established = true;
        if let Some(p) = prev {
            let ok = f.set_fragment_size(p).is_ok();
            established = ok && f.fragment_size() == p;
        }
        let before = f.fragment_size();
        let outcome: Result<(), DdsError> = f.set_fragment_size(v).map(|_| ());
        let after = f.fragment_size();
        (default, established, before, outcome, after)
    });
    let (default, established, before, outcome, after) = match res {
        Ok(x) => x,
        Err(p) => {
            r.eval();
            r.violation(
                util::panic_sig(&p),
                format!("set_fragment_size({v}) from previous setting {prev:?} panicked: {} at {}", p.msg, p.loc),
                replay,
            );
            return;
        }
    };
    r.maxstat("default_fragment_size", default as i128);
    if !established {
        // the previous setting cannot be reached through the API: nothing to observe for this pair
        r.stat("prev_not_reachable", 1);
        return;
    }
    r.eval();
    let prev_class = if in_range(before) { "in_range" } else { "out_of_range" };
    let accepted = outcome.is_ok();
    r.stat(if accepted { "accepted" } else { "rejected" }, 1);
    r.stat(&format!("origin_{origin}"), 1);
    if let Err(e) = &outcome {
        r.set("error_variants", format!("{e:?}"));
    }
    r.set("value_classes", fine_class(v));
    r.set("prev_classes", format!("{}{}", fine_class(before), if prev.is_none() { " (default)" } else { "" }));
    r.nontrivial(util::hash_str(&format!(
        "prev={}|v={}|acc={}|chg={}",
        fine_class(before),
        fine_class(v),
        accepted,
        before != after
    )));
    r.sample(
        Json::obj()
            .set("previous_setting", util::u64_json(before as u64))
            .set("previous_is_default", prev.is_none())
            .set("value", util::u64_json(v as u64))
            .set("result", match &outcome {
                Ok(()) => "Ok".to_string(),
                Err(e) => format!("Err({e:?})"),
            })
            .set("fragment_size_after", util::u64_json(after as u64)),
    );
    let ctx = format!(
        "previous setting {before}{}, set_fragment_size({v}) -> {}, fragment_size() afterwards {after}",
        if prev.is_none() { " (default)" } else { "" },
        match &outcome {
            Ok(()) => "Ok".to_string(),
            Err(e) => format!("Err({e:?})"),
        }
    );
    match (&outcome, in_range(v)) {
        (Ok(()), false) => r.violation(
            format!("accepted_out_of_range|class={}", class_of(v)),
            format!("value outside 8..=65000 accepted: {ctx}"),
            replay.clone(),
        ),
        (Ok(()), true) => {
            if after != v {
                r.violation(
                    "not_stored_on_success",
                    format!("accepted value not returned by fragment_size(): {ctx}"),
                    replay.clone(),
                );
            }
        }
        (Err(e), inr) => {
            if inr {
                r.violation(
                    format!("rejected_in_range|prev={prev_class}"),
                    format!("value inside 8..=65000 rejected: {ctx}"),
                    replay.clone(),
                );
            } else if *e != DdsError::BadParameter {
                let name = format!("{e:?}");
                let name = name.split('(').next().unwrap_or("").to_string();
                r.violation(
                    format!("wrong_error|got={name}"),
                    format!("rejection is not BadParameter: {ctx}"),
                    replay.clone(),
                );
            }
            if after != before {
                r.violation(
                    "changed_on_error",
                    format!("setting changed although the call failed: {ctx}"),
                    replay.clone(),
                );
            }
        }
    }
}

fn random_value(rng: &mut Rng) -> usize {
    match rng.below(8) {
        0 => rng.next_u64() as usize,
        1 => rng.below(70_000) as usize,
        2 => (rng.range(-16, 16) + LO as i64).max(0) as usize,
        3 => (rng.range(-16, 16) + HI as i64) as usize,
        4 => {
            // a power of two +-1
            let b = rng.below(64) as u32;
            let base = 1u64 << b;
            (base as i128 + rng.range(-1, 1) as i128).clamp(0, u64::MAX as i128) as u64 as usize
        }
        5 => (u64::MAX - rng.below(1 << 20)) as usize,
        6 => rng.below(1 << 32) as usize,
        _ => LO + rng.usize(HI - LO + 1),
    }
}

pub fn run(run: &Run) -> Report {
    let mut r = Report::new("C38");
    r.max_samples = 4;
    if let Some(rep) = &run.replay {
        for w in util::replay_objects(rep) {
            let prev = util::json_u64(w.get("prev")).map(|x| x as usize);
            let v = util::json_u64(w.get("value")).unwrap_or(0) as usize;
            transition(&mut r, prev, v, "replay");
        }
        return r;
    }
    // --- exhaustive part: every (p, v) over the value list; p = default or any listed value the
    // API accepts as a setting (values it refuses are counted as prev_not_reachable).
    let mut pairs: Vec<(Option<usize>, usize)> = Vec::new();
    for v in VALUES {
        pairs.push((None, v));
    }
    for p in VALUES {
        // previous settings are restricted to documented-valid ones plus whatever the API let through
        for v in VALUES {
            pairs.push((Some(p), v));
        }
    }
    for (i, (p, v)) in pairs.iter().enumerate() {
        if i as u64 % run.nshards == run.shard {
            transition(&mut r, *p, *v, "class_grid");
        }
    }
    // --- random part
    let (lo, hi) = run.my_range(run.cases);
    for i in lo..hi {
        let mut rng = Rng::new(vcore::mix(run.seed ^ 0xC38, i));
        let prev = match rng.below(4) {
            0 => None,
            1 => Some(*rng.pick(&[8usize, 9, 1344, 64999, 65000])),
            _ => Some(LO + rng.usize(HI - LO + 1)),
        };
        let v = random_value(&mut rng);
        transition(&mut r, prev, v, "random");
    }
    r
}
