//! C32: StatusCondition trigger values and WaitSet wake-ups.
//!
//! The scenario causes status-raising events (match, data, incompatible QoS, deadline misses),
//! performs status reads and `set_enabled_statuses` calls, and keeps a model of every attached
//! StatusCondition: trigger value = "some ENABLED status changed since it was last read".
//! Concurrent waiter actors block in `WaitSetAsync::wait()`; their start/return times and results
//! are judged against the model's timeline afterwards.
//!
//! Raced resets (half of the cases, 1-2 episodes each): the interleaving "a blocked waiter is
//! notified of a status change, but ANOTHER application task reads (resets) that status before the
//! waiter gets to run; later the status changes again and nobody reads it". The scheduling delay
//! of the waiter tasks is produced deterministically: every waiter polls its `wait()` future
//! through a gate which the main actor closes just before the first change and opens right after
//! its own status read (a descheduled waiter thread; API calls cost no virtual time in the
//! simulation, so no executor policy alone would ever open this window). The wait that was pending
//! may legitimately return an empty list; the waiters' loop "wait, handle, wait again" must then
//! notice the second change within H_w like any other change (oracle (2), unchanged). Time spent
//! behind the closed gate is not counted as blocked time.
use crate::common::*;
use crate::rec::kind_name;
use dust_dds::dds_async::condition::StatusConditionAsync;
use dust_dds::dds_async::wait_set::{ConditionAsync, WaitSetAsync};
use dust_dds::infrastructure::qos::{DataReaderQos, DataWriterQos};
use dust_dds::infrastructure::qos_policy::*;
use dust_dds::infrastructure::sample_info::{ANY_INSTANCE_STATE, ANY_SAMPLE_STATE, ANY_VIEW_STATE};
use dust_dds::infrastructure::status::StatusKind;
use dust_dds::infrastructure::time::DurationKind;
use simnet::*;
use std::cell::{Cell, RefCell};
use std::future::Future;
use std::pin::Pin;
use std::rc::Rc;
use std::task::{Context, Poll, Waker};
use vcore::{Json, Report, Rng};

const H_W: i64 = SEC;
const DEADLINE_MS: i64 = 700;
const N_COND: usize = 3;
const COND_NAME: [&str; 3] = ["writer", "reader", "subscriber"];
/// statuses that are never raised by dust-dds: used to recognise a condition in wait()'s result
const MARKER: [StatusKind; 3] = [StatusKind::LivelinessLost, StatusKind::LivelinessChanged, StatusKind::SampleLost];

/// (condition, status) pairs a raced-reset episode can aim at: statuses that an application task can
/// raise again at will and reset by reading
const RACE_TARGETS: [(usize, StatusKind); 4] = [
    (0, StatusKind::PublicationMatched),
    (1, StatusKind::SubscriptionMatched),
    (1, StatusKind::DataAvailable),
    (2, StatusKind::DataOnReaders),
];

/// While closed, the gated futures are not polled (their task is "not scheduled").
struct Gate {
    closed: Cell<bool>,
    wakers: RefCell<Vec<Waker>>,
}

impl Gate {
    fn close(&self) {
        self.closed.set(true);
    }
    fn open(&self) {
        self.closed.set(false);
        for w in self.wakers.borrow_mut().drain(..) {
            w.wake();
        }
    }
}

struct Gated<'a, T> {
    fut: Pin<Box<dyn Future<Output = T> + 'a>>,
    gate: Rc<Gate>,
}

impl<'a, T> Future for Gated<'a, T> {
    type Output = T;
    fn poll(mut self: Pin<&mut Self>, cx: &mut Context<'_>) -> Poll<T> {
        if self.gate.closed.get() {
            self.gate.wakers.borrow_mut().push(cx.waker().clone());
            return Poll::Pending;
        }
        self.fut.as_mut().poll(cx)
    }
}

fn relevant(ci: usize) -> &'static [StatusKind] {
    match ci {
        0 => &[StatusKind::PublicationMatched, StatusKind::OfferedIncompatibleQos, StatusKind::OfferedDeadlineMissed],
        1 => &[
            StatusKind::SubscriptionMatched,
            StatusKind::RequestedIncompatibleQos,
            StatusKind::RequestedDeadlineMissed,
            StatusKind::DataAvailable,
        ],
        _ => &[StatusKind::DataOnReaders],
    }
}

fn is_deadline(ci: usize, s: StatusKind) -> bool {
    (ci == 0 && s == StatusKind::OfferedDeadlineMissed) || (ci == 1 && s == StatusKind::RequestedDeadlineMissed)
}

#[derive(Clone, Copy, PartialEq, Eq, Debug)]
enum Tri {
    F,
    T,
    U,
}

#[derive(Clone, Debug)]
struct CondM {
    mask: Vec<StatusKind>,
    mask_unknown: bool,
    changed: Vec<(StatusKind, Tri)>,
    /// how the condition last became true: "event" | "enable", and through which status
    via: &'static str,
    via_status: Option<StatusKind>,
}

impl CondM {
    fn get(&self, s: StatusKind) -> Tri {
        self.changed.iter().find(|x| x.0 == s).map(|x| x.1).unwrap_or(Tri::F)
    }
    fn set(&mut self, s: StatusKind, v: Tri) {
        match self.changed.iter_mut().find(|x| x.0 == s) {
            Some(x) => x.1 = v,
            None => self.changed.push((s, v)),
        }
    }
}

#[derive(Clone, Debug)]
struct Snap {
    t: i64,
    c: [CondM; N_COND],
}

#[derive(Clone, Debug, Default)]
struct Dl {
    enabled: bool,
    d: i64,
    lag: i64,
    w_writes: Vec<(i64, i64)>,
    r_writes: Vec<(i64, i64)>,
    odm_reads: Vec<(i64, i64)>,
}

/// Has the deadline-missed status (single instance) changed since it was last read, at time `t`?
fn dl_changed(writes: &[(i64, i64)], d: i64, lag: i64, reads: &[(i64, i64)], t: i64) -> Tri {
    let ws: Vec<&(i64, i64)> = writes.iter().filter(|w| w.0 <= t).collect();
    let last_read = reads.iter().filter(|r| r.0 <= t).last();
    if let Some(r) = last_read {
        if t < r.1 {
            return Tri::U;
        }
    }
    let (r_call, r_ret) = last_read.map(|r| (r.0, r.1)).unwrap_or((i64::MIN, i64::MIN));
    let mut certainly_true = false;
    let mut certainly_false = true;
    for (j, w) in ws.iter().enumerate() {
        let (next_lo, next_hi) = match ws.get(j + 1) {
            Some(n) => (n.0.min(t), n.1.min(t)),
            None => (t, t),
        };
        let mut n = 1i64;
        loop {
            let earliest = w.0 + n * d;
            let latest = w.1 + n * d + lag;
            if earliest > next_hi {
                break;
            }
            // possibly detected by t
            if latest >= r_call {
                certainly_false = false;
            }
            if latest <= next_lo && earliest > r_ret {
                certainly_true = true;
            }
            n += 1;
        }
    }
    if certainly_true {
        Tri::T
    } else if certainly_false {
        Tri::F
    } else {
        Tri::U
    }
}

/// How did a deadline-missed status make its condition true at `t`, given that the status was
/// enabled during [en_lo, en_hi] (the set_enabled_statuses call) and last read at `reads`?
/// "event": a miss was certainly detected after the enabling; "enable": a miss was certainly
/// detected (and not read) before the enabling; otherwise "ambiguous".
fn dl_via(writes: &[(i64, i64)], d: i64, lag: i64, reads: &[(i64, i64)], t: i64, en_lo: i64, en_hi: i64) -> &'static str {
    let ws: Vec<&(i64, i64)> = writes.iter().filter(|w| w.0 <= t).collect();
    let r_ret = reads.iter().filter(|r| r.0 <= t).last().map(|r| r.1).unwrap_or(i64::MIN);
    let mut via = "ambiguous";
    for (j, w) in ws.iter().enumerate() {
        let next_lo = match ws.get(j + 1) {
            Some(n) => n.0.min(t),
            None => t,
        };
        let mut n = 1i64;
        loop {
            let earliest = w.0 + n * d;
            let latest = w.1 + n * d + lag;
            if latest > next_lo {
                break;
            }
            if earliest > r_ret {
                if earliest > en_hi {
                    return "event";
                }
                if latest <= en_lo {
                    via = "enable";
                }
            }
            n += 1;
        }
    }
    via
}

struct Model {
    snaps: Vec<Snap>,
    dl: Dl,
}

impl Model {
    fn cur(&self) -> Snap {
        self.snaps.last().unwrap().clone()
    }
    fn changed_at(&self, snap: &Snap, ci: usize, s: StatusKind, t: i64) -> Tri {
        if ci == 0 && s == StatusKind::OfferedDeadlineMissed {
            if self.dl.enabled { dl_changed(&self.dl.w_writes, self.dl.d, self.dl.lag, &self.dl.odm_reads, t) } else { Tri::F }
        } else if ci == 1 && s == StatusKind::RequestedDeadlineMissed {
            if self.dl.enabled { dl_changed(&self.dl.r_writes, self.dl.d, self.dl.lag, &[], t) } else { Tri::F }
        } else {
            snap.c[ci].get(s)
        }
    }
    /// (trigger value, a status that makes it true, via)
    fn trigger_at(&self, ci: usize, t: i64) -> (Tri, Option<StatusKind>, &'static str) {
        let Some(snap) = self.snaps.iter().filter(|s| s.t <= t).last() else {
            return (Tri::U, None, "event");
        };
        self.trigger_in(snap, ci, t, false)
    }
    /// `old_mask`: judge with the mask in force before a set_enabled_statuses call that is in progress
    fn trigger_in(&self, snap: &Snap, ci: usize, t: i64, old_mask: bool) -> (Tri, Option<StatusKind>, &'static str) {
        let c = &snap.c[ci];
        if c.mask_unknown && !old_mask {
            return (Tri::U, None, "event");
        }
        let mut any_u = false;
        let mut first_t = None;
        for s in relevant(ci) {
            if !c.mask.contains(s) {
                continue;
            }
            match self.changed_at(snap, ci, *s, t) {
                Tri::T => {
                    if first_t.is_none() {
                        first_t = Some(*s);
                    }
                }
                Tri::U => any_u = true,
                Tri::F => {}
            }
        }
        if let Some(s) = first_t {
            // prefer the recorded cause if it is still a reason
            if let Some(vs) = c.via_status {
                if c.mask.contains(&vs) && self.changed_at(snap, ci, vs, t) == Tri::T && !is_deadline(ci, vs) {
                    return (Tri::T, Some(vs), c.via);
                }
            }
            if is_deadline(ci, s) {
                // when was this status enabled? (contiguous suffix of snapshots whose mask has it)
                let idx = self.snaps.iter().rposition(|x| x.t <= t).unwrap_or(0);
                let mut first = idx;
                while first > 0 && self.snaps[first - 1].c[ci].mask.contains(&s) {
                    first -= 1;
                }
                let en_hi = self.snaps[first].t;
                let en_lo = if first > 0 { self.snaps[first - 1].t } else { i64::MIN };
                let via = if ci == 0 {
                    dl_via(&self.dl.w_writes, self.dl.d, self.dl.lag, &self.dl.odm_reads, t, en_lo, en_hi)
                } else {
                    dl_via(&self.dl.r_writes, self.dl.d, self.dl.lag, &[], t, en_lo, en_hi)
                };
                return (Tri::T, Some(s), via);
            }
            return (Tri::T, Some(s), "event");
        }
        (if any_u { Tri::U } else { Tri::F }, None, "event")
    }
    /// push a new snapshot produced by `f` at time `t`; records how conditions became true
    fn update(&mut self, t: i64, via: &'static str, f: impl FnOnce(&mut Snap)) {
        let cur = self.cur();
        let before: Vec<Tri> = (0..N_COND).map(|ci| self.trigger_in(&cur, ci, t, true).0).collect();
        let mut s = self.cur();
        s.t = t;
        let old = s.clone();
        f(&mut s);
        self.snaps.push(s);
        for ci in 0..N_COND {
            let (after, st, _) = self.trigger_at(ci, t);
            if after == Tri::T && before[ci] != Tri::T {
                // which status is responsible: one that is newly enabled / newly changed
                let snap = self.snaps.last().unwrap().clone();
                let mut resp = st;
                for k in relevant(ci) {
                    let now_on = snap.c[ci].mask.contains(k) && self.changed_at(&snap, ci, *k, t) == Tri::T;
                    let was_on = old.c[ci].mask.contains(k) && self.changed_at(&old, ci, *k, t) == Tri::T;
                    if now_on && !was_on {
                        resp = Some(*k);
                        break;
                    }
                }
                let last = self.snaps.last_mut().unwrap();
                last.c[ci].via = via;
                last.c[ci].via_status = resp;
            }
        }
    }
}

#[derive(Clone, Debug)]
struct P {
    deadline: bool,
    incompat: bool,
    n_ops: u32,
    n_waiters: u32,
    waiter_conds: Vec<Vec<usize>>,
    waiter_timeout_ms: Vec<i64>,
    policy: Policy,
    clock_tick: i64,
    jitter: i64,
    op_seed: u64,
    /// indices of the operations that are raced-reset episodes (empty: none in this case)
    race_at: Vec<u32>,
    /// index into RACE_TARGETS
    race_target: usize,
}

fn gen_params(rng: &mut Rng, thorough: bool) -> P {
    let n_waiters = 1 + rng.below(3) as u32;
    let mut waiter_conds = Vec::new();
    let mut waiter_timeout_ms = Vec::new();
    for _ in 0..n_waiters {
        let mut v: Vec<usize> = (0..N_COND).filter(|_| rng.chance(0.55)).collect();
        if v.is_empty() {
            v.push(rng.usize(N_COND));
        }
        rng.shuffle(&mut v);
        waiter_conds.push(v);
        waiter_timeout_ms.push(*rng.pick(&[1500i64, 2500, 4000]));
    }
    let mut p = P {
        deadline: rng.chance(0.3),
        incompat: rng.chance(0.3),
        n_ops: 8 + rng.below(if thorough { 20 } else { 10 }) as u32,
        n_waiters,
        waiter_conds,
        waiter_timeout_ms,
        policy: pick_policy(rng),
        clock_tick: *rng.pick(&[0i64, 0, 1, 1000]),
        jitter: *rng.pick(&[0i64, 0, 1000, 1_000_000]),
        op_seed: rng.next_u64(),
        race_at: Vec::new(),
        race_target: 0,
    };
    if rng.chance(0.5) {
        p.race_target = rng.usize(RACE_TARGETS.len());
        let first = 1 + rng.below(p.n_ops as u64 / 2) as u32;
        p.race_at.push(first);
        let second = first + 2 + rng.below(4) as u32;
        if rng.bool() && second < p.n_ops {
            p.race_at.push(second);
        }
        // one more waiter, on the targeted condition (sometimes together with another one), with a
        // scenario timeout long enough to span an episode
        let ci = RACE_TARGETS[p.race_target].0;
        let mut v = vec![ci];
        if rng.chance(0.25) {
            v.push((ci + 1 + rng.usize(N_COND - 1)) % N_COND);
            rng.shuffle(&mut v);
        }
        p.waiter_conds.push(v);
        p.waiter_timeout_ms.push(6000);
        p.n_waiters += 1;
    }
    p
}

impl P {
    fn to_json(&self) -> Json {
        Json::obj()
            .set("deadline_700ms", self.deadline)
            .set("incompatible_endpoints", self.incompat)
            .set("ops", self.n_ops)
            .set("waiters", self.n_waiters)
            .set(
                "waiter_conditions",
                self.waiter_conds.iter().map(|v| v.iter().map(|c| COND_NAME[*c].to_string()).collect::<Vec<_>>().join("+")).collect::<Vec<_>>(),
            )
            .set("waiter_timeouts_ms", self.waiter_timeout_ms.clone())
            .set("policy", format!("{:?}", self.policy))
            .set("clock_tick_ns", self.clock_tick)
            .set("sleep_jitter_ns", self.jitter)
            .set("raced_reset_episodes_at_op", self.race_at.clone())
            .set("raced_reset_status", if self.race_at.is_empty() { "-" } else { kind_name(RACE_TARGETS[self.race_target].1) })
    }
}

#[derive(Clone, Debug)]
struct WaitRec {
    waiter: usize,
    t0: i64,
    t1: i64,
    /// None: our timeout fired while wait() was still pending
    returned: Option<Vec<usize>>,
}

/// One raced-reset episode: the waiters' gate was closed during [t_close, t_open]; in between the
/// status changed and (if `reset_done`) was read by the main actor.
#[derive(Clone, Debug)]
struct Race {
    ci: usize,
    status: StatusKind,
    t_close: i64,
    t_open: i64,
    reset_done: bool,
}

#[derive(Clone, Debug)]
struct Finding {
    sig: String,
    what: String,
}

struct Out {
    matched: bool,
    api_error: Option<String>,
    model: Model,
    waits: Vec<WaitRec>,
    findings: Vec<Finding>,
    ops: Vec<String>,
    quiescent_checks: u32,
    quiescent_skipped: u32,
    enable_while_blocked: u32,
    races: Vec<Race>,
}

fn mask_with_marker(ci: usize, m: &[StatusKind]) -> Vec<StatusKind> {
    let mut v = m.to_vec();
    v.push(MARKER[ci]);
    v
}

async fn scenario(w: World, p: P) -> Out {
    let sim = w.sim.clone();
    let mut rng = Rng::new(p.op_seed);
    let lag = 50 * MS + 2 * p.jitter + MS;
    let empty = CondM { mask: vec![], mask_unknown: true, changed: vec![], via: "event", via_status: None };
    let mut out = Out {
        matched: false,
        api_error: None,
        model: Model {
            snaps: vec![Snap { t: sim.now(), c: [empty.clone(), empty.clone(), empty] }],
            dl: Dl { enabled: p.deadline, d: DEADLINE_MS * MS, lag, ..Default::default() },
        },
        waits: Vec::new(),
        findings: Vec::new(),
        ops: Vec::new(),
        quiescent_checks: 0,
        quiescent_skipped: 0,
        enable_while_blocked: 0,
        races: Vec::new(),
    };
    macro_rules! api {
        ($e:expr, $what:expr) => {
            match sim.timeout(10 * SEC, $e).await {
                Ok(Ok(v)) => v,
                Ok(Err(e)) => {
                    out.api_error = Some(format!("{}: {}", $what, err_name(&e)));
                    return out;
                }
                Err(_) => {
                    out.api_error = Some(format!("{}: no reply within 10 s", $what));
                    return out;
                }
            }
        };
    }
    let dl = if p.deadline { finite_ms(DEADLINE_MS) } else { DurationKind::Infinite };
    let dp_a = new_participant(&w, 0).await;
    let topic_a = new_topic::<Msg>(&dp_a, "Conditions", "Msg").await;
    let pb = new_publisher(&dp_a).await;
    let wq = DataWriterQos { reliability: reliable(1000), deadline: DeadlineQosPolicy { period: dl }, ..Default::default() };
    let dw = new_writer::<Msg>(&pb, &topic_a, wq.clone()).await;
    let dp_b = new_participant(&w, 0).await;
    let topic_b = new_topic::<Msg>(&dp_b, "Conditions", "Msg").await;
    let sb = new_subscriber(&dp_b).await;
    let sbx = new_subscriber(&dp_b).await;
    let rq = DataReaderQos { reliability: reliable(1000), history: keep_all(), deadline: DeadlineQosPolicy { period: dl }, ..Default::default() };
    let dr = new_reader::<Msg>(&sb, &topic_b, rq).await;
    let conds: [StatusConditionAsync; N_COND] = [dw.get_statuscondition(), dr.get_statuscondition(), sb.get_statuscondition()];
    // initial masks (always explicit, always with the condition's marker)
    let mut init_masks: Vec<Vec<StatusKind>> = Vec::new();
    for ci in 0..N_COND {
        let m: Vec<StatusKind> = relevant(ci).iter().filter(|_| rng.chance(0.6)).cloned().collect();
        api!(conds[ci].set_enabled_statuses(&mask_with_marker(ci, &m)), "set_enabled_statuses");
        init_masks.push(m);
    }
    out.matched = wait_matched(&sim, &dw, 1, 20 * SEC).await && wait_reader_matched(&sim, &dr, 1, 20 * SEC).await;
    if !out.matched {
        return out;
    }
    sim.sleep(300 * MS).await;
    {
        let t = sim.now();
        out.model.update(t, "event", |s| {
            for ci in 0..N_COND {
                s.c[ci].mask = init_masks[ci].clone();
                s.c[ci].mask_unknown = false;
            }
            s.c[0].set(StatusKind::PublicationMatched, Tri::T);
            s.c[1].set(StatusKind::SubscriptionMatched, Tri::T);
        });
    }

    // ---- waiters
    let waits: Rc<RefCell<Vec<WaitRec>>> = Rc::new(RefCell::new(Vec::new()));
    let waiter_err: Rc<RefCell<Option<String>>> = Rc::new(RefCell::new(None));
    let stop = Rc::new(RefCell::new(false));
    let gate = Rc::new(Gate { closed: Cell::new(false), wakers: RefCell::new(Vec::new()) });
    let mut joins = Vec::new();
    for wi in 0..p.n_waiters as usize {
        let mut ws = WaitSetAsync::new();
        for ci in &p.waiter_conds[wi] {
            let _ = ws.attach_condition(ConditionAsync::StatusCondition(conds[*ci].clone())).await;
        }
        let (sim2, waits2, stop2, err2) = (sim.clone(), waits.clone(), stop.clone(), waiter_err.clone());
        let gate2 = gate.clone();
        let tmo = p.waiter_timeout_ms[wi] * MS;
        let mut wrng = Rng::new(p.op_seed ^ (0x77aa + wi as u64 * 131));
        joins.push(sim.spawn_local(async move {
            loop {
                if *stop2.borrow() {
                    break;
                }
                let t0 = sim2.now();
                let r = sim2.timeout(tmo, Gated { fut: Box::pin(ws.wait()), gate: gate2.clone() }).await;
                let t1 = sim2.now();
                match r {
                    Ok(Ok(list)) => {
                        let mut ids = Vec::new();
                        for c in list {
                            let ConditionAsync::StatusCondition(sc) = c;
                            match sim2.timeout(10 * SEC, sc.get_enabled_statuses()).await {
                                Ok(Ok(m)) => {
                                    let m: Vec<StatusKind> = m.into_iter().collect();
                                    if let Some(ci) = (0..N_COND).find(|ci| m.contains(&MARKER[*ci])) {
                                        ids.push(ci);
                                    }
                                }
                                _ => {
                                    *err2.borrow_mut() = Some("get_enabled_statuses failed in waiter".into());
                                    return;
                                }
                            }
                        }
                        waits2.borrow_mut().push(WaitRec { waiter: wi, t0, t1, returned: Some(ids) });
                    }
                    Ok(Err(e)) => {
                        *err2.borrow_mut() = Some(format!("wait(): {}", err_name(&e)));
                        return;
                    }
                    Err(_) => waits2.borrow_mut().push(WaitRec { waiter: wi, t0, t1, returned: None }),
                }
                let pause = if t1 - t0 < MS { 150 + wrng.below(700) as i64 } else { wrng.below(300) as i64 };
                sim2.sleep(pause * MS + 1).await;
            }
        }));
    }

    // ---- main: operations
    let mut seq = 0u32;
    let mut extra_entities: Vec<Box<dyn std::any::Any>> = Vec::new();
    let mut n_match_readers = 1i32;
    let mut n_match_writers = 1i32;
    let mut has_bad_reader = false;
    let mut has_bad_writer = false;
    let mut rrng = Rng::new(p.op_seed ^ 0x5ace_d0e5);
    // the pieces of a raced-reset episode (same model updates as the ordinary operations below)
    macro_rules! race_change {
        ($st:expr) => {{
            let t0 = sim.now();
            match $st {
                StatusKind::PublicationMatched => {
                    out.model.update(t0, "event", |s| {
                        if s.c[0].get(StatusKind::PublicationMatched) != Tri::T {
                            s.c[0].set(StatusKind::PublicationMatched, Tri::U);
                        }
                    });
                    let q = DataReaderQos { reliability: reliable(1000), ..Default::default() };
                    let r = new_reader::<Msg>(&sbx, &topic_b, q).await;
                    n_match_readers += 1;
                    extra_entities.push(Box::new(r));
                }
                StatusKind::SubscriptionMatched => {
                    out.model.update(t0, "event", |s| {
                        if s.c[1].get(StatusKind::SubscriptionMatched) != Tri::T {
                            s.c[1].set(StatusKind::SubscriptionMatched, Tri::U);
                        }
                    });
                    let x = new_writer::<Msg>(&pb, &topic_a, wq.clone()).await;
                    n_match_writers += 1;
                    extra_entities.push(Box::new(x));
                }
                _ => {
                    out.model.update(t0, "event", |s| {
                        if s.c[1].get(StatusKind::DataAvailable) != Tri::T {
                            s.c[1].set(StatusKind::DataAvailable, Tri::U);
                        }
                        if s.c[2].get(StatusKind::DataOnReaders) != Tri::T {
                            s.c[2].set(StatusKind::DataOnReaders, Tri::U);
                        }
                    });
                    api!(dw.write(msg(0, 0, seq, 16), None), "write");
                    seq += 1;
                    let t1 = sim.now();
                    if p.deadline {
                        out.model.dl.w_writes.push((t0, t1));
                        out.model.dl.r_writes.push((t0, t1 + 55 * MS + 2 * p.jitter));
                    }
                }
            }
        }};
    }
    // the change has certainly happened (and nobody read the status): the model says "changed"
    macro_rules! race_settle {
        ($st:expr) => {{
            match $st {
                StatusKind::PublicationMatched => {
                    if !wait_matched(&sim, &dw, n_match_readers, 20 * SEC).await {
                        out.api_error = Some("additional reader did not match within 20 s".into());
                        return out;
                    }
                    sim.sleep(200 * MS).await;
                    let t = sim.now();
                    out.model.update(t, "event", |s| s.c[0].set(StatusKind::PublicationMatched, Tri::T));
                }
                StatusKind::SubscriptionMatched => {
                    if !wait_reader_matched(&sim, &dr, n_match_writers, 20 * SEC).await {
                        out.api_error = Some("additional writer did not match within 20 s".into());
                        return out;
                    }
                    sim.sleep(200 * MS).await;
                    let t = sim.now();
                    out.model.update(t, "event", |s| s.c[1].set(StatusKind::SubscriptionMatched, Tri::T));
                }
                _ => {
                    sim.sleep(200 * MS).await;
                    let t = sim.now();
                    out.model.update(t, "event", |s| {
                        s.c[1].set(StatusKind::DataAvailable, Tri::T);
                        s.c[2].set(StatusKind::DataOnReaders, Tri::T);
                    });
                }
            }
        }};
    }
    // the main actor reads the status (which resets it)
    macro_rules! race_reset {
        ($st:expr) => {{
            let t0 = sim.now();
            match $st {
                StatusKind::PublicationMatched => {
                    out.model.update(t0, "event", |s| s.c[0].set(StatusKind::PublicationMatched, Tri::U));
                    api!(dw.get_publication_matched_status(), "get_publication_matched_status");
                    let t = sim.now();
                    out.model.update(t, "event", |s| s.c[0].set(StatusKind::PublicationMatched, Tri::F));
                }
                StatusKind::SubscriptionMatched => {
                    out.model.update(t0, "event", |s| s.c[1].set(StatusKind::SubscriptionMatched, Tri::U));
                    api!(dr.get_subscription_matched_status(), "get_subscription_matched_status");
                    let t = sim.now();
                    out.model.update(t, "event", |s| s.c[1].set(StatusKind::SubscriptionMatched, Tri::F));
                }
                _ => {
                    out.model.update(t0, "event", |s| {
                        s.c[1].set(StatusKind::DataAvailable, Tri::U);
                        s.c[2].set(StatusKind::DataOnReaders, Tri::U);
                    });
                    let r = if rrng.bool() {
                        sim.timeout(10 * SEC, dr.take(i32::MAX, ANY_SAMPLE_STATE, ANY_VIEW_STATE, ANY_INSTANCE_STATE)).await
                    } else {
                        sim.timeout(10 * SEC, dr.read(i32::MAX, ANY_SAMPLE_STATE, ANY_VIEW_STATE, ANY_INSTANCE_STATE)).await
                    };
                    if r.is_err() {
                        out.api_error = Some("take/read: no reply".into());
                        return out;
                    }
                    let t = sim.now();
                    out.model.update(t, "event", |s| {
                        s.c[1].set(StatusKind::DataAvailable, Tri::F);
                        s.c[2].set(StatusKind::DataOnReaders, Tri::F);
                    });
                }
            }
        }};
    }
    for op_i in 0..p.n_ops {
        // weighted choice of the next operation
        let weights: [(u64, u64); 12] = [
            (0, 3), (1, 0), (2, 4), (3, 3), (4, 3), (5, 1), (6, 1),
            (7, if p.incompat { 1 } else { 0 }), (8, if p.incompat { 1 } else { 0 }),
            (9, 8), (10, 0), (11, if p.deadline { 2 } else { 0 }),
        ];
        let total: u64 = weights.iter().map(|w| w.1).sum();
        let mut x = rng.below(total);
        let mut kind = 0;
        for (k, wgt) in weights {
            if x < wgt {
                kind = k;
                break;
            }
            x -= wgt;
        }
        if p.race_at.contains(&op_i) {
            kind = 12;
        }
        let mut long_idle = false;
        match kind {
            0 | 1 => {
                // data
                out.ops.push("write".into());
                let t0 = sim.now();
                out.model.update(t0, "event", |s| {
                    if s.c[1].get(StatusKind::DataAvailable) != Tri::T {
                        s.c[1].set(StatusKind::DataAvailable, Tri::U);
                    }
                    if s.c[2].get(StatusKind::DataOnReaders) != Tri::T {
                        s.c[2].set(StatusKind::DataOnReaders, Tri::U);
                    }
                });
                api!(dw.write(msg(0, 0, seq, 16), None), "write");
                seq += 1;
                let t1 = sim.now();
                if p.deadline {
                    out.model.dl.w_writes.push((t0, t1));
                    out.model.dl.r_writes.push((t0, t1 + 55 * MS + 2 * p.jitter));
                }
                sim.sleep(200 * MS).await;
                let t = sim.now();
                out.model.update(t, "event", |s| {
                    s.c[1].set(StatusKind::DataAvailable, Tri::T);
                    s.c[2].set(StatusKind::DataOnReaders, Tri::T);
                });
            }
            2 => {
                // take / read everything
                let take = rng.bool();
                out.ops.push(if take { "take" } else { "read" }.into());
                let t0 = sim.now();
                out.model.update(t0, "event", |s| {
                    s.c[1].set(StatusKind::DataAvailable, Tri::U);
                    s.c[2].set(StatusKind::DataOnReaders, Tri::U);
                });
                let r = if take {
                    sim.timeout(10 * SEC, dr.take(i32::MAX, ANY_SAMPLE_STATE, ANY_VIEW_STATE, ANY_INSTANCE_STATE)).await
                } else {
                    sim.timeout(10 * SEC, dr.read(i32::MAX, ANY_SAMPLE_STATE, ANY_VIEW_STATE, ANY_INSTANCE_STATE)).await
                };
                if r.is_err() {
                    out.api_error = Some("take/read: no reply".into());
                    return out;
                }
                let t = sim.now();
                out.model.update(t, "event", |s| {
                    s.c[1].set(StatusKind::DataAvailable, Tri::F);
                    // the only reader of this subscriber has just been read/taken
                    s.c[2].set(StatusKind::DataOnReaders, Tri::F);
                });
            }
            3 => {
                out.ops.push("get_publication_matched_status".into());
                let t0 = sim.now();
                out.model.update(t0, "event", |s| s.c[0].set(StatusKind::PublicationMatched, Tri::U));
                api!(dw.get_publication_matched_status(), "get_publication_matched_status");
                let t = sim.now();
                out.model.update(t, "event", |s| s.c[0].set(StatusKind::PublicationMatched, Tri::F));
            }
            4 => {
                out.ops.push("get_subscription_matched_status".into());
                let t0 = sim.now();
                out.model.update(t0, "event", |s| s.c[1].set(StatusKind::SubscriptionMatched, Tri::U));
                api!(dr.get_subscription_matched_status(), "get_subscription_matched_status");
                let t = sim.now();
                out.model.update(t, "event", |s| s.c[1].set(StatusKind::SubscriptionMatched, Tri::F));
            }
            5 => {
                // a further matching reader (under another subscriber): PUBLICATION_MATCHED on the writer
                if n_match_readers >= 4 {
                    continue;
                }
                out.ops.push("create matching reader".into());
                let t0 = sim.now();
                out.model.update(t0, "event", |s| {
                    if s.c[0].get(StatusKind::PublicationMatched) != Tri::T {
                        s.c[0].set(StatusKind::PublicationMatched, Tri::U);
                    }
                });
                let q = DataReaderQos { reliability: reliable(1000), ..Default::default() };
                let r = new_reader::<Msg>(&sbx, &topic_b, q).await;
                n_match_readers += 1;
                if !wait_matched(&sim, &dw, n_match_readers, 20 * SEC).await {
                    out.api_error = Some("additional reader did not match within 20 s".into());
                    return out;
                }
                extra_entities.push(Box::new(r));
                sim.sleep(200 * MS).await;
                let t = sim.now();
                out.model.update(t, "event", |s| s.c[0].set(StatusKind::PublicationMatched, Tri::T));
            }
            6 => {
                // a further matching writer: SUBSCRIPTION_MATCHED on the reader
                if n_match_writers >= 4 {
                    continue;
                }
                out.ops.push("create matching writer".into());
                let t0 = sim.now();
                out.model.update(t0, "event", |s| {
                    if s.c[1].get(StatusKind::SubscriptionMatched) != Tri::T {
                        s.c[1].set(StatusKind::SubscriptionMatched, Tri::U);
                    }
                });
                let x = new_writer::<Msg>(&pb, &topic_a, wq.clone()).await;
                n_match_writers += 1;
                if !wait_reader_matched(&sim, &dr, n_match_writers, 20 * SEC).await {
                    out.api_error = Some("additional writer did not match within 20 s".into());
                    return out;
                }
                extra_entities.push(Box::new(x));
                sim.sleep(200 * MS).await;
                let t = sim.now();
                out.model.update(t, "event", |s| s.c[1].set(StatusKind::SubscriptionMatched, Tri::T));
            }
            7 => {
                // incompatible reader (requests TRANSIENT_LOCAL from VOLATILE writers): OFFERED_INCOMPATIBLE_QOS
                if has_bad_reader {
                    continue;
                }
                has_bad_reader = true;
                out.ops.push("create incompatible reader".into());
                let t0 = sim.now();
                out.model.update(t0, "event", |s| s.c[0].set(StatusKind::OfferedIncompatibleQos, Tri::U));
                let q = DataReaderQos {
                    reliability: reliable(1000),
                    durability: DurabilityQosPolicy { kind: DurabilityQosPolicyKind::TransientLocal },
                    ..Default::default()
                };
                let r = new_reader::<Msg>(&sbx, &topic_b, q).await;
                extra_entities.push(Box::new(r));
                sim.sleep(SEC).await;
                let t = sim.now();
                out.model.update(t, "event", |s| s.c[0].set(StatusKind::OfferedIncompatibleQos, Tri::T));
            }
            8 => {
                // incompatible writer (BEST_EFFORT offered to RELIABLE readers): REQUESTED_INCOMPATIBLE_QOS
                if has_bad_writer {
                    continue;
                }
                has_bad_writer = true;
                out.ops.push("create incompatible writer".into());
                let t0 = sim.now();
                out.model.update(t0, "event", |s| s.c[1].set(StatusKind::RequestedIncompatibleQos, Tri::U));
                let q = DataWriterQos { reliability: best_effort(), deadline: DeadlineQosPolicy { period: dl }, ..Default::default() };
                let x = new_writer::<Msg>(&pb, &topic_a, q).await;
                extra_entities.push(Box::new(x));
                sim.sleep(SEC).await;
                let t = sim.now();
                out.model.update(t, "event", |s| s.c[1].set(StatusKind::RequestedIncompatibleQos, Tri::T));
            }
            9 | 10 => {
                // set_enabled_statuses
                let ci = rng.usize(N_COND);
                let cur = out.model.cur();
                let t_now = sim.now();
                let changed: Vec<StatusKind> = relevant(ci).iter().filter(|s| out.model.changed_at(&cur, ci, **s, t_now) == Tri::T).cloned().collect();
                let mode = rng.below(10);
                let m: Vec<StatusKind> = if mode < 4 {
                    // quiet: only statuses that have not changed (blocks the waiters)
                    relevant(ci).iter().filter(|s| !changed.contains(s) && rng.chance(0.7)).cloned().collect()
                } else if mode < 8 {
                    // enable ONE status that has already changed (keep the rest of the mask)
                    let mut m = cur.c[ci].mask.clone();
                    let cand: Vec<StatusKind> = changed.iter().filter(|s| !m.contains(s)).cloned().collect();
                    if !cand.is_empty() {
                        m.push(*rng.pick(&cand));
                    }
                    m
                } else {
                    relevant(ci).iter().filter(|_| rng.chance(0.4)).cloned().collect()
                };
                out.ops.push(format!("set_enabled_statuses({}, {:?})", COND_NAME[ci], m.iter().map(|k| kind_name(*k)).collect::<Vec<_>>()));
                let t0 = sim.now();
                let before = out.model.trigger_at(ci, t0).0;
                out.model.update(t0, "enable", |s| s.c[ci].mask_unknown = true);
                api!(conds[ci].set_enabled_statuses(&mask_with_marker(ci, &m)), "set_enabled_statuses");
                let t = sim.now();
                out.model.update(t, "enable", |s| {
                    s.c[ci].mask = m.clone();
                    s.c[ci].mask_unknown = false;
                });
                if before == Tri::F && out.model.trigger_at(ci, t).0 == Tri::T {
                    // the aim point: give blocked waiters more than H_w to notice
                    out.enable_while_blocked += 1;
                    long_idle = true;
                }
            }
            12 => {
                // ---- raced reset: change, read by ANOTHER task before the notified waiters run, change again
                let (ci, st) = RACE_TARGETS[p.race_target];
                out.ops.push(format!("raced_reset({})", kind_name(st)));
                // (a) only `st` enabled on the condition and the status read: trigger value false, waiters block
                let t0 = sim.now();
                out.model.update(t0, "enable", |s| s.c[ci].mask_unknown = true);
                api!(conds[ci].set_enabled_statuses(&mask_with_marker(ci, &[st])), "set_enabled_statuses");
                let t = sim.now();
                out.model.update(t, "enable", |s| {
                    s.c[ci].mask = vec![st];
                    s.c[ci].mask_unknown = false;
                });
                race_reset!(st);
                sim.sleep((900 + rrng.below(300) as i64) * MS + 1).await;
                // (b) the waiters are not scheduled from now on; first change; as soon as it shows, read the status
                let t_close = sim.now();
                gate.close();
                race_change!(st);
                let mut seen = false;
                let t_poll = sim.now();
                loop {
                    if api!(conds[ci].get_trigger_value(), "get_trigger_value") {
                        seen = true;
                        break;
                    }
                    if sim.now() - t_poll > 2 * SEC {
                        break;
                    }
                    sim.sleep(2 * MS).await;
                }
                if seen {
                    race_reset!(st);
                } else {
                    // (never observed; judged like an ordinary change by the checks below)
                    race_settle!(st);
                }
                let t_open = sim.now();
                gate.open();
                out.races.push(Race { ci, status: st, t_close, t_open, reset_done: seen });
                // (c) the waiters run (their pending wait may return an empty list); second change, nobody reads it
                sim.sleep(rrng.below(400) as i64 * MS + 1).await;
                race_change!(st);
                race_settle!(st);
                long_idle = true;
            }
            _ => {
                out.ops.push("get_offered_deadline_missed_status".into());
                let t0 = sim.now();
                api!(dw.get_offered_deadline_missed_status(), "get_offered_deadline_missed_status");
                let t1 = sim.now();
                out.model.dl.odm_reads.push((t0, t1));
            }
        }
        let extra = if long_idle { 1400 } else { rng.below(700) as i64 };
        sim.sleep(extra * MS + 1).await;

        // ---- (1) trigger values at a quiescent point
        for ci in 0..N_COND {
            let t = sim.now();
            let (exp, st, _) = out.model.trigger_at(ci, t);
            if exp == Tri::U {
                out.quiescent_skipped += 1;
                continue;
            }
            // also require the model to be stable around the check (deadline boundaries)
            if out.model.trigger_at(ci, t - 5 * MS).0 != exp {
                out.quiescent_skipped += 1;
                continue;
            }
            let got = api!(conds[ci].get_trigger_value(), "get_trigger_value");
            out.quiescent_checks += 1;
            if got != (exp == Tri::T) {
                // find the responsible status by enabling the candidates one at a time
                let cur = out.model.cur();
                let mask = cur.c[ci].mask.clone();
                let t0 = sim.now();
                out.model.update(t0, "enable", |s| s.c[ci].mask_unknown = true);
                let mut culprit: Option<StatusKind> = None;
                for s in &mask {
                    api!(conds[ci].set_enabled_statuses(&mask_with_marker(ci, &[*s])), "set_enabled_statuses");
                    let one = api!(conds[ci].get_trigger_value(), "get_trigger_value");
                    let t = sim.now();
                    let m1 = out.model.changed_at(&cur, ci, *s, t);
                    if (m1 == Tri::T && !one) || (m1 == Tri::F && one) {
                        culprit = Some(*s);
                        break;
                    }
                }
                api!(conds[ci].set_enabled_statuses(&mask_with_marker(ci, &mask)), "set_enabled_statuses");
                let t1 = sim.now();
                out.model.update(t1, "enable", |s| s.c[ci].mask_unknown = false);
                let status = culprit.or(st).map(kind_name).unwrap_or("unknown");
                out.findings.push(Finding {
                    sig: format!("wrong_trigger_value|status={}|expected={}", status, if exp == Tri::T { "t" } else { "f" }),
                    what: format!(
                        "{} StatusCondition (enabled {:?}): get_trigger_value() = {} at +{} ms, but status {} {} (history: {})",
                        COND_NAME[ci],
                        mask.iter().map(|k| kind_name(*k)).collect::<Vec<_>>(),
                        got,
                        (t - EPOCH_NS) / MS,
                        status,
                        if exp == Tri::T { "has changed and was not read since" } else { "has not changed since it was last read" },
                        out.ops.iter().rev().take(6).rev().cloned().collect::<Vec<_>>().join(" ; ")
                    ),
                });
                // the implementation now disagrees with the model: resynchronise the model so that
                // one defect is not reported again as a consequence
                if let Some(c) = culprit {
                    if !(ci == 0 && c == StatusKind::OfferedDeadlineMissed) && !(ci == 1 && c == StatusKind::RequestedDeadlineMissed) {
                        // (unknown until the next operation that definitely sets or resets it)
                        let t2 = sim.now();
                        out.model.update(t2, "event", |s| s.c[ci].set(c, Tri::U));
                    }
                }
            }
        }
    }
    // let blocked waiters run into their timeouts, then stop them
    sim.sleep(1200 * MS).await;
    *stop.borrow_mut() = true;
    for j in joins {
        j.await;
    }
    if let Some(e) = waiter_err.borrow().clone() {
        out.api_error = Some(e);
    }
    out.waits = waits.borrow().clone();
    drop(extra_entities);
    out
}

fn evaluate(rep: &mut Report, p: &P, o: &Out, replay: &Json, poll_hash: u64, case: u64) {
    let mut fired: Vec<String> = Vec::new();
    let mut fire = |rep: &mut Report, sig: String, what: String| {
        if !fired.contains(&sig) {
            fired.push(sig.clone());
            rep.violation(sig, what, replay.clone());
        }
    };
    for f in &o.findings {
        fire(rep, f.sig.clone(), f.what.clone());
    }
    let step = 5 * MS;
    let mut completed = 0;
    let mut timed_out = 0;
    let mut immediate = 0;
    for wr in &o.waits {
        let attached = &p.waiter_conds[wr.waiter];
        match &wr.returned {
            Some(_) => {
                completed += 1;
                if wr.t1 - wr.t0 < MS {
                    immediate += 1;
                }
            }
            None => timed_out += 1,
        }
        // (2) pending although an attached condition was true for H_w
        for ci in attached {
            let mut run_start: Option<(i64, Option<StatusKind>, &'static str)> = None;
            let mut t = wr.t0;
            while t < wr.t1 - MS {
                if o.races.iter().any(|e| e.t_close <= t && t <= e.t_open) {
                    // the waiter was deliberately not scheduled
                    run_start = None;
                    t += step;
                    continue;
                }
                let (v, st, via) = o.model.trigger_at(*ci, t);
                if v == Tri::T {
                    if run_start.is_none() {
                        run_start = Some((t, st, via));
                    }
                    let (s0, st0, via0) = run_start.unwrap();
                    if t - s0 >= H_W && via0 == "ambiguous" {
                        rep.stat("blocked_waits_not_judged(cause_of_true_condition_ambiguous)", 1);
                        break;
                    }
                    if t - s0 >= H_W {
                        let status = st0.map(kind_name).unwrap_or("unknown");
                        let mut via0 = via0;
                        // this very wait() was pending when that status changed and was read by another task
                        // (a read/take resets DATA_AVAILABLE and DATA_ON_READERS alike)
                        let raced = |e: &Race| {
                            let data = |k: StatusKind| k == StatusKind::DataAvailable || k == StatusKind::DataOnReaders;
                            match st0 {
                                Some(k) if data(e.status) => (*ci == 1 && k == StatusKind::DataAvailable) || (*ci == 2 && k == StatusKind::DataOnReaders),
                                Some(k) => *ci == e.ci && k == e.status,
                                None => false,
                            }
                        };
                        if via0 == "event" && o.races.iter().any(|e| e.reset_done && wr.t0 < e.t_close && e.t_open <= s0 && raced(e)) {
                            via0 = "change_after_raced_reset";
                        }
                        fire(
                            rep,
                            format!("missed_wake|via={}|status={}", via0, status),
                            format!(
                                "waiter {} blocked in wait() from +{} ms to +{} ms ({}) although its attached {} condition was true from +{} ms on ({} through {}{}): more than H_w = 1 s",
                                wr.waiter,
                                (wr.t0 - EPOCH_NS) / MS,
                                (wr.t1 - EPOCH_NS) / MS,
                                if wr.returned.is_some() { "then returned" } else { "still pending when the scenario's own timeout fired" },
                                COND_NAME[*ci],
                                (s0 - EPOCH_NS) / MS,
                                if via0 == "enable" { "set_enabled_statuses enabling an already changed status" } else { "a status change" },
                                status,
                                if via0 == "change_after_raced_reset" {
                                    "; this wait() had earlier been notified of a change of that status which another task read before the waiter ran, so it found nothing triggered"
                                } else {
                                    ""
                                }
                            ),
                        );
                        break;
                    }
                } else {
                    run_start = None;
                }
                t += step;
            }
        }
        // (3) result must contain every attached condition that is (and has been) true
        if let Some(list) = &wr.returned {
            for ci in attached {
                if list.contains(ci) {
                    continue;
                }
                let mut all_true = true;
                let mut t = wr.t1 - 100 * MS;
                while t <= wr.t1 + MS {
                    if o.model.trigger_at(*ci, t).0 != Tri::T {
                        all_true = false;
                        break;
                    }
                    t += step;
                }
                if all_true && o.model.trigger_at(*ci, wr.t1 + MS).0 == Tri::T {
                    fire(
                        rep,
                        "incomplete_result".to_string(),
                        format!(
                            "wait() of waiter {} returned at +{} ms with conditions {:?} but without the attached {} condition whose trigger value had been true for more than 100 ms",
                            wr.waiter,
                            (wr.t1 - EPOCH_NS) / MS,
                            list.iter().map(|c| COND_NAME[*c]).collect::<Vec<_>>(),
                            COND_NAME[*ci]
                        ),
                    );
                }
            }
        }
    }
    for e in &o.races {
        rep.stat("raced_reset_episodes", 1);
        if !e.reset_done {
            rep.stat("raced_reset_episodes_change_never_seen", 1);
            continue;
        }
        rep.stat(&format!("raced_reset_{}", kind_name(e.status)), 1);
        let mut any = false;
        for wr in &o.waits {
            if !p.waiter_conds[wr.waiter].contains(&e.ci) || wr.t0 >= e.t_close || wr.t1 < e.t_open {
                continue;
            }
            any = true;
            rep.stat("waits_pending_across_raced_reset", 1);
            match &wr.returned {
                Some(l) if wr.t1 - e.t_open < MS && l.is_empty() => rep.stat("waits_returned_empty_list_after_raced_reset", 1),
                Some(_) if wr.t1 - e.t_open < MS => rep.stat("waits_returned_other_conditions_after_raced_reset", 1),
                _ => rep.stat("waits_still_pending_after_raced_reset", 1),
            }
        }
        if any {
            rep.stat("raced_reset_episodes_with_pending_wait", 1);
        }
    }
    rep.stat("waits_completed", completed);
    rep.stat("waits_returned_immediately", immediate);
    rep.stat("waits_still_pending_at_scenario_timeout", timed_out);
    rep.stat("quiescent_trigger_value_checks", o.quiescent_checks as i128);
    rep.stat("quiescent_checks_skipped_model_uncertain", o.quiescent_skipped as i128);
    rep.stat("enable_made_condition_true", o.enable_while_blocked as i128);
    for op in &o.ops {
        let k = op.split('(').next().unwrap_or("");
        rep.stat(&format!("op_{k}"), 1);
    }
    if completed + timed_out > 0 {
        rep.nontrivial(vcore::mix(poll_hash, vcore::fnv_str(&p.to_json().to_string())));
    }
    if case < 64 {
        rep.sample(
            Json::obj()
                .set("case", case)
                .set("params", p.to_json())
                .set("ops", o.ops.clone())
                .set("waits", o.waits.len())
                .set("violations", fired.clone()),
        );
    }
}

pub fn run(shard: &Shard) -> Report {
    let mut rep = Report::new("C32");
    let thorough = shard.tier == "thorough";
    let trace = shard.args.has("trace");
    for case in shard.my_cases() {
        let cs = shard.case_seed(case);
        let mut rng = Rng::new(cs);
        let p = gen_params(&mut rng, thorough);
        if trace {
            eprintln!("case {case}: {}", p.to_json().to_string());
        }
        let mut cfg = WorldConfig::default();
        cfg.sim.seed = cs;
        cfg.sim.policy = p.policy;
        cfg.sim.clock_tick = p.clock_tick;
        cfg.sim.jitter_max = p.jitter;
        cfg.sim.max_polls = shard.args.u64("max-polls", 3_000_000);
        let p2 = p.clone();
        let (res, stats, _net) = run_world(&cfg, move |w| scenario(w, p2));
        rep.eval();
        let replay = shard.base_replay("c32", case).set("engine", "scen_stat").set("params", p.to_json());
        let panicked = report_panics(&mut rep, &stats, &replay);
        let Some(o) = res else {
            if !panicked {
                rep.inconclusive(format!("case {case}: scenario did not finish ({:?})", stats.stop));
            }
            continue;
        };
        if !o.matched {
            if !panicked {
                rep.inconclusive(format!("case {case}: endpoints did not match within 20 s"));
            }
            continue;
        }
        if let Some(e) = &o.api_error {
            if !panicked {
                rep.inconclusive(format!("case {case}: {e}"));
            }
            continue;
        }
        if trace {
            for op in &o.ops {
                eprintln!("  op {op}");
            }
            for s in &o.model.snaps {
                eprintln!(
                    "  model +{} ms: {}",
                    (s.t - EPOCH_NS) / MS,
                    (0..N_COND)
                        .map(|ci| format!(
                            "{}[mask={:?}{} changed={:?}]",
                            COND_NAME[ci],
                            s.c[ci].mask.iter().map(|k| kind_name(*k)).collect::<Vec<_>>(),
                            if s.c[ci].mask_unknown { "?" } else { "" },
                            s.c[ci].changed.iter().map(|(k, v)| format!("{}={:?}", kind_name(*k), v)).collect::<Vec<_>>()
                        ))
                        .collect::<Vec<_>>()
                        .join(" ")
                );
            }
            eprintln!("  deadline writes(ms)={:?} reader_rx={:?} odm_reads={:?}",
                o.model.dl.w_writes.iter().map(|w| ((w.0 - EPOCH_NS) / MS, (w.1 - EPOCH_NS) / MS)).collect::<Vec<_>>(),
                o.model.dl.r_writes.iter().map(|w| ((w.0 - EPOCH_NS) / MS, (w.1 - EPOCH_NS) / MS)).collect::<Vec<_>>(),
                o.model.dl.odm_reads.iter().map(|w| ((w.0 - EPOCH_NS) / MS, (w.1 - EPOCH_NS) / MS)).collect::<Vec<_>>());
            for wr in &o.waits {
                eprintln!("  wait w{} +{}..+{} ms -> {:?}", wr.waiter, (wr.t0 - EPOCH_NS) / MS, (wr.t1 - EPOCH_NS) / MS, wr.returned);
            }
        }
        evaluate(&mut rep, &p, &o, &replay, stats.poll_hash, case);
    }
    rep
}
