//! C11 (end-to-end half): the instance handle the READER derives for a received sample equals the
//! handle the WRITER assigned to it (lookup_instance), whether or not the key hash travels in the
//! message. dust-dds puts the key hash into every DATA submessage but not into DATA_FRAG, so a
//! sample larger than the fragment size reaches the reader without one and the reader derives the
//! key from the payload. Types with the key members first, last, in the middle and split around a
//! variable-length member; final, appendable and mutable; u32 / u8+u16 / string keys.
//! Fault-free network (delivery under faults is C01/C02/C05).
use crate::common::*;
use dust_dds::dds_async::data_reader::DataReaderAsync;
use dust_dds::dds_async::data_writer::DataWriterAsync;
use dust_dds::infrastructure::instance::InstanceHandle;
use dust_dds::infrastructure::qos::{DataReaderQos, DataWriterQos};
use dust_dds::infrastructure::sample_info::{ANY_INSTANCE_STATE, ANY_SAMPLE_STATE, ANY_VIEW_STATE};
use dust_dds::infrastructure::type_support::DdsType;
use dust_dds::xtypes::type_support::TypeSupport;
use simnet::*;
use vcore::{Json, Report, Rng};

#[derive(Debug, Clone, PartialEq, DdsType)]
pub struct KeyLast {
    pub seq: u32,
    pub payload: Vec<u8>,
    #[dust_dds(key)]
    pub id: u32,
}

#[derive(Debug, Clone, PartialEq, DdsType)]
#[dust_dds(extensibility = "appendable")]
pub struct KeySplit {
    pub seq: u32,
    #[dust_dds(key)]
    pub k1: u8,
    pub payload: Vec<u8>,
    #[dust_dds(key)]
    pub k2: u16,
}

#[derive(Debug, Clone, PartialEq, DdsType)]
pub struct KeyStringMid {
    pub seq: u32,
    pub payload: Vec<u8>,
    #[dust_dds(key)]
    pub name: String,
    pub tail: u64,
}

#[derive(Debug, Clone, PartialEq, DdsType)]
#[dust_dds(extensibility = "mutable")]
pub struct KeyLastMutable {
    pub seq: u32,
    pub payload: Vec<u8>,
    #[dust_dds(key)]
    pub id: u32,
}

/// what a generated sample looks like, independent of the type
#[derive(Clone, Debug)]
struct Abs {
    seq: u32,
    key: u32,
    len: usize,
}

trait Keyed: TypeSupport + Clone + 'static {
    const NAME: &'static str;
    fn make(a: &Abs) -> Self;
    fn seq(&self) -> u32;
}
fn body(a: &Abs) -> Vec<u8> {
    payload(a.key, a.seq, a.len)
}
impl Keyed for Msg {
    const NAME: &'static str = "key_first(final)";
    fn make(a: &Abs) -> Self {
        Msg { key: a.key, writer: 0, seq: a.seq, payload: body(a) }
    }
    fn seq(&self) -> u32 {
        self.seq
    }
}
impl Keyed for KeyLast {
    const NAME: &'static str = "key_last(final)";
    fn make(a: &Abs) -> Self {
        KeyLast { seq: a.seq, payload: body(a), id: a.key }
    }
    fn seq(&self) -> u32 {
        self.seq
    }
}
impl Keyed for KeySplit {
    const NAME: &'static str = "keys_around_payload(appendable)";
    fn make(a: &Abs) -> Self {
        KeySplit { seq: a.seq, k1: (a.key % 3) as u8, payload: body(a), k2: (a.key / 3) as u16 }
    }
    fn seq(&self) -> u32 {
        self.seq
    }
}
impl Keyed for KeyStringMid {
    const NAME: &'static str = "string_key_after_payload(final)";
    fn make(a: &Abs) -> Self {
        KeyStringMid { seq: a.seq, payload: body(a), name: format!("instance-{}", a.key), tail: a.seq as u64 }
    }
    fn seq(&self) -> u32 {
        self.seq
    }
}
impl Keyed for KeyLastMutable {
    const NAME: &'static str = "key_last(mutable)";
    fn make(a: &Abs) -> Self {
        KeyLastMutable { seq: a.seq, payload: body(a), id: a.key }
    }
    fn seq(&self) -> u32 {
        self.seq
    }
}

#[derive(Clone, Debug)]
struct Params {
    ty: u32,
    frag: usize,
    samples: Vec<Abs>,
    /// dispose these keys at the end (key-only payload on the wire)
    dispose: Vec<u32>,
    policy: Policy,
}

fn gen_params(rng: &mut Rng) -> Params {
    let frag = *rng.pick(&[64usize, 256, 1344]);
    let n_keys = 2 + rng.below(4) as u32;
    let n = 4 + rng.below(12) as u32;
    let samples = (0..n)
        .map(|seq| {
            let len = match rng.below(4) {
                0 => rng.usize(8),
                1 => frag / 2,
                2 => frag + rng.usize(frag),
                _ => 3 * frag + rng.usize(17),
            };
            Abs { seq, key: 1 + rng.below(n_keys as u64) as u32, len }
        })
        .collect();
    Params {
        ty: rng.below(5) as u32,
        frag,
        samples,
        dispose: (1..=n_keys).filter(|_| rng.chance(0.3)).collect(),
        policy: pick_policy(rng),
    }
}

struct Outcome {
    matched: bool,
    /// per written sample: (seq, key, serialized larger than one fragment?, writer handle)
    written: Vec<(u32, u32, bool, Option<InstanceHandle>)>,
    /// per received data sample: (seq, reader handle)
    received: Vec<(u32, InstanceHandle)>,
    /// per disposed key: (key, writer handle, reader handle of the invalid sample if any)
    disposed: Vec<(u32, Option<InstanceHandle>, Vec<InstanceHandle>)>,
    api_error: Option<String>,
}

async fn scenario_t<T: Keyed>(w: World, p: Params) -> Outcome {
    let sim = w.sim.clone();
    let mut out = Outcome { matched: false, written: vec![], received: vec![], disposed: vec![], api_error: None };
    let wq = DataWriterQos { reliability: reliable(1000), history: keep_all(), ..Default::default() };
    let rq = DataReaderQos { reliability: reliable(1000), history: keep_all(), ..Default::default() };
    let dpw = new_participant(&w, 0).await;
    let tw = new_topic::<T>(&dpw, "KeyIdent", "KeyIdentType").await;
    let pb = new_publisher(&dpw).await;
    let dw: DataWriterAsync<T> = new_writer::<T>(&pb, &tw, wq).await;
    let dpr = new_participant(&w, 0).await;
    let tr = new_topic::<T>(&dpr, "KeyIdent", "KeyIdentType").await;
    let sb = new_subscriber(&dpr).await;
    let dr: DataReaderAsync<T> = new_reader::<T>(&sb, &tr, rq).await;
    out.matched = wait_matched(&sim, &dw, 1, 20 * SEC).await && wait_reader_matched(&sim, &dr, 1, 20 * SEC).await;
    if !out.matched {
        return out;
    }
    for a in &p.samples {
        let s = T::make(a);
        match sim.timeout(10 * SEC, dw.write(s.clone(), None)).await {
            Ok(Ok(())) => {}
            other => {
                out.api_error = Some(format!("write #{}: {:?}", a.seq, other.map(|r| r.map_err(|e| err_name(&e)))));
                return out;
            }
        }
        let h = match sim.timeout(10 * SEC, dw.lookup_instance(s)).await {
            Ok(Ok(h)) => h,
            other => {
                out.api_error = Some(format!("lookup_instance #{}: {:?}", a.seq, other.map(|r| r.map_err(|e| err_name(&e)))));
                return out;
            }
        };
        // serialized size >= payload length, so this is a lower bound for "was fragmented"
        out.written.push((a.seq, a.key, a.len > p.frag, h));
    }
    // collect everything (fault-free network: bounded wait)
    let deadline = sim.now() + 20 * SEC;
    while out.received.len() < p.samples.len() && sim.now() < deadline {
        if let Ok(Ok(v)) = sim.timeout(5 * SEC, dr.take(i32::MAX, ANY_SAMPLE_STATE, ANY_VIEW_STATE, ANY_INSTANCE_STATE)).await {
            for x in v {
                if let Some(d) = x.data {
                    out.received.push((d.seq(), x.sample_info.instance_handle));
                }
            }
        }
        sim.sleep(20 * MS).await;
    }
    for k in &p.dispose {
        let s = T::make(&Abs { seq: 9999, key: *k, len: 3 });
        let h = match sim.timeout(10 * SEC, dw.lookup_instance(s.clone())).await {
            Ok(Ok(h)) => h,
            _ => None,
        };
        if h.is_none() {
            continue; // key never written
        }
        if !matches!(sim.timeout(10 * SEC, dw.dispose(s, None)).await, Ok(Ok(()))) {
            continue;
        }
        let mut seen = Vec::new();
        let until = sim.now() + 3 * SEC;
        while seen.is_empty() && sim.now() < until {
            if let Ok(Ok(v)) = sim.timeout(5 * SEC, dr.take(i32::MAX, ANY_SAMPLE_STATE, ANY_VIEW_STATE, ANY_INSTANCE_STATE)).await {
                for x in v {
                    if x.data.is_none() {
                        seen.push(x.sample_info.instance_handle);
                    }
                }
            }
            sim.sleep(20 * MS).await;
        }
        out.disposed.push((*k, h, seen));
    }
    out
}

fn hex(h: &InstanceHandle) -> String {
    let b: [u8; 16] = (*h).into();
    b.iter().map(|x| format!("{x:02x}")).collect()
}

pub fn run(shard: &Shard) -> Report {
    let mut rep = Report::new("C11");
    for case in shard.my_cases() {
        let cs = vcore::mix(shard.case_seed(case), 0xc11e);
        let mut rng = Rng::new(cs);
        let p = gen_params(&mut rng);
        let mut cfg = WorldConfig::default();
        cfg.sim.seed = cs;
        cfg.sim.policy = p.policy;
        cfg.sim.max_polls = 4_000_000;
        cfg.fragment_size = p.frag;
        let p2 = p.clone();
        let ty_name = [Msg::NAME, KeyLast::NAME, KeySplit::NAME, KeyStringMid::NAME, KeyLastMutable::NAME][p.ty as usize];
        let (res, stats, _net) = match p.ty {
            0 => run_world(&cfg, move |w| scenario_t::<Msg>(w, p2)),
            1 => run_world(&cfg, move |w| scenario_t::<KeyLast>(w, p2)),
            2 => run_world(&cfg, move |w| scenario_t::<KeySplit>(w, p2)),
            3 => run_world(&cfg, move |w| scenario_t::<KeyStringMid>(w, p2)),
            _ => run_world(&cfg, move |w| scenario_t::<KeyLastMutable>(w, p2)),
        };
        rep.eval();
        rep.stat("e2e_worlds", 1);
        let replay = shard
            .base_replay("c11e2e", case)
            .set("type", ty_name)
            .set("fragment_size", p.frag)
            .set("samples(seq,key,payload_len)", p.samples.iter().map(|a| Json::from(vec![a.seq as i64, a.key as i64, a.len as i64])).collect::<Vec<_>>());
        let panicked = report_panics(&mut rep, &stats, &replay);
        let Some(o) = res else {
            if !panicked {
                rep.inconclusive(format!("e2e case {case}: scenario did not finish ({:?})", stats.stop));
            }
            continue;
        };
        if !o.matched {
            if !panicked {
                rep.inconclusive(format!("e2e case {case}: endpoints did not match"));
            }
            continue;
        }
        if let Some(e) = &o.api_error {
            rep.inconclusive(format!("e2e case {case}: {e}"));
            continue;
        }
        rep.set("e2e_types", ty_name.to_string());
        let mut nontrivial = false;
        // writer side: same handle iff same key
        for (i, a) in o.written.iter().enumerate() {
            for b in o.written.iter().skip(i + 1) {
                let (Some(ha), Some(hb)) = (a.3, b.3) else { continue };
                if (a.1 == b.1) != (ha == hb) {
                    rep.violation(
                        format!("e2e|writer_side|{}|type={ty_name}", if a.1 == b.1 { "same_key_different_handle" } else { "different_key_same_handle" }),
                        format!("writer handles of samples #{} (key {}) and #{} (key {}): {} / {}", a.0, a.1, b.0, b.1, hex(&ha), hex(&hb)),
                        replay.clone(),
                    );
                }
            }
        }
        for (seq, rh) in &o.received {
            let Some(wr) = o.written.iter().find(|w| w.0 == *seq) else { continue };
            let Some(wh) = wr.3 else {
                rep.violation(
                    format!("e2e|writer_lookup_none|type={ty_name}"),
                    format!("lookup_instance returned None for sample #{seq} right after it was written"),
                    replay.clone(),
                );
                continue;
            };
            rep.stat("e2e_samples_compared", 1);
            rep.stat(if wr.2 { "e2e_samples_compared_fragmented(no key hash on the wire)" } else { "e2e_samples_compared_unfragmented(key hash on the wire)" }, 1);
            nontrivial |= wr.2;
            if wh != *rh {
                rep.violation(
                    format!("e2e|reader_handle_differs_from_writer_handle|key_hash_on_wire={}|type={ty_name}", if wr.2 { "no(fragmented)" } else { "yes_or_unknown" }),
                    format!(
                        "sample #{seq} (key {}, payload {} bytes, fragment size {}): writer lookup_instance = {}, reader SampleInfo.instance_handle = {}",
                        wr.1,
                        p.samples.iter().find(|a| a.seq == *seq).map(|a| a.len).unwrap_or(0),
                        p.frag,
                        hex(&wh),
                        hex(rh)
                    ),
                    replay.clone().set("seq", *seq),
                );
            }
        }
        if o.received.len() < o.written.len() {
            rep.stat("e2e_samples_not_received_within_20s(no verdict, see C01)", (o.written.len() - o.received.len()) as i128);
        }
        for (k, wh, seen) in &o.disposed {
            let Some(wh) = wh else { continue };
            for rh in seen {
                rep.stat("e2e_dispose_notifications_compared", 1);
                if rh != wh {
                    rep.violation(
                        format!("e2e|reader_handle_differs_from_writer_handle|dispose|type={ty_name}"),
                        format!("dispose of key {k}: writer handle {}, reader handle of the notification {}", hex(wh), hex(rh)),
                        replay.clone().set("disposed_key", *k),
                    );
                }
            }
        }
        if nontrivial {
            rep.nontrivial(vcore::mix(vcore::fnv_str(ty_name), vcore::fnv_str(&format!("{:?}", p.samples.iter().map(|a| (a.key, a.len > p.frag)).collect::<Vec<_>>()))));
        }
        if case < 8 {
            rep.sample(replay.clone().set("kind", "e2e").set("received", o.received.len()));
        }
    }
    rep
}
