//! Deterministic single-threaded executor with virtual time. It implements dust-dds' public
//! `DdsRuntime` (Clock/Timer/Spawner) so the *real* DDS worker, listener tasks and API futures run
//! on it unmodified.
use dust_dds::infrastructure::time::Time;
use dust_dds::runtime::{Clock, DdsRuntime, Spawner, TaskHandle, Timer};
use std::cell::RefCell;
use std::collections::{BTreeMap, HashMap};
use std::future::Future;
use std::panic::{AssertUnwindSafe, catch_unwind};
use std::pin::Pin;
use std::rc::Rc;
use std::sync::{Arc, Mutex};
use std::task::{Context, Poll, Wake, Waker};
use vcore::Rng;

/// Virtual epoch: 2023-11-14, so that `i32` seconds are realistic.
pub const EPOCH_NS: i64 = 1_700_000_000 * 1_000_000_000;
pub const MS: i64 = 1_000_000;
pub const US: i64 = 1_000;
pub const SEC: i64 = 1_000_000_000;

#[derive(Clone, Copy, Debug, PartialEq, Eq)]
pub enum TaskKind {
    Worker,
    Listener,
    Local,
}

#[derive(Clone, Copy, Debug, PartialEq, Eq)]
pub enum Policy {
    Fifo,
    Random,
    Lifo,
}

#[derive(Clone, Debug)]
pub struct PanicInfo {
    pub task: TaskKind,
    pub msg: String,
    pub location: String,
    /// first `dust_dds::` frame of the backtrace (generics stripped), or "" if none
    pub sym: String,
    pub at_ns: i64,
}

type SendFut = Pin<Box<dyn Future<Output = ()> + Send + 'static>>;
type LocalFut = Pin<Box<dyn Future<Output = ()> + 'static>>;

struct TimerEntry {
    waker: Option<Waker>,
}

struct St {
    now: i64,
    clock_tick: i64,
    jitter_max: i64,
    ready: Vec<usize>,
    queued: Vec<bool>,
    finished: Vec<bool>,
    kinds: Vec<TaskKind>,
    send_tasks: HashMap<usize, SendFut>,
    spawned_send: u32,
    timers: BTreeMap<(i64, u64), TimerEntry>,
    timer_seq: u64,
    rng: Rng,
    policy: Policy,
    /// (virtual time of request, requested ns (saturated to i64::MAX))
    timer_log: Vec<(i64, i64)>,
    timer_log_cap: usize,
    timer_tail: Vec<(i64, i64)>,
    timer_requests: u64,
    max_worker_delay: i64,
    max_worker_gap: i64,
    last_worker_request: Option<i64>,
    panics: Vec<PanicInfo>,
    polls: u64,
    poll_hash: u64,
    worker_polls: u64,
    clock_reads: u64,
    debug: bool,
    debug2: bool,
    /// max bytes requested during one DDS-task poll since the last `take_alloc_window`
    win_poll_alloc: u64,
    /// largest single request seen during DDS-task polls since the last `take_alloc_window`
    win_single_alloc: u64,
    max_poll_alloc: u64,
}

pub struct Shared {
    st: Mutex<St>,
}

struct TaskWaker {
    id: usize,
    sh: Arc<Shared>,
}
impl Wake for TaskWaker {
    fn wake(self: Arc<Self>) {
        self.wake_by_ref()
    }
    fn wake_by_ref(self: &Arc<Self>) {
        let mut st = self.sh.st.lock().unwrap();
        if !st.queued[self.id] && !st.finished[self.id] {
            st.queued[self.id] = true;
            st.ready.push(self.id);
        }
    }
}

impl Shared {
    fn alloc_task(st: &mut St, kind: TaskKind) -> usize {
        let id = st.kinds.len();
        st.kinds.push(kind);
        st.queued.push(true);
        st.finished.push(false);
        st.ready.push(id);
        id
    }
    pub fn now(&self) -> i64 {
        self.st.lock().unwrap().now
    }
}

// ---------------------------------------------------------------------------------------------
// DdsRuntime implementation

#[derive(Clone)]
pub struct SimClock(Arc<Shared>);
impl Clock for SimClock {
    fn now(&self) -> Time {
        let mut st = self.0.st.lock().unwrap();
        st.clock_reads += 1;
        if st.clock_tick > 0 {
            st.now += st.clock_tick;
        }
        ns_to_time(st.now)
    }
}

pub fn ns_to_time(ns: i64) -> Time {
    Time::new((ns / SEC) as i32, (ns % SEC) as u32)
}
pub fn time_to_ns(t: Time) -> i64 {
    t.sec() as i64 * SEC + t.nanosec() as i64
}

#[derive(Clone)]
pub struct SimTimer {
    sh: Arc<Shared>,
    worker: bool,
}

pub struct SimSleep {
    sh: Arc<Shared>,
    deadline: i64,
    key: Option<(i64, u64)>,
}

impl SimSleep {
    fn new(sh: Arc<Shared>, dur_ns: i64) -> Self {
        let now = sh.now();
        SimSleep {
            sh,
            deadline: now.saturating_add(dur_ns),
            key: None,
        }
    }
}

impl Future for SimSleep {
    type Output = ();
    fn poll(mut self: Pin<&mut Self>, cx: &mut Context<'_>) -> Poll<()> {
        let sh = self.sh.clone();
        let mut st = sh.st.lock().unwrap();
        // like std_runtime: complete strictly after the deadline
        if st.now > self.deadline {
            if let Some(k) = self.key.take() {
                st.timers.remove(&k);
            }
            return Poll::Ready(());
        }
        match self.key {
            Some(k) => {
                if let Some(e) = st.timers.get_mut(&k) {
                    e.waker = Some(cx.waker().clone());
                } else {
                    st.timers.insert(
                        k,
                        TimerEntry {
                            waker: Some(cx.waker().clone()),
                        },
                    );
                }
            }
            None => {
                st.timer_seq += 1;
                let k = (self.deadline, st.timer_seq);
                st.timers.insert(
                    k,
                    TimerEntry {
                        waker: Some(cx.waker().clone()),
                    },
                );
                self.key = Some(k);
            }
        }
        Poll::Pending
    }
}

impl Drop for SimSleep {
    fn drop(&mut self) {
        if let Some(k) = self.key.take() {
            if let Ok(mut st) = self.sh.st.lock() {
                st.timers.remove(&k);
            }
        }
    }
}

impl Timer for SimTimer {
    fn delay(&mut self, duration: core::time::Duration) -> impl Future<Output = ()> + Send {
        let ns = i64::try_from(duration.as_nanos()).unwrap_or(i64::MAX);
        if self.worker {
            let mut st = self.sh.st.lock().unwrap();
            let now = st.now;
            st.timer_requests += 1;
            if ns > st.max_worker_delay {
                st.max_worker_delay = ns;
            }
            if let Some(last) = st.last_worker_request {
                let gap = now - last;
                if gap > st.max_worker_gap {
                    st.max_worker_gap = gap;
                }
            }
            st.last_worker_request = Some(now);
            if st.timer_tail.len() >= 16 {
                st.timer_tail.remove(0);
            }
            st.timer_tail.push((now, ns));
            if st.timer_log.len() < st.timer_log_cap || ns > 50 * MS {
                if st.timer_log.len() < st.timer_log_cap * 2 {
                    st.timer_log.push((now, ns));
                }
            }
        }
        SimSleep::new(self.sh.clone(), ns)
    }
}

pub struct SimTaskHandle;
impl TaskHandle for SimTaskHandle {
    fn join(&self) {}
}

#[derive(Clone)]
pub struct SimSpawner(Arc<Shared>);
impl Spawner for SimSpawner {
    type TaskHandle = SimTaskHandle;
    fn spawn(&self, f: impl Future<Output = ()> + Send + 'static) -> SimTaskHandle {
        let mut st = self.0.st.lock().unwrap();
        let kind = if st.spawned_send == 0 {
            TaskKind::Worker
        } else {
            TaskKind::Listener
        };
        st.spawned_send += 1;
        let id = Shared::alloc_task(&mut st, kind);
        st.send_tasks.insert(id, Box::pin(f));
        SimTaskHandle
    }
}

pub struct SimRuntime(pub Arc<Shared>);
impl DdsRuntime for SimRuntime {
    type ClockHandle = SimClock;
    type TimerHandle = SimTimer;
    type SpawnerHandle = SimSpawner;
    fn timer(&self) -> SimTimer {
        SimTimer {
            sh: self.0.clone(),
            worker: true,
        }
    }
    fn clock(&self) -> SimClock {
        SimClock(self.0.clone())
    }
    fn spawner(&self) -> SimSpawner {
        SimSpawner(self.0.clone())
    }
}

// ---------------------------------------------------------------------------------------------
// Panic capture

thread_local! {
    static LAST_PANIC: RefCell<Option<(String, String, String)>> = const { RefCell::new(None) };
}

pub fn install_panic_hook() {
    static ONCE: std::sync::Once = std::sync::Once::new();
    ONCE.call_once(|| {
        std::panic::set_hook(Box::new(|info| {
            let msg = if let Some(s) = info.payload().downcast_ref::<&str>() {
                s.to_string()
            } else if let Some(s) = info.payload().downcast_ref::<String>() {
                s.clone()
            } else {
                "<non-string panic>".to_string()
            };
            let loc = info
                .location()
                .map(|l| format!("{}:{}", l.file(), l.line()))
                .unwrap_or_default();
            let bt = std::backtrace::Backtrace::force_capture().to_string();
            if std::env::var("SIM_BT").is_ok() {
                eprintln!("{bt}");
            }
            let sym = first_dust_frame(&bt);
            LAST_PANIC.with(|p| *p.borrow_mut() = Some((msg, loc, sym)));
        }));
    });
}

/// First backtrace frame whose source location lies in the repository under test, rendered as
/// `<path below /repo/>::<function>` (no line number, generics stripped) so that it is stable
/// against unrelated edits. Falls back to the first symbol mentioning `dust_dds::`.
pub fn first_dust_frame(bt: &str) -> String {
    fn strip_generics(s: &str) -> String {
        let mut out = String::new();
        let mut depth = 0;
        for c in s.chars() {
            match c {
                '<' => depth += 1,
                '>' => {
                    if depth > 0 {
                        depth -= 1
                    }
                }
                c if depth == 0 => out.push(c),
                _ => {}
            }
        }
        out.replace("::{{closure}}", "").replace("{closure#0}", "closure")
    }
    let lines: Vec<&str> = bt.lines().collect();
    let mut last_name: Option<&str> = None;
    for l in &lines {
        let t = l.trim();
        if let Some(loc) = t.strip_prefix("at ") {
            if let Some(p) = loc.find("/repo/") {
                let path = &loc[p + 6..];
                let file = path.split(':').next().unwrap_or(path);
                let name = last_name.unwrap_or("?");
                let mut name = strip_generics(name);
                if let Some(h) = name.rfind("::h") {
                    if name[h + 3..].chars().all(|c| c.is_ascii_hexdigit()) {
                        name.truncate(h);
                    }
                }
                return format!("{file}::{name}");
            }
        } else if let Some((idx, sym)) = t.split_once(": ") {
            if idx.chars().all(|c| c.is_ascii_digit()) {
                last_name = Some(sym);
            }
        }
    }
    for l in &lines {
        if let Some((_, sym)) = l.trim().split_once(": ") {
            if let Some(p) = sym.find("dust_dds::") {
                return strip_generics(&sym[p..]);
            }
        }
    }
    String::new()
}

pub fn take_last_panic() -> Option<(String, String, String)> {
    LAST_PANIC.with(|p| p.borrow_mut().take())
}

// ---------------------------------------------------------------------------------------------
// Allocation probe: a binary with a counting global allocator registers a function returning
// (total bytes requested so far, largest single request so far); the executor samples it around
// every poll of a DDS task.

static ALLOC_PROBE: Mutex<Option<fn() -> (u64, u64)>> = Mutex::new(None);

pub fn set_alloc_probe(f: fn() -> (u64, u64)) {
    *ALLOC_PROBE.lock().unwrap() = Some(f);
}
fn alloc_probe() -> Option<(u64, u64)> {
    ALLOC_PROBE.lock().unwrap().map(|f| f())
}

// ---------------------------------------------------------------------------------------------
// Runner

#[derive(Clone, Debug)]
pub struct SimConfig {
    pub seed: u64,
    pub policy: Policy,
    /// ns added to the virtual clock by every `Clock::now()` call (0 = frozen between events)
    pub clock_tick: i64,
    /// max extra ns a sleep overshoots its deadline by (>= 0; the mandatory +1 ns is added on top)
    pub jitter_max: i64,
    /// hard budget of task polls
    pub max_polls: u64,
    /// hard budget of virtual time (ns after epoch start)
    pub max_virtual_ns: i64,
    pub timer_log_cap: usize,
}

impl Default for SimConfig {
    fn default() -> Self {
        SimConfig {
            seed: 1,
            policy: Policy::Fifo,
            clock_tick: 0,
            jitter_max: 0,
            max_polls: 5_000_000,
            max_virtual_ns: 3600 * SEC,
            timer_log_cap: 64,
        }
    }
}

#[derive(Debug, Clone, Copy, PartialEq, Eq)]
pub enum Stop {
    MainDone,
    /// nothing runnable and no timer pending while main is not done
    Stalled,
    PollBudget,
    TimeBudget,
}

pub struct RunStats {
    pub stop: Stop,
    pub panics: Vec<PanicInfo>,
    pub timer_log: Vec<(i64, i64)>,
    pub timer_tail: Vec<(i64, i64)>,
    pub timer_requests: u64,
    pub max_worker_delay: i64,
    pub max_worker_gap: i64,
    pub polls: u64,
    pub worker_polls: u64,
    pub poll_hash: u64,
    pub end_ns: i64,
    pub clock_reads: u64,
}

/// Handle used by scenario code (not Send).
#[derive(Clone)]
pub struct Sim {
    pub sh: Arc<Shared>,
    locals: Rc<RefCell<HashMap<usize, LocalFut>>>,
    wakers: Rc<RefCell<HashMap<usize, Waker>>>,
}

impl Sim {
    pub fn new(cfg: &SimConfig) -> Sim {
        install_panic_hook();
        let st = St {
            now: EPOCH_NS,
            clock_tick: cfg.clock_tick,
            jitter_max: cfg.jitter_max,
            ready: Vec::new(),
            queued: Vec::new(),
            finished: Vec::new(),
            kinds: Vec::new(),
            send_tasks: HashMap::new(),
            spawned_send: 0,
            timers: BTreeMap::new(),
            timer_seq: 0,
            rng: Rng::new(cfg.seed ^ 0x51ed_270b),
            policy: cfg.policy,
            timer_log: Vec::new(),
            timer_log_cap: cfg.timer_log_cap,
            timer_tail: Vec::new(),
            timer_requests: 0,
            max_worker_delay: 0,
            max_worker_gap: 0,
            last_worker_request: None,
            panics: Vec::new(),
            polls: 0,
            poll_hash: 0,
            worker_polls: 0,
            clock_reads: 0,
            debug: std::env::var("SIM_DEBUG").is_ok(),
            debug2: std::env::var("SIM_DEBUG").map(|v| v == "2").unwrap_or(false),
            win_poll_alloc: 0,
            win_single_alloc: 0,
            max_poll_alloc: 0,
        };
        Sim {
            sh: Arc::new(Shared { st: Mutex::new(st) }),
            locals: Rc::new(RefCell::new(HashMap::new())),
            wakers: Rc::new(RefCell::new(HashMap::new())),
        }
    }

    pub fn runtime(&self) -> SimRuntime {
        SimRuntime(self.sh.clone())
    }

    /// virtual now in ns since the unix epoch
    pub fn now(&self) -> i64 {
        self.sh.now()
    }
    /// virtual ns since the start of the run
    pub fn elapsed(&self) -> i64 {
        self.sh.now() - EPOCH_NS
    }
    pub fn now_time(&self) -> Time {
        ns_to_time(self.now())
    }

    pub fn sleep(&self, ns: i64) -> SimSleep {
        SimSleep::new(self.sh.clone(), ns)
    }

    pub fn rand(&self, n: u64) -> u64 {
        self.sh.st.lock().unwrap().rng.below(n)
    }

    pub fn panics(&self) -> Vec<PanicInfo> {
        self.sh.st.lock().unwrap().panics.clone()
    }
    pub fn worker_dead(&self) -> bool {
        self.sh
            .st
            .lock()
            .unwrap()
            .panics
            .iter()
            .any(|p| p.task == TaskKind::Worker)
    }
    pub fn max_worker_gap(&self) -> i64 {
        self.sh.st.lock().unwrap().max_worker_gap
    }
    pub fn worker_polls(&self) -> u64 {
        self.sh.st.lock().unwrap().worker_polls
    }
    /// (max bytes requested by one DDS-task poll since the last call) and reset
    pub fn take_alloc_window(&self) -> u64 {
        let mut st = self.sh.st.lock().unwrap();
        let r = st.win_poll_alloc;
        st.win_poll_alloc = 0;
        st.win_single_alloc = 0;
        r
    }
    pub fn max_poll_alloc(&self) -> u64 {
        self.sh.st.lock().unwrap().max_poll_alloc
    }

    /// Spawn a non-Send application task; returns a join handle resolving to its output.
    pub fn spawn_local<T: 'static>(&self, f: impl Future<Output = T> + 'static) -> Join<T> {
        let slot: Rc<RefCell<JoinSlot<T>>> = Rc::new(RefCell::new(JoinSlot {
            value: None,
            waker: None,
        }));
        let slot2 = slot.clone();
        let fut = async move {
            let v = f.await;
            let w = {
                let mut s = slot2.borrow_mut();
                s.value = Some(v);
                s.waker.take()
            };
            if let Some(w) = w {
                w.wake();
            }
        };
        let id = {
            let mut st = self.sh.st.lock().unwrap();
            Shared::alloc_task(&mut st, TaskKind::Local)
        };
        self.locals.borrow_mut().insert(id, Box::pin(fut));
        Join { slot }
    }

    /// Race a future against a virtual-time timeout.
    pub async fn timeout<T>(&self, ns: i64, f: impl Future<Output = T>) -> Result<T, Elapsed> {
        let mut f = std::pin::pin!(f);
        let mut s = std::pin::pin!(self.sleep(ns));
        std::future::poll_fn(move |cx| {
            if let Poll::Ready(v) = f.as_mut().poll(cx) {
                return Poll::Ready(Ok(v));
            }
            if let Poll::Ready(()) = s.as_mut().poll(cx) {
                return Poll::Ready(Err(Elapsed));
            }
            Poll::Pending
        })
        .await
    }

    /// Yield once to the scheduler.
    pub async fn yield_now(&self) {
        let mut yielded = false;
        std::future::poll_fn(move |cx| {
            if yielded {
                Poll::Ready(())
            } else {
                yielded = true;
                cx.waker().wake_by_ref();
                Poll::Pending
            }
        })
        .await
    }

    /// Run `main` to completion (or until a budget is hit). All tasks are dropped afterwards.
    pub fn run<T: 'static>(
        &self,
        cfg: &SimConfig,
        main: impl Future<Output = T> + 'static,
    ) -> (Option<T>, RunStats) {
        let join = self.spawn_local(main);
        let mut stop = Stop::MainDone;
        loop {
            if join.slot.borrow().value.is_some() {
                break;
            }
            // pick next task
            let picked = {
                let mut st = self.sh.st.lock().unwrap();
                if st.polls >= cfg.max_polls {
                    stop = Stop::PollBudget;
                    break;
                }
                if st.now - EPOCH_NS > cfg.max_virtual_ns {
                    stop = Stop::TimeBudget;
                    break;
                }
                if st.ready.is_empty() {
                    None
                } else {
                    let idx = match st.policy {
                        Policy::Fifo => 0,
                        Policy::Lifo => st.ready.len() - 1,
                        Policy::Random => {
                            let n = st.ready.len();
                            st.rng.usize(n)
                        }
                    };
                    let id = st.ready.remove(idx);
                    st.queued[id] = false;
                    st.polls += 1;
                    if st.debug && (st.polls % 20000 == 0 || st.debug2) {
                        eprintln!("  [exec] polls={} now=+{}us ready={} timers={}", st.polls, (st.now - EPOCH_NS) / 1000, st.ready.len(), st.timers.len());
                    }
                    st.poll_hash = vcore::mix(st.poll_hash, id as u64 + 1);
                    let kind = st.kinds[id];
                    if kind == TaskKind::Worker {
                        st.worker_polls += 1;
                    }
                    let fut = st.send_tasks.remove(&id);
                    Some((id, kind, fut))
                }
            };
            match picked {
                Some((id, kind, send_fut)) => {
                    // one stable waker per task (like std_runtime's Arc<Task>), so that
                    // `Waker::will_wake` holds across polls
                    let waker = self
                        .wakers
                        .borrow_mut()
                        .entry(id)
                        .or_insert_with(|| {
                            Waker::from(Arc::new(TaskWaker {
                                id,
                                sh: self.sh.clone(),
                            }))
                        })
                        .clone();
                    let mut cx = Context::from_waker(&waker);
                    if kind == TaskKind::Local {
                        let fut = self.locals.borrow_mut().remove(&id);
                        if let Some(mut fut) = fut {
                            let r = catch_unwind(AssertUnwindSafe(|| fut.as_mut().poll(&mut cx)));
                            match r {
                                Ok(Poll::Pending) => {
                                    self.locals.borrow_mut().insert(id, fut);
                                }
                                Ok(Poll::Ready(())) => {
                                    self.sh.st.lock().unwrap().finished[id] = true;
                                    drop(fut);
                                }
                                Err(_) => {
                                    self.record_panic(id, kind);
                                    // leak the future: its state may be inconsistent
                                    std::mem::forget(fut);
                                }
                            }
                        }
                    } else if let Some(mut fut) = send_fut {
                        let probe0 = alloc_probe();
                        crate::hang::poll_begin();
                        let r = catch_unwind(AssertUnwindSafe(|| fut.as_mut().poll(&mut cx)));
                        crate::hang::poll_end();
                        if let (Some((t0, _)), Some((t1, _))) = (probe0, alloc_probe()) {
                            let d = t1.saturating_sub(t0);
                            let mut st = self.sh.st.lock().unwrap();
                            if d > st.win_poll_alloc {
                                st.win_poll_alloc = d;
                            }
                            if d > st.max_poll_alloc {
                                st.max_poll_alloc = d;
                            }
                        }
                        match r {
                            Ok(Poll::Pending) => {
                                self.sh.st.lock().unwrap().send_tasks.insert(id, fut);
                            }
                            Ok(Poll::Ready(())) => {
                                self.sh.st.lock().unwrap().finished[id] = true;
                                drop(fut);
                            }
                            Err(_) => {
                                self.record_panic(id, kind);
                                let _ = catch_unwind(AssertUnwindSafe(move || drop(fut)));
                            }
                        }
                    }
                }
                None => {
                    // advance virtual time to the earliest timer
                    let wakers: Vec<Waker> = {
                        let mut st = self.sh.st.lock().unwrap();
                        let Some((&(deadline, _), _)) = st.timers.iter().next() else {
                            stop = Stop::Stalled;
                            break;
                        };
                        if deadline == i64::MAX {
                            stop = Stop::Stalled;
                            break;
                        }
                        let jitter = if st.jitter_max > 0 {
                            let j = st.jitter_max as u64 + 1;
                            st.rng.below(j) as i64
                        } else {
                            0
                        };
                        let target = deadline.saturating_add(1 + jitter);
                        if target > st.now {
                            st.now = target;
                        }
                        let now = st.now;
                        let mut ws = Vec::new();
                        for ((d, _), e) in st.timers.iter_mut() {
                            if *d >= now {
                                break;
                            }
                            if let Some(w) = e.waker.take() {
                                ws.push(w);
                            }
                        }
                        ws
                    };
                    if wakers.is_empty() {
                        // timers exist whose wakers were already taken but tasks never re-polled:
                        // nothing can make progress
                        let mut st = self.sh.st.lock().unwrap();
                        // drop fired entries to avoid spinning
                        let now = st.now;
                        let keys: Vec<_> = st
                            .timers
                            .keys()
                            .filter(|(d, _)| *d < now)
                            .cloned()
                            .collect();
                        if keys.is_empty() {
                            stop = Stop::Stalled;
                            break;
                        }
                        for k in keys {
                            st.timers.remove(&k);
                        }
                    }
                    for w in wakers {
                        w.wake();
                    }
                }
            }
        }
        let result = join.slot.borrow_mut().value.take();
        // tear down: drop all tasks outside the lock
        let sends: Vec<SendFut> = {
            let mut st = self.sh.st.lock().unwrap();
            st.ready.clear();
            let keys: Vec<usize> = st.send_tasks.keys().cloned().collect();
            keys.into_iter()
                .filter_map(|k| st.send_tasks.remove(&k))
                .collect()
        };
        for f in sends {
            let _ = catch_unwind(AssertUnwindSafe(move || drop(f)));
        }
        let locals: Vec<LocalFut> = {
            let mut l = self.locals.borrow_mut();
            let keys: Vec<usize> = l.keys().cloned().collect();
            keys.into_iter().filter_map(|k| l.remove(&k)).collect()
        };
        for f in locals {
            let _ = catch_unwind(AssertUnwindSafe(move || drop(f)));
        }
        let st = self.sh.st.lock().unwrap();
        let stats = RunStats {
            stop,
            panics: st.panics.clone(),
            timer_log: st.timer_log.clone(),
            timer_tail: st.timer_tail.clone(),
            timer_requests: st.timer_requests,
            max_worker_delay: st.max_worker_delay,
            max_worker_gap: st.max_worker_gap,
            polls: st.polls,
            worker_polls: st.worker_polls,
            poll_hash: st.poll_hash,
            end_ns: st.now,
            clock_reads: st.clock_reads,
        };
        (result, stats)
    }

    fn record_panic(&self, id: usize, kind: TaskKind) {
        let (msg, location, sym) = take_last_panic().unwrap_or_default();
        let mut st = self.sh.st.lock().unwrap();
        st.finished[id] = true;
        let at_ns = st.now;
        st.panics.push(PanicInfo {
            task: kind,
            msg,
            location,
            sym,
            at_ns,
        });
    }
}

#[derive(Debug, Clone, Copy, PartialEq, Eq)]
pub struct Elapsed;

struct JoinSlot<T> {
    value: Option<T>,
    waker: Option<Waker>,
}
pub struct Join<T> {
    slot: Rc<RefCell<JoinSlot<T>>>,
}
impl<T> Join<T> {
    pub fn is_done(&self) -> bool {
        self.slot.borrow().value.is_some()
    }
    pub fn try_take(&self) -> Option<T> {
        self.slot.borrow_mut().value.take()
    }
}
impl<T> Future for Join<T> {
    type Output = T;
    fn poll(self: Pin<&mut Self>, cx: &mut Context<'_>) -> Poll<T> {
        let mut s = self.slot.borrow_mut();
        if let Some(v) = s.value.take() {
            Poll::Ready(v)
        } else {
            s.waker = Some(cx.waker().clone());
            Poll::Pending
        }
    }
}

/// Simple local notification (edge-triggered flag + waker), for harness-internal signalling.
#[derive(Clone, Default)]
pub struct Notify {
    inner: Arc<Mutex<(bool, Option<Waker>)>>,
}
impl Notify {
    pub fn new() -> Self {
        Self::default()
    }
    pub fn notify(&self) {
        let w = {
            let mut g = self.inner.lock().unwrap();
            g.0 = true;
            g.1.take()
        };
        if let Some(w) = w {
            w.wake();
        }
    }
    pub fn wait(&self) -> impl Future<Output = ()> + '_ {
        std::future::poll_fn(move |cx| {
            let mut g = self.inner.lock().unwrap();
            if g.0 {
                g.0 = false;
                Poll::Ready(())
            } else {
                g.1 = Some(cx.waker().clone());
                Poll::Pending
            }
        })
    }
}
