//! Wakers and small helpers shared by the C34 / C42 monitors.
use std::sync::Arc;
use std::sync::atomic::{AtomicBool, AtomicU64, AtomicUsize, Ordering};
use std::task::{Wake, Waker};
use std::thread::Thread;

/// State shared by all wakers handed out for one wait: how often any of them was invoked.
pub struct WakeState {
    pub wakes: AtomicUsize,
    pub woken: AtomicBool,
    /// thread to unpark (None: pure counting waker)
    pub thread: Option<Thread>,
}

impl WakeState {
    pub fn new(thread: Option<Thread>) -> Arc<WakeState> {
        Arc::new(WakeState { wakes: AtomicUsize::new(0), woken: AtomicBool::new(false), thread })
    }
    pub fn count(&self) -> usize {
        self.wakes.load(Ordering::SeqCst)
    }
}

/// A waker; several distinct `TWaker`s (distinct `Waker`s, `will_wake` false) may share one state.
pub struct TWaker(pub Arc<WakeState>);

impl Wake for TWaker {
    fn wake(self: Arc<Self>) {
        self.wake_by_ref()
    }
    fn wake_by_ref(self: &Arc<Self>) {
        self.0.wakes.fetch_add(1, Ordering::SeqCst);
        self.0.woken.store(true, Ordering::SeqCst);
        if let Some(t) = &self.0.thread {
            t.unpark();
        }
    }
}

pub fn waker(state: &Arc<WakeState>) -> Waker {
    Waker::from(Arc::new(TWaker(state.clone())))
}

/// Logical clock: a total order of "ticks"; an operation is bracketed by two ticks. If
/// `a.end < b.begin` then operation a happened-before operation b (the ticks are SeqCst RMWs).
pub struct Clock(pub AtomicU64);
impl Clock {
    #[inline]
    pub fn tick(&self) -> u64 {
        self.0.fetch_add(1, Ordering::SeqCst)
    }
}

/// Wait for a condition: spin briefly, then yield, then sleep in small steps.
pub fn spin_until(mut f: impl FnMut() -> bool) {
    let mut i = 0u32;
    while !f() {
        i = i.saturating_add(1);
        if i < 128 {
            std::hint::spin_loop();
        } else if i < 2048 {
            std::thread::yield_now();
        } else {
            std::thread::sleep(std::time::Duration::from_micros(50));
        }
    }
}

#[inline]
pub fn spin(n: u32) {
    for _ in 0..n {
        std::hint::spin_loop();
    }
}
