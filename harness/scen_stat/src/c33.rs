//! C33: each communication status change reaches exactly one listener, the most specific enabled one.
//!
//! Recording listeners at writer/reader, publisher/subscriber and participant level with random
//! masks (including NO_STATUS and no listener at all). Status-raising events: match, incompatible
//! QoS, deadline misses, sample rejected (resource limits), data arrival. Every occurrence is
//! identified by (entity, status kind, total_count carried in the status); a data arrival by
//! (reader, write index).
use crate::common::*;
use crate::rec::*;
use dust_dds::infrastructure::qos::{DataReaderQos, DataWriterQos, QosKind};
use dust_dds::infrastructure::qos_policy::*;
use dust_dds::infrastructure::sample_info::{ANY_INSTANCE_STATE, ANY_SAMPLE_STATE, ANY_VIEW_STATE};
use dust_dds::infrastructure::status::{NO_STATUS, StatusKind};
use simnet::*;
use std::collections::{BTreeMap, BTreeSet};
use std::sync::{Arc, Mutex};
use vcore::{Json, Report, Rng};

const W_KINDS: [StatusKind; 4] = [
    StatusKind::PublicationMatched,
    StatusKind::OfferedIncompatibleQos,
    StatusKind::OfferedDeadlineMissed,
    StatusKind::LivelinessLost,
];
const R_KINDS: [StatusKind; 8] = [
    StatusKind::SubscriptionMatched,
    StatusKind::RequestedIncompatibleQos,
    StatusKind::RequestedDeadlineMissed,
    StatusKind::SampleRejected,
    StatusKind::DataAvailable,
    StatusKind::DataOnReaders,
    StatusKind::LivelinessChanged,
    StatusKind::SampleLost,
];

/// None = no listener installed; Some(mask) = listener installed with that mask
type Lm = Option<Vec<StatusKind>>;

#[derive(Clone, Debug)]
struct P {
    a_dp: Lm,
    a_pub: Lm,
    a_w: Lm,
    b_dp: Lm,
    b_sub: Lm,
    b_r: Lm,
    r2: Option<Lm>,
    /// sibling reader under the SAME subscriber (one DATA => two changes in one processing pass)
    r3: Option<Lm>,
    /// base levels (0 a_dp, 1 a_pub, 2 a_w, 3 b_dp, 4 b_sub, 5 b_r) created WITHOUT a listener object although
    /// their mask is given: per DDS 1.4 2.2.4.2.3 a nil listener with an enabled status behaves as a no-op
    /// listener, i.e. it consumes the status and nobody else is called
    nil_levels: Vec<u8>,
    rbad: Option<Lm>,
    deadline: bool,
    limit: bool,
    n_writes: u32,
    take_after: Vec<bool>,
    rbad_pos: u32,
    policy: Policy,
    clock_tick: i64,
    jitter: i64,
}

fn gen_lm(rng: &mut Rng, kinds: &[StatusKind], focus: Option<StatusKind>) -> Lm {
    if rng.chance(0.2) {
        return None;
    }
    let r = rng.f64();
    let mut m: Vec<StatusKind> = if r < 0.1 {
        vec![]
    } else if r < 0.25 {
        kinds.to_vec()
    } else {
        kinds.iter().filter(|_| rng.chance(0.5)).cloned().collect()
    };
    if let Some(f) = focus {
        // steer a share of the cases towards the interesting chains
        m.retain(|k| *k != f);
    }
    Some(m)
}

fn gen_params(rng: &mut Rng, thorough: bool) -> P {
    let both: Vec<StatusKind> = W_KINDS.iter().chain(R_KINDS.iter()).cloned().collect();
    // in a third of the cases the reader itself does not enable DATA_AVAILABLE, so that the chain
    // must continue to the subscriber / participant
    let focus = if rng.chance(0.33) { Some(StatusKind::DataAvailable) } else { None };
    let n_writes = 2 + rng.below(if thorough { 6 } else { 4 }) as u32;
    // DEADLINE and the resource limit are never combined: a rejected sample makes the (fixed)
    // worker spin until the deadline check fires, which is not this property's business
    let feature = rng.below(5);
    let mut p = P {
        a_dp: gen_lm(rng, &both, None),
        a_pub: gen_lm(rng, &W_KINDS, None),
        a_w: gen_lm(rng, &W_KINDS, None),
        b_dp: gen_lm(rng, &both, None),
        b_sub: gen_lm(rng, &R_KINDS, None),
        b_r: gen_lm(rng, &R_KINDS, focus),
        r2: if rng.chance(0.4) { Some(gen_lm(rng, &R_KINDS, None)) } else { None },
        r3: None,
        nil_levels: Vec::new(),
        rbad: if rng.chance(0.5) { Some(gen_lm(rng, &R_KINDS, None)) } else { None },
        deadline: false,
        limit: false,
        n_writes,
        take_after: (0..n_writes).map(|_| rng.chance(0.3)).collect(),
        rbad_pos: rng.below(n_writes as u64 + 1) as u32,
        policy: pick_policy(rng),
        clock_tick: *rng.pick(&[0i64, 0, 1, 1000]),
        jitter: *rng.pick(&[0i64, 0, 1000, 1_000_000]),
    };
    p.deadline = feature == 0 || feature == 1;
    p.limit = feature == 2 || feature == 3;
    // drawn last so that the earlier parameters of a case do not depend on it
    p.r3 = if rng.chance(0.4) { Some(gen_lm(rng, &R_KINDS, None)) } else { None };
    if rng.chance(0.3) {
        let levels = [&p.a_dp, &p.a_pub, &p.a_w, &p.b_dp, &p.b_sub, &p.b_r];
        let cands: Vec<u8> = (0..6u8).filter(|i| matches!(levels[*i as usize], Some(m) if !m.is_empty())).collect();
        for _ in 0..1 + rng.below(2) {
            if !cands.is_empty() {
                let c = *rng.pick(&cands);
                if !p.nil_levels.contains(&c) {
                    p.nil_levels.push(c);
                }
            }
        }
    }
    p
}

fn lm_json(l: &Lm) -> Json {
    match l {
        None => Json::s("no listener"),
        Some(m) => Json::from(m.iter().map(|k| kind_name(*k).to_string()).collect::<Vec<_>>()),
    }
}

impl P {
    fn to_json(&self) -> Json {
        Json::obj()
            .set("writer_participant_listener_mask", lm_json(&self.a_dp))
            .set("publisher_listener_mask", lm_json(&self.a_pub))
            .set("writer_listener_mask", lm_json(&self.a_w))
            .set("reader_participant_listener_mask", lm_json(&self.b_dp))
            .set("subscriber_listener_mask", lm_json(&self.b_sub))
            .set("reader_listener_mask", lm_json(&self.b_r))
            .set("second_reader_under_listenerless_subscriber", match &self.r2 { None => Json::s("absent"), Some(l) => lm_json(l) })
            .set("levels_with_mask_but_nil_listener(0 a_dp,1 a_pub,2 a_w,3 b_dp,4 b_sub,5 b_r)", self.nil_levels.iter().map(|x| Json::from(*x as i64)).collect::<Vec<_>>())
            .set("sibling_reader_under_the_same_subscriber", match &self.r3 { None => Json::s("absent"), Some(l) => lm_json(l) })
            .set("incompatible_reader(TRANSIENT_LOCAL)_under_subscriber", match &self.rbad { None => Json::s("absent"), Some(l) => lm_json(l) })
            .set("deadline_600ms", self.deadline)
            .set("reader_resource_limit_2_samples", self.limit)
            .set("writes", self.n_writes)
            .set("take_after_write", self.take_after.clone())
            .set("incompatible_reader_created_before_write", self.rbad_pos)
            .set("policy", format!("{:?}", self.policy))
            .set("clock_tick_ns", self.clock_tick)
            .set("sleep_jitter_ns", self.jitter)
    }
}

#[derive(Default)]
struct Out {
    matched: bool,
    api_error: Option<String>,
    cbs: Vec<Cb>,
    h_w: [u8; 16],
    h_r: [u8; 16],
    h_sub: [u8; 16],
    h_r2: Option<[u8; 16]>,
    h_sub2: Option<[u8; 16]>,
    h_r3: Option<[u8; 16]>,
    h_rbad: Option<[u8; 16]>,
    /// (t0, t1, arrived at R, arrived at R2, arrived at R3)
    writes: Vec<(i64, i64, bool, bool, bool)>,
    n_rejected: i32,
    pub_matched_total: i32,
    sub_matched_total_r: i32,
    sub_matched_total_r2: i32,
    odm_total: i32,
    /// status-condition witnesses that the incompatible-QoS statuses really changed
    w_incompat_witness: bool,
    rbad_incompat_witness: bool,
    rejected_witness: bool,
    t_end: i64,
}

fn opt_rec(l: &Lm, log: &Log, sh: &Arc<Shared>, level: u8, side: u8) -> Option<Rec> {
    l.as_ref().map(|_| Rec::new(log, sh, level, side))
}
fn mask_of(l: &Lm) -> &[StatusKind] {
    match l {
        Some(m) => m.as_slice(),
        None => NO_STATUS,
    }
}

const DEADLINE_MS: i64 = 600;

async fn scenario(w: World, p: P) -> Out {
    let sim = w.sim.clone();
    let log: Log = Arc::new(Mutex::new(Vec::new()));
    let sh = sim.sh.clone();
    let mut out = Out::default();
    macro_rules! api {
        ($e:expr, $what:expr) => {
            match sim.timeout(10 * SEC, $e).await {
                Ok(Ok(v)) => v,
                Ok(Err(e)) => {
                    out.api_error = Some(format!("{}: {}", $what, err_name(&e)));
                    return out;
                }
                Err(_) => {
                    out.api_error = Some(format!("{}: no reply within 10 s", $what));
                    return out;
                }
            }
        };
    }
    let dl = if p.deadline { finite_ms(DEADLINE_MS) } else { dust_dds::infrastructure::time::DurationKind::Infinite };
    // writer side
    let dp_a = api!(w.factory.create_participant(0, QosKind::Default, (if p.nil_levels.contains(&0) { None } else { opt_rec(&p.a_dp, &log, &sh, L_PARTICIPANT, 0) }), mask_of(&p.a_dp)), "create_participant");
    let topic_a = new_topic::<Msg>(&dp_a, "Routing", "Msg").await;
    let pb = api!(dp_a.create_publisher(QosKind::Default, (if p.nil_levels.contains(&1) { None } else { opt_rec(&p.a_pub, &log, &sh, L_GROUP, 0) }), mask_of(&p.a_pub)), "create_publisher");
    let wq = DataWriterQos {
        reliability: reliable(1000),
        history: keep_all(),
        deadline: DeadlineQosPolicy { period: dl },
        ..Default::default()
    };
    let dw = api!(pb.create_datawriter::<Msg>(&topic_a, QosKind::Specific(wq), (if p.nil_levels.contains(&2) { None } else { opt_rec(&p.a_w, &log, &sh, L_ENTITY, 0) }), mask_of(&p.a_w)), "create_datawriter");
    out.h_w = dw.get_instance_handle().into();
    // reader side
    let dp_b = api!(w.factory.create_participant(0, QosKind::Default, (if p.nil_levels.contains(&3) { None } else { opt_rec(&p.b_dp, &log, &sh, L_PARTICIPANT, 1) }), mask_of(&p.b_dp)), "create_participant");
    let topic_b = new_topic::<Msg>(&dp_b, "Routing", "Msg").await;
    let sb = api!(dp_b.create_subscriber(QosKind::Default, (if p.nil_levels.contains(&4) { None } else { opt_rec(&p.b_sub, &log, &sh, L_GROUP, 1) }), mask_of(&p.b_sub)), "create_subscriber");
    out.h_sub = sb.get_instance_handle().into();
    let mut rq = DataReaderQos {
        reliability: reliable(1000),
        deadline: DeadlineQosPolicy { period: dl },
        ..Default::default()
    };
    if p.limit {
        rq.history = keep_all();
        rq.resource_limits = ResourceLimitsQosPolicy {
            max_samples: Length::Limited(2),
            max_instances: Length::Unlimited,
            max_samples_per_instance: Length::Limited(2),
        };
    }
    let dr = api!(sb.create_datareader::<Msg>(&topic_b, QosKind::Specific(rq), (if p.nil_levels.contains(&5) { None } else { opt_rec(&p.b_r, &log, &sh, L_ENTITY, 1) }), mask_of(&p.b_r)), "create_datareader");
    out.h_r = dr.get_instance_handle().into();
    let mut dr2 = None;
    let mut _sb2 = None;
    if let Some(l2) = &p.r2 {
        let sb2 = new_subscriber(&dp_b).await;
        out.h_sub2 = Some(sb2.get_instance_handle().into());
        let rq2 = DataReaderQos { reliability: reliable(1000), ..Default::default() };
        let r = api!(sb2.create_datareader::<Msg>(&topic_b, QosKind::Specific(rq2), opt_rec(l2, &log, &sh, L_ENTITY, 1), mask_of(l2)), "create_datareader");
        out.h_r2 = Some(r.get_instance_handle().into());
        dr2 = Some(r);
        _sb2 = Some(sb2);
    }
    let mut dr3 = None;
    if let Some(l3) = &p.r3 {
        let rq3 = DataReaderQos { reliability: reliable(1000), ..Default::default() };
        let r = api!(sb.create_datareader::<Msg>(&topic_b, QosKind::Specific(rq3), opt_rec(l3, &log, &sh, L_ENTITY, 1), mask_of(l3)), "create_datareader");
        out.h_r3 = Some(r.get_instance_handle().into());
        dr3 = Some(r);
    }
    let n_readers = 1 + dr2.is_some() as i32 + dr3.is_some() as i32;
    out.matched = wait_matched(&sim, &dw, n_readers, 20 * SEC).await && wait_reader_matched(&sim, &dr, 1, 20 * SEC).await;
    if let Some(r2) = &dr2 {
        out.matched &= wait_reader_matched(&sim, r2, 1, 20 * SEC).await;
    }
    if let Some(r3) = &dr3 {
        out.matched &= wait_reader_matched(&sim, r3, 1, 20 * SEC).await;
    }
    if !out.matched {
        return out;
    }
    // status conditions are used only as independent witnesses that a status really changed
    let wcond = dw.get_statuscondition();
    api!(wcond.set_enabled_statuses(&[StatusKind::OfferedIncompatibleQos]), "set_enabled_statuses");
    let rcond = dr.get_statuscondition();
    api!(rcond.set_enabled_statuses(&[StatusKind::SampleRejected]), "set_enabled_statuses");
    sim.sleep(500 * MS).await;

    let mut drbad = None;
    let mut held = 0u32; // samples R holds (limit mode)
    for k in 0..=p.n_writes {
        if k == p.rbad_pos {
            if let Some(lb) = &p.rbad {
                let rqb = DataReaderQos {
                    reliability: reliable(1000),
                    durability: DurabilityQosPolicy { kind: DurabilityQosPolicyKind::TransientLocal },
                    ..Default::default()
                };
                let r = api!(sb.create_datareader::<Msg>(&topic_b, QosKind::Specific(rqb), opt_rec(lb, &log, &sh, L_ENTITY, 1), mask_of(lb)), "create_datareader");
                out.h_rbad = Some(r.get_instance_handle().into());
                let c = r.get_statuscondition();
                api!(c.set_enabled_statuses(&[StatusKind::RequestedIncompatibleQos]), "set_enabled_statuses");
                sim.sleep(600 * MS).await;
                out.w_incompat_witness = api!(wcond.get_trigger_value(), "get_trigger_value");
                out.rbad_incompat_witness = api!(c.get_trigger_value(), "get_trigger_value");
                drbad = Some(r);
            }
        }
        if k == p.n_writes {
            break;
        }
        let t0 = sim.now();
        api!(dw.write(msg(0, 0, k, 16), None), "write");
        let t1 = sim.now();
        if std::env::var("C33_DEBUG").is_ok() {
            eprintln!("  write #{k} at +{} us", (t0 - EPOCH_NS) / 1000);
        }
        sim.sleep(350 * MS).await;
        // which readers hold the sample now?
        let got: Vec<u32> = match sim.timeout(10 * SEC, dr.read(i32::MAX, ANY_SAMPLE_STATE, ANY_VIEW_STATE, ANY_INSTANCE_STATE)).await {
            Ok(Ok(v)) => v.iter().filter_map(|s| s.data.as_ref().map(|m| m.seq)).collect(),
            _ => vec![],
        };
        let at_r = got.contains(&k);
        if p.limit {
            if at_r {
                held += 1;
            } else if held >= 2 {
                out.n_rejected += 1;
            }
        }
        let at_r2 = match &dr2 {
            Some(r2) => match sim.timeout(10 * SEC, r2.read(i32::MAX, ANY_SAMPLE_STATE, ANY_VIEW_STATE, ANY_INSTANCE_STATE)).await {
                Ok(Ok(v)) => v.iter().any(|s| s.data.as_ref().map(|m| m.seq) == Some(k)),
                _ => false,
            },
            None => false,
        };
        let at_r3 = match &dr3 {
            Some(r3) => match sim.timeout(10 * SEC, r3.read(i32::MAX, ANY_SAMPLE_STATE, ANY_VIEW_STATE, ANY_INSTANCE_STATE)).await {
                Ok(Ok(v)) => v.iter().any(|s| s.data.as_ref().map(|m| m.seq) == Some(k)),
                _ => false,
            },
            None => false,
        };
        out.writes.push((t0, t1, at_r, at_r2, at_r3));
        if p.take_after[k as usize] {
            if let Ok(Ok(v)) = sim.timeout(10 * SEC, dr.take(i32::MAX, ANY_SAMPLE_STATE, ANY_VIEW_STATE, ANY_INSTANCE_STATE)).await {
                held = held.saturating_sub(v.len() as u32);
            }
        }
        sim.sleep(50 * MS).await;
    }
    if p.deadline {
        // a silence of 2.5 periods: deadline misses on both sides
        sim.sleep(DEADLINE_MS * 5 / 2 * MS).await;
    }
    out.rejected_witness = api!(rcond.get_trigger_value(), "get_trigger_value");
    out.pub_matched_total = api!(dw.get_publication_matched_status(), "get_publication_matched_status").total_count;
    out.sub_matched_total_r = api!(dr.get_subscription_matched_status(), "get_subscription_matched_status").total_count;
    if let Some(r2) = &dr2 {
        out.sub_matched_total_r2 = api!(r2.get_subscription_matched_status(), "get_subscription_matched_status").total_count;
    }
    if p.deadline {
        out.odm_total = api!(dw.get_offered_deadline_missed_status(), "get_offered_deadline_missed_status").total_count;
    }
    out.t_end = sim.now();
    // settling time before anything is judged "missing"
    sim.sleep(500 * MS).await;
    out.cbs = log.lock().unwrap().clone();
    drop(drbad);
    out
}

fn lname(l: Option<u8>, reader_side: bool) -> &'static str {
    match l {
        None => "none",
        // 10 + level: delivered at that level but through the other data callback kind
        Some(10) => "reader(other_callback)",
        Some(11) => "subscriber(other_callback)",
        Some(12) => "participant(other_callback)",
        Some(l) => level_name(l, reader_side),
    }
}

/// Most specific level whose listener exists and whose mask enables `k`.
thread_local! {
    /// addresses of the `Lm` fields (of the `P` being judged) whose level has a mask but a nil listener
    static NIL: std::cell::RefCell<Vec<usize>> = const { std::cell::RefCell::new(Vec::new()) };
}
fn is_nil(l: &Lm) -> bool {
    NIL.with(|n| n.borrow().contains(&(l as *const Lm as usize)))
}
fn expected_level(chain: &[&Lm; 3], k: StatusKind) -> Option<u8> {
    for (i, l) in chain.iter().enumerate() {
        if let Some(m) = l {
            if m.contains(&k) {
                // a nil listener whose mask enables the status consumes it: nobody is called
                return if is_nil(l) { None } else { Some(i as u8) };
            }
        }
    }
    None
}

struct Judge<'a> {
    rep: &'a mut Report,
    replay: &'a Json,
    fired: BTreeSet<String>,
}

impl Judge<'_> {
    /// `got`: levels at which the occurrence was delivered
    fn occurrence(&mut self, status: &str, reader_side: bool, expected: Option<u8>, got: &[u8], what: &str, allow_missing: bool) {
        self.rep.stat(&format!("occurrences_{status}"), 1);
        let class_got: Option<(&str, Option<u8>)> = match expected {
            None => got.first().map(|g| ("unexpected", Some(*g))),
            Some(e) => {
                if let Some(g) = got.iter().find(|g| **g != e) {
                    Some(("wrong_level", Some(*g)))
                } else if got.is_empty() {
                    if allow_missing { None } else { Some(("missing", None)) }
                } else if got.len() > 1 {
                    Some(("duplicate", Some(e)))
                } else {
                    None
                }
            }
        };
        match class_got {
            None => self.rep.stat("occurrences_routed_correctly", 1),
            Some((class, g)) => {
                let sig = format!(
                    "status={}|{}|expected_level={}|got_level={}",
                    status,
                    class,
                    lname(expected, reader_side),
                    lname(g, reader_side)
                );
                if self.fired.insert(sig.clone()) {
                    self.rep.violation(
                        sig,
                        format!(
                            "{what}: expected {} at level '{}', observed {} callback(s) at level(s) {:?}",
                            if expected.is_some() { "exactly one callback" } else { "no callback" },
                            lname(expected, reader_side),
                            got.len(),
                            got.iter().map(|g| lname(Some(*g), reader_side)).collect::<BTreeSet<_>>()
                        ),
                        self.replay.clone().set("violation", class).set("status", status).set("occurrence", what),
                    );
                }
            }
        }
    }
}

fn evaluate(rep: &mut Report, p: &P, o: &Out, replay: &Json, poll_hash: u64, case: u64) {
    let mut j = Judge { rep: &mut *rep, replay, fired: BTreeSet::new() };
    {
        let levels = [&p.a_dp, &p.a_pub, &p.a_w, &p.b_dp, &p.b_sub, &p.b_r];
        NIL.with(|n| *n.borrow_mut() = p.nil_levels.iter().map(|i| levels[*i as usize] as *const Lm as usize).collect());
    }
    let none: Lm = None;
    let w_chain: [&Lm; 3] = [&p.a_w, &p.a_pub, &p.a_dp];
    let r_chain: [&Lm; 3] = [&p.b_r, &p.b_sub, &p.b_dp];
    // counted statuses: (entity, kind) -> total -> levels
    let mut by: BTreeMap<([u8; 16], &'static str), BTreeMap<i32, Vec<u8>>> = BTreeMap::new();
    for c in &o.cbs {
        if c.kind == StatusKind::DataAvailable || c.kind == StatusKind::DataOnReaders {
            continue;
        }
        by.entry((c.entity, kind_name(c.kind))).or_default().entry(c.total).or_default().push(c.level);
    }
    let mut counted = |j: &mut Judge, entity: [u8; 16], ename: &str, kind: StatusKind, chain: &[&Lm; 3], reader_side: bool, n_known: i32, missing_ok_above: i32| {
        let seen = by.remove(&(entity, kind_name(kind))).unwrap_or_default();
        let max_seen = seen.keys().max().cloned().unwrap_or(0);
        let exp = expected_level(chain, kind);
        for v in 1..=n_known.max(max_seen) {
            let got = seen.get(&v).cloned().unwrap_or_default();
            j.occurrence(
                kind_name(kind),
                reader_side,
                exp,
                &got,
                &format!("{} of {} with total_count={}", kind_name(kind), ename, v),
                v > missing_ok_above,
            );
        }
    };
    counted(&mut j, o.h_w, "the writer", StatusKind::PublicationMatched, &w_chain, false, o.pub_matched_total, o.pub_matched_total);
    counted(&mut j, o.h_r, "the reader", StatusKind::SubscriptionMatched, &r_chain, true, o.sub_matched_total_r, o.sub_matched_total_r);
    if p.deadline {
        counted(&mut j, o.h_w, "the writer", StatusKind::OfferedDeadlineMissed, &w_chain, false, o.odm_total, o.odm_total);
        // the requested count cannot be read (getter is todo!()): judge the values seen, gaps are "missing"
        counted(&mut j, o.h_r, "the reader", StatusKind::RequestedDeadlineMissed, &r_chain, true, 0, i32::MAX);
    }
    if p.limit {
        let n = if o.rejected_witness { o.n_rejected } else { 0 };
        counted(&mut j, o.h_r, "the reader", StatusKind::SampleRejected, &r_chain, true, n, n);
    }
    if let (Some(l2), Some(h2)) = (&p.r2, o.h_r2) {
        let chain2: [&Lm; 3] = [l2, &none, &p.b_dp];
        counted(&mut j, h2, "the second reader", StatusKind::SubscriptionMatched, &chain2, true, o.sub_matched_total_r2, o.sub_matched_total_r2);
    }
    if let (Some(lb), Some(hb)) = (&p.rbad, o.h_rbad) {
        let chainb: [&Lm; 3] = [lb, &p.b_sub, &p.b_dp];
        let nw = o.w_incompat_witness as i32;
        counted(&mut j, o.h_w, "the writer", StatusKind::OfferedIncompatibleQos, &w_chain, false, nw, nw);
        let nr = o.rbad_incompat_witness as i32;
        counted(&mut j, hb, "the incompatible reader", StatusKind::RequestedIncompatibleQos, &chainb, true, nr, nr);
    }
    // anything left over: callbacks for statuses nobody raised on purpose
    for ((_, kind), m) in by {
        for (total, levels) in m {
            j.rep.stat(&format!("unjudged_callbacks_{kind}"), levels.len() as i128);
            let _ = total;
        }
    }
    // data arrival
    let readers: Vec<([u8; 16], [u8; 16], [&Lm; 3], usize, &str)> = {
        let mut v = vec![(o.h_r, o.h_sub, r_chain, 2usize, "the reader")];
        if let (Some(l2), Some(h2), Some(hs2)) = (&p.r2, o.h_r2, o.h_sub2) {
            v.push((h2, hs2, [l2, &none, &p.b_dp], 3usize, "the second reader"));
        }
        if let (Some(l3), Some(h3)) = (&p.r3, o.h_r3) {
            v.push((h3, o.h_sub, [l3, &p.b_sub, &p.b_dp], 4usize, "the sibling reader (same subscriber)"));
        }
        v
    };
    for (wi, wr) in o.writes.iter().enumerate() {
        let t_from = wr.0;
        let t_to = o.writes.get(wi + 1).map(|n| n.0).unwrap_or(i64::MAX);
        for (h, hs, chain, idx, name) in &readers {
            let arrived = match *idx { 2 => wr.2, 3 => wr.3, _ => wr.4 };
            if !arrived {
                continue;
            }
            let dor_enabled = matches!(chain[1], Some(m) if m.contains(&StatusKind::DataOnReaders));
            let (status, exp) = if dor_enabled {
                ("DataOnReaders", if is_nil(chain[1]) { None } else { Some(L_GROUP) })
            } else {
                ("DataAvailable", expected_level(chain, StatusKind::DataAvailable))
            };
            // readers of the same subscriber that received this write: DATA_ON_READERS is a status
            // of the subscriber, so one write may legitimately be signalled once per receiving
            // reader or once for all of them (1..=k callbacks count as the one expected occurrence)
            let k_same_sub = readers
                .iter()
                .filter(|r| r.1 == *hs && match r.3 { 2 => wr.2, 3 => wr.3, _ => wr.4 })
                .count();
            let mut got: Vec<u8> = Vec::new();
            let mut got_kinds: Vec<&str> = Vec::new();
            let mut dor_levels: Vec<u8> = Vec::new();
            for c in o.cbs.iter().filter(|c| c.t >= t_from && c.t < t_to) {
                if c.kind == StatusKind::DataAvailable && c.entity == *h {
                    // a callback of the other kind is a delivery at the wrong place
                    got.push(if status == "DataAvailable" { c.level } else { 10 + c.level });
                    got_kinds.push(kind_name(c.kind));
                } else if c.kind == StatusKind::DataOnReaders && c.entity == *hs {
                    dor_levels.push(if status == "DataOnReaders" { c.level } else { 10 + c.level });
                    got_kinds.push(kind_name(c.kind));
                }
            }
            if status == "DataOnReaders" && k_same_sub >= 2 && (1..=k_same_sub).contains(&dor_levels.len()) && dor_levels.iter().all(|l| *l == dor_levels[0]) {
                got.push(dor_levels[0]);
            } else if status == "DataAvailable" && k_same_sub >= 2 {
                // DATA_ON_READERS callbacks in this window belong to the subscriber, not to one
                // reader: report them once (for the first reader of the subscriber) only
                if readers.iter().find(|r| r.1 == *hs && match r.3 { 2 => wr.2, 3 => wr.3, _ => wr.4 }).map(|r| r.0) == Some(*h) {
                    got.extend(dor_levels);
                }
            } else {
                got.extend(dor_levels);
            }
            j.occurrence(
                status,
                true,
                exp,
                &got,
                &format!("arrival of sample #{wi} at {name} (callbacks seen: {:?})", got_kinds),
                false,
            );
        }
    }
    let fired: Vec<String> = j.fired.iter().cloned().collect();
    drop(j);
    // evidence
    for c in &o.cbs {
        rep.stat(&format!("callbacks_at_{}", level_name(c.level, c.side == 1)), 1);
        rep.stat(&format!("callbacks_{}", kind_name(c.kind)), 1);
    }
    rep.stat("writes", o.writes.len() as i128);
    rep.stat("samples_rejected(model)", o.n_rejected as i128);
    let cfg = Json::obj()
        .set("a", vec![lm_json(&p.a_dp), lm_json(&p.a_pub), lm_json(&p.a_w)])
        .set("b", vec![lm_json(&p.b_dp), lm_json(&p.b_sub), lm_json(&p.b_r)])
        .set("r2", p.r2.as_ref().map(lm_json))
        .set("r3", p.r3.as_ref().map(lm_json))
        .set("nil", p.nil_levels.iter().map(|x| Json::from(*x as i64)).collect::<Vec<_>>())
        .set("rbad", p.rbad.as_ref().map(lm_json))
        .set("f", vec![p.deadline, p.limit]);
    let mut h = vcore::fnv_str(&cfg.to_string());
    h = vcore::mix(h, vcore::fnv_str(&fired.join(";")));
    let _ = poll_hash;
    if !o.cbs.is_empty() || !fired.is_empty() {
        rep.nontrivial(h);
    }
    if case < 64 {
        rep.sample(
            Json::obj()
                .set("case", case)
                .set("params", p.to_json())
                .set("callbacks", o.cbs.len())
                .set("violations", fired),
        );
    }
}

pub fn run(shard: &Shard) -> Report {
    let mut rep = Report::new("C33");
    let thorough = shard.tier == "thorough";
    let trace = shard.args.has("trace");
    for case in shard.my_cases() {
        let cs = shard.case_seed(case);
        let mut rng = Rng::new(cs);
        let p = gen_params(&mut rng, thorough);
        if trace {
            eprintln!("case {case}: {}", p.to_json().to_string());
        }
        let mut cfg = WorldConfig::default();
        cfg.sim.seed = cs;
        cfg.sim.policy = p.policy;
        cfg.sim.clock_tick = p.clock_tick;
        cfg.sim.jitter_max = p.jitter;
        cfg.sim.max_polls = shard.args.u64("max-polls", 600_000);
        let p2 = p.clone();
        let (res, stats, _net) = run_world(&cfg, move |w| scenario(w, p2));
        rep.eval();
        let replay = shard.base_replay("c33", case).set("engine", "scen_stat").set("params", p.to_json());
        let panicked = report_panics(&mut rep, &stats, &replay);
        let Some(o) = res else {
            if trace {
                eprintln!("  unfinished: stop={:?} polls={} worker_polls={} end=+{} us timer_tail={:?}", stats.stop, stats.polls, stats.worker_polls, (stats.end_ns - EPOCH_NS) / 1000,
                    stats.timer_tail.iter().map(|(t, d)| ((t - EPOCH_NS) / 1000, *d)).collect::<Vec<_>>());
            }
            if !panicked {
                rep.inconclusive(format!("case {case}: scenario did not finish ({:?})", stats.stop));
            }
            continue;
        };
        if !o.matched {
            if !panicked {
                rep.inconclusive(format!("case {case}: endpoints did not match within 20 s"));
            }
            continue;
        }
        if let Some(e) = &o.api_error {
            if !panicked {
                rep.inconclusive(format!("case {case}: {e}"));
            }
            continue;
        }
        if trace {
            eprintln!(
                "  pubmatched={} submatched={}/{} odm={} rejected={} witnesses w_incompat={} rbad={} rej={}",
                o.pub_matched_total, o.sub_matched_total_r, o.sub_matched_total_r2, o.odm_total, o.n_rejected, o.w_incompat_witness, o.rbad_incompat_witness, o.rejected_witness
            );
            for (i, wr) in o.writes.iter().enumerate() {
                eprintln!("  write #{i} at {:.3} ms arrived R={} R2={}", (wr.0 - EPOCH_NS) as f64 / 1e6, wr.2, wr.3);
            }
            for c in o.cbs.iter().take(shard.args.u64("tail", 60) as usize) {
                eprintln!(
                    "  cb {:.3} ms {} level={} entity={} total={}",
                    (c.t - EPOCH_NS) as f64 / 1e6,
                    kind_name(c.kind),
                    level_name(c.level, c.side == 1),
                    vcore::hex(&c.entity[12..]),
                    c.total
                );
            }
        }
        evaluate(&mut rep, &p, &o, &replay, stats.poll_hash, case);
    }
    rep
}
