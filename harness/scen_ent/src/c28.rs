//! C28: writer instance-management contract (register / unregister / dispose / write / lookup).
//!
//! A share of the keyed writers has a finite RESOURCE_LIMITS max_instances (1-4) and more key values than slots.
//! Slot model (DDS 1.4 2.2.3.19, 2.2.2.4.2.5, 2.2.2.4.2.11): an operation on a REGISTERED instance needs no new
//! slot, so it behaves exactly as below the limit (register_instance idempotent, same handle). An operation that
//! needs a slot (register/write of a key that is not registered) must succeed while fewer than max_instances other
//! keys can possibly hold a slot, and must fail with OutOfResources (or Timeout, which the specification allows for
//! a reliable writer) changing nothing once max_instances OTHER keys are registered. In between (slots possibly
//! still held by unregistered instances - the specification lets the service reclaim them at unregister_instance
//! but does not say when) both outcomes are accepted and the model follows the outcome.
use crate::common::*;
use crate::util::*;
use dust_dds::dds_async::data_writer::DataWriterAsync;
use dust_dds::infrastructure::instance::InstanceHandle;
use dust_dds::infrastructure::listener::NO_LISTENER;
use dust_dds::infrastructure::qos::{DataWriterQos, PublisherQos, QosKind};
use dust_dds::infrastructure::qos_policy::{EntityFactoryQosPolicy, Length, ResourceLimitsQosPolicy};
use dust_dds::infrastructure::status::NO_STATUS;
use simnet::*;
use std::collections::{BTreeMap, BTreeSet};
use vcore::{Json, Report, Rng};

#[derive(Clone, Copy, Debug, PartialEq, Eq)]
enum K {
    Register,
    Unregister,
    Dispose,
    Write,
    Lookup,
    Enable,
}

#[derive(Clone, Debug)]
struct Op {
    /// writer index
    w: usize,
    k: K,
    key: u32,
    /// `Some(offset in ms from now)`: the `_w_timestamp` variant
    ts: Option<i64>,
    /// pass the handle learnt from register/lookup instead of None (write/dispose/unregister)
    with_handle: bool,
}

impl Op {
    fn name(&self) -> String {
        let base = match self.k {
            K::Register => "register_instance",
            K::Unregister => "unregister_instance",
            K::Dispose => "dispose",
            K::Write => "write",
            K::Lookup => "lookup_instance",
            K::Enable => "enable",
        };
        if self.ts.is_some() { format!("{base}_w_timestamp") } else { base.to_string() }
    }
    fn show(&self) -> String {
        match self.k {
            K::Enable => format!("w{}.enable()", self.w),
            _ => format!(
                "w{}.{}(key={}{}{})",
                self.w,
                self.name(),
                self.key,
                if self.with_handle && matches!(self.k, K::Unregister | K::Dispose | K::Write) { ",handle=as_returned_by_register/lookup" } else { "" },
                match self.ts {
                    Some(o) => format!(",ts=now{o:+}ms"),
                    None => String::new(),
                }
            ),
        }
    }
}

#[derive(Clone, Copy, Debug, PartialEq, Eq)]
enum St {
    Never,
    Registered,
    Unregistered,
    /// the documentation does not settle whether the instance is registered now
    Uncertain,
}
impl St {
    fn name(self) -> &'static str {
        match self {
            St::Never => "never",
            St::Registered => "registered",
            St::Unregistered => "unregistered",
            St::Uncertain => "unsettled",
        }
    }
}

#[derive(Clone)]
enum W {
    Keyed(DataWriterAsync<Msg>),
    Keyless(DataWriterAsync<Plain>),
}

#[derive(Clone, Debug)]
struct WSpec {
    keyed: bool,
    enabled: bool,
    /// RESOURCE_LIMITS max_instances of the writer (None = unlimited, the default)
    max_instances: Option<u32>,
}

struct Model {
    keyed: bool,
    enabled: bool,
    st: BTreeMap<u32, St>,
    handle: BTreeMap<u32, InstanceHandle>,
    max_instances: Option<usize>,
    reached_limit: bool,
}

/// what the slot model says about an operation that may need an instance slot
#[derive(Clone, Copy, Debug, PartialEq, Eq)]
enum Slot {
    /// unlimited writer, or the instance is registered (holds its slot), or there is room whatever the service does with unregistered instances
    MustSucceed,
    /// max_instances other instances are registered: no slot can be free
    MustFail,
    /// slots possibly held by unregistered / unsettled instances: the specification allows either outcome
    Either,
}

impl Model {
    /// (slot verdict for an operation on `key` that registers it, at_limit)
    fn slot(&self, key: u32) -> (Slot, bool) {
        let Some(n) = self.max_instances else { return (Slot::MustSucceed, false) };
        let me = self.st.get(&key).cloned().unwrap_or(St::Never);
        let others_registered = self.st.iter().filter(|(k, s)| **k != key && **s == St::Registered).count();
        let others_possible = self.st.iter().filter(|(k, s)| **k != key && **s != St::Never).count();
        let at_limit = others_possible + usize::from(me != St::Never) >= n;
        let v = if me == St::Registered || others_possible < n {
            Slot::MustSucceed
        } else if others_registered >= n && me != St::Uncertain {
            Slot::MustFail
        } else {
            Slot::Either
        };
        (v, at_limit)
    }
}

#[derive(Default, Clone)]
struct Outcome {
    findings: Vec<Finding>,
    shapes: Vec<String>,
    results: BTreeSet<String>,
    ops_done: BTreeMap<String, u64>,
    checks: u64,
    handles_compared: u64,
    /// operations on a keyed, enabled, limited writer executed while max_instances keys (possibly) hold a slot
    ops_at_limit: u64,
    /// ... of these judged by the oracle
    checks_at_limit: u64,
    /// (a) known instance at the limit judged like below the limit, (b) new instance refused, (c) slot reuse after unregister (either outcome accepted)
    at_limit_known: u64,
    at_limit_new_refused: u64,
    slot_reuse_granted: u64,
    slot_reuse_refused: u64,
    writers_reaching_limit: u64,
    aborted_at: Option<usize>,
    panic_op: Option<String>,
}

/// result of one instance operation, normalised
enum R {
    Handle(Option<InstanceHandle>),
    Unit,
}

async fn scenario(w: World, specs: Vec<WSpec>, ops: Vec<Op>) -> Outcome {
    let sim = w.sim.clone();
    let mut out = Outcome::default();
    macro_rules! setup {
        ($e:expr) => {
            match call(&sim, $e).await {
                Out::Ok(v) => v,
                _ => {
                    out.aborted_at = Some(0);
                    return out;
                }
            }
        };
    }
    let dp = setup!(w.factory.create_participant(0, QosKind::Default, NO_LISTENER, NO_STATUS));
    let pub_on = setup!(dp.create_publisher(QosKind::Default, NO_LISTENER, NO_STATUS));
    let pub_off = setup!(dp.create_publisher(
        QosKind::Specific(PublisherQos {
            entity_factory: EntityFactoryQosPolicy { autoenable_created_entities: false },
            ..Default::default()
        }),
        NO_LISTENER,
        NO_STATUS
    ));
    let tk = setup!(dp.create_topic::<Msg>("Keyed", "Msg", QosKind::Default, NO_LISTENER, NO_STATUS));
    let tp = setup!(dp.create_topic::<Plain>("Keyless", "Plain", QosKind::Default, NO_LISTENER, NO_STATUS));
    let mut ws: Vec<W> = Vec::new();
    let mut ms: Vec<Model> = Vec::new();
    for s in &specs {
        let p = if s.enabled { &pub_on } else { &pub_off };
        if s.keyed {
            let qos = match s.max_instances {
                Some(n) => QosKind::Specific(DataWriterQos {
                    resource_limits: ResourceLimitsQosPolicy {
                        max_samples: Length::Unlimited,
                        max_instances: Length::Limited(n as i32),
                        max_samples_per_instance: Length::Unlimited,
                    },
                    ..Default::default()
                }),
                None => QosKind::Default,
            };
            ws.push(W::Keyed(setup!(p.create_datawriter::<Msg>(&tk, qos, NO_LISTENER, NO_STATUS))));
        } else {
            ws.push(W::Keyless(setup!(p.create_datawriter::<Plain>(&tp, QosKind::Default, NO_LISTENER, NO_STATUS))));
        }
        ms.push(Model {
            keyed: s.keyed,
            enabled: s.enabled,
            st: BTreeMap::new(),
            handle: BTreeMap::new(),
            max_instances: if s.keyed { s.max_instances.map(|n| n as usize) } else { None },
            reached_limit: false,
        });
    }

    let mut seq = 0u32;
    for (step, op) in ops.iter().enumerate() {
        if op.w >= ws.len() {
            continue;
        }
        let m = &mut ms[op.w];
        let opname = op.name();
        *out.ops_done.entry(opname.clone()).or_default() += 1;
        seq += 1;
        let ts = op.ts.map(|o| ns_to_time(sim.now() + o * MS));
        let st = m.st.get(&op.key).cloned().unwrap_or(St::Never);
        let known = m.handle.get(&op.key).cloned();
        let h = if op.with_handle { known } else { None };
        let r: Out<R> = match (&ws[op.w], op.k) {
            (W::Keyed(x), K::Enable) => call(&sim, x.enable()).await.map(|_| R::Unit),
            (W::Keyless(x), K::Enable) => call(&sim, x.enable()).await.map(|_| R::Unit),
            (W::Keyed(x), K::Register) => match ts {
                Some(t) => call(&sim, x.register_instance_w_timestamp(msg(op.key, 1, seq, 4), t)).await.map(R::Handle),
                None => call(&sim, x.register_instance(msg(op.key, 1, seq, 4))).await.map(R::Handle),
            },
            (W::Keyless(x), K::Register) => match ts {
                Some(t) => call(&sim, x.register_instance_w_timestamp(plain(seq), t)).await.map(R::Handle),
                None => call(&sim, x.register_instance(plain(seq))).await.map(R::Handle),
            },
            (W::Keyed(x), K::Unregister) => match ts {
                Some(t) => call(&sim, x.unregister_instance_w_timestamp(msg(op.key, 1, seq, 4), h, t)).await.map(|_| R::Unit),
                None => call(&sim, x.unregister_instance(msg(op.key, 1, seq, 4), h)).await.map(|_| R::Unit),
            },
            (W::Keyless(x), K::Unregister) => match ts {
                Some(t) => call(&sim, x.unregister_instance_w_timestamp(plain(seq), None, t)).await.map(|_| R::Unit),
                None => call(&sim, x.unregister_instance(plain(seq), None)).await.map(|_| R::Unit),
            },
            (W::Keyed(x), K::Dispose) => match ts {
                Some(t) => call(&sim, x.dispose_w_timestamp(msg(op.key, 1, seq, 4), h, t)).await.map(|_| R::Unit),
                None => call(&sim, x.dispose(msg(op.key, 1, seq, 4), h)).await.map(|_| R::Unit),
            },
            (W::Keyless(x), K::Dispose) => match ts {
                Some(t) => call(&sim, x.dispose_w_timestamp(plain(seq), None, t)).await.map(|_| R::Unit),
                None => call(&sim, x.dispose(plain(seq), None)).await.map(|_| R::Unit),
            },
            (W::Keyed(x), K::Write) => match ts {
                Some(t) => call(&sim, x.write_w_timestamp(msg(op.key, 1, seq, 16), h, t)).await.map(|_| R::Unit),
                None => call(&sim, x.write(msg(op.key, 1, seq, 16), h)).await.map(|_| R::Unit),
            },
            (W::Keyless(x), K::Write) => match ts {
                Some(t) => call(&sim, x.write_w_timestamp(plain(seq), None, t)).await.map(|_| R::Unit),
                None => call(&sim, x.write(plain(seq), None)).await.map(|_| R::Unit),
            },
            (W::Keyed(x), K::Lookup) => call(&sim, x.lookup_instance(msg(op.key, 1, seq, 4))).await.map(R::Handle),
            (W::Keyless(x), K::Lookup) => call(&sim, x.lookup_instance(plain(seq))).await.map(R::Handle),
        };
        match &r {
            Out::Hang => {
                out.findings.push(Finding {
                    sig: format!("hang|op={opname}"),
                    what: format!("{} did not return within 5 s of virtual time", op.show()),
                    step,
                });
                out.aborted_at = Some(step);
                return out;
            }
            Out::Dead => {
                out.panic_op = Some(opname);
                out.aborted_at = Some(step);
                return out;
            }
            _ => {}
        }
        let got = match &r {
            Out::Ok(R::Handle(Some(_))) => "Some(handle)".to_string(),
            Out::Ok(R::Handle(None)) => "None".to_string(),
            Out::Ok(R::Unit) => "Ok".to_string(),
            o => o.name(),
        };
        let ty = if m.keyed { "keyed" } else { "keyless" };
        let en = yn(m.enabled);
        let inst = if m.keyed && m.enabled && op.k != K::Enable { st.name() } else { "n/a" };
        // slot model: only for keyed, enabled writers with a finite max_instances
        let limited = m.keyed && m.enabled && m.max_instances.is_some() && op.k != K::Enable;
        let (slot, at_limit) = if limited { m.slot(op.key) } else { (Slot::MustSucceed, false) };
        let nmax = m.max_instances.unwrap_or(0);
        // signatures of unlimited writers stay as they were; limited writers carry at_limit=yes|no (never the value of max_instances)
        let lim = if limited { format!("at_limit={}|", if at_limit { "yes" } else { "no" }) } else { String::new() };
        if limited && at_limit {
            out.ops_at_limit += 1;
            if !m.reached_limit {
                m.reached_limit = true;
                out.writers_reaching_limit += 1;
            }
        }
        let checks_before = out.checks;
        out.results.insert(format!("{opname}[{ty},enabled={en},{lim}inst={inst}]:{got}"));
        out.shapes.push(format!("{}{}{}{}{}{}>{}", opname, ty, en, lim, inst, yn(op.with_handle && known.is_some()), got));
        let base_op = opname.trim_end_matches("_w_timestamp").to_string();
        let mut flag = |expected: &str, got: &str, detail: String| {
            out.findings.push(Finding {
                // the _w_timestamp variants share the implementation: same signature
                sig: format!("op={base_op}|type={ty}|enabled={en}|{lim}inst={inst}|expected={expected}|got={got}"),
                what: format!("{}: expected {expected}, got {got} ({detail})", op.show()),
                step,
            });
        };
        if op.k == K::Enable {
            if r.is_ok() {
                m.enabled = true;
            }
            continue;
        }
        // --- every operation on a not-yet-enabled writer fails with NotEnabled
        if !m.enabled {
            out.checks += 1;
            if got != "NotEnabled" {
                flag("NotEnabled", &got, "the writer has not been enabled".into());
            }
            continue;
        }
        // --- instance operations on a keyless type fail with IllegalOperation
        if !m.keyed {
            match op.k {
                K::Register | K::Unregister | K::Dispose => {
                    out.checks += 1;
                    if got != "IllegalOperation" {
                        flag("IllegalOperation", &got, "the topic type has no key".into());
                    }
                }
                // write must work; lookup_instance on a keyless type: not settled by the text
                _ => {}
            }
            continue;
        }
        // --- keyed, enabled
        match op.k {
            K::Register => {
                out.checks += 1;
                // a reliable writer may also answer Timeout where it may answer OutOfResources (DDS 1.4 2.2.2.4.2.11)
                let refused = got == "OutOfResources" || got == "Timeout";
                match &r {
                    Out::Ok(R::Handle(Some(h))) => {
                        if slot == Slot::MustFail {
                            flag("OutOfResources", "Some(handle)", format!("max_instances={nmax} and {nmax} other instances are registered: there is no slot for key {}", op.key));
                        }
                        if slot == Slot::Either {
                            out.slot_reuse_granted += 1;
                        }
                        out.handles_compared += 1;
                        if let Some(prev) = known {
                            if prev != *h {
                                flag("same_handle_as_before", "different_handle", format!("key {} had handle {:?}, now {:?}", op.key, prev, h));
                            }
                        }
                        if let Some((k2, _)) = m.handle.iter().find(|(k2, h2)| **k2 != op.key && *h2 == h) {
                            flag("handle_distinct_per_key", "handle_of_other_key", format!("key {} got the handle of key {}", op.key, k2));
                        }
                        m.handle.entry(op.key).or_insert(*h);
                        m.st.insert(op.key, St::Registered);
                    }
                    // legitimate refusal: nothing changes (the model state of the key stays as it is)
                    _ if refused && slot == Slot::MustFail => out.at_limit_new_refused += 1,
                    _ if refused && slot == Slot::Either => out.slot_reuse_refused += 1,
                    Out::Ok(_) => {
                        flag("Some(handle)", &got, "register_instance returns the handle of the sample's key".into());
                        m.st.insert(op.key, St::Uncertain);
                    }
                    _ => {
                        match slot {
                            Slot::MustSucceed if limited => flag(
                                "Some(handle)",
                                &got,
                                if st == St::Registered {
                                    format!("max_instances={nmax}: key {} is registered already, re-registering it needs no new slot (register_instance is idempotent)", op.key)
                                } else {
                                    format!("max_instances={nmax}: fewer than {nmax} other instances were ever registered or written, a slot is free for key {}", op.key)
                                },
                            ),
                            Slot::MustSucceed => flag("Some(handle)", &got, "default resource limits: registration cannot run out of resources".into()),
                            Slot::MustFail => flag("OutOfResources", &got, format!("max_instances={nmax} and {nmax} other instances are registered")),
                            Slot::Either => flag("Some(handle)_or_OutOfResources", &got, format!("max_instances={nmax}, slots possibly held by unregistered instances")),
                        }
                        m.st.insert(op.key, St::Uncertain);
                    }
                }
            }
            K::Lookup => match st {
                St::Registered => {
                    out.checks += 1;
                    match &r {
                        Out::Ok(R::Handle(Some(h))) => {
                            out.handles_compared += 1;
                            if let Some(prev) = known {
                                if prev != *h {
                                    flag("handle_returned_by_register", "different_handle", format!("key {}: register/lookup returned {:?} before, lookup now {:?}", op.key, prev, h));
                                }
                            }
                            if let Some((k2, _)) = m.handle.iter().find(|(k2, h2)| **k2 != op.key && *h2 == h) {
                                flag("handle_distinct_per_key", "handle_of_other_key", format!("key {} got the handle of key {}", op.key, k2));
                            }
                            m.handle.entry(op.key).or_insert(*h);
                        }
                        _ => flag("Some(handle)", &got, format!("key {} is registered", op.key)),
                    }
                }
                St::Never | St::Unregistered => {
                    out.checks += 1;
                    if got != "None" {
                        flag("None", &got, format!("key {} is not registered ({})", op.key, st.name()));
                    }
                }
                St::Uncertain => {}
            },
            K::Unregister => match st {
                St::Registered => {
                    // not demanded by the text, but the model follows the outcome
                    if r.is_ok() {
                        m.st.insert(op.key, St::Unregistered);
                    } else {
                        m.st.insert(op.key, St::Uncertain);
                    }
                }
                St::Never | St::Unregistered => {
                    out.checks += 1;
                    if got != "BadParameter" {
                        flag("BadParameter", &got, format!("key {} is not registered ({})", op.key, st.name()));
                    }
                    if r.is_ok() {
                        m.st.insert(op.key, St::Unregistered);
                    }
                }
                St::Uncertain => {
                    if r.is_ok() {
                        m.st.insert(op.key, St::Unregistered);
                    }
                }
            },
            K::Dispose => match st {
                St::Never => {
                    out.checks += 1;
                    if got != "BadParameter" {
                        flag("BadParameter", &got, format!("key {} was never registered nor written", op.key));
                    }
                    if r.is_ok() {
                        m.st.insert(op.key, St::Uncertain);
                    }
                }
                St::Registered => {}
                // API doc: after unregister the application may dispose again passing handle None
                St::Unregistered | St::Uncertain => {
                    if r.is_ok() {
                        m.st.insert(op.key, St::Uncertain);
                    }
                }
            },
            K::Write => {
                // per DDS (and the API doc) a write of an unregistered key registers it implicitly
                let refused = got == "OutOfResources" || got == "Timeout";
                if limited && slot != Slot::Either {
                    out.checks += 1;
                }
                if r.is_ok() {
                    if slot == Slot::MustFail {
                        flag("OutOfResources", "Ok", format!("max_instances={nmax} and {nmax} other instances are registered: there is no slot for key {}", op.key));
                    }
                    if slot == Slot::Either {
                        out.slot_reuse_granted += 1;
                    }
                    m.st.insert(op.key, St::Registered);
                } else if refused && slot == Slot::MustFail {
                    // legitimate refusal: nothing changes
                    out.at_limit_new_refused += 1;
                } else if refused && slot == Slot::Either {
                    out.slot_reuse_refused += 1;
                } else {
                    // the result of write is otherwise not judged (property text); with unlimited sample limits and no new
                    // instance needed it can however not run out of resources
                    if limited && got == "OutOfResources" {
                        flag("Ok", &got, format!("max_instances={nmax}: key {} needs no new slot or a slot is free; max_samples and max_samples_per_instance are unlimited", op.key));
                    }
                    m.st.insert(op.key, St::Uncertain);
                }
            }
            K::Enable => {}
        }
        if limited && at_limit && out.checks > checks_before {
            out.checks_at_limit += out.checks - checks_before;
            if st == St::Registered {
                out.at_limit_known += 1;
            }
        }
    }
    out
}

fn plain(seq: u32) -> Plain {
    Plain { writer: 1, seq, payload: vec![1, 2, 3] }
}

// ------------------------------------------------------------------------------------------

fn gen_case(rng: &mut Rng, thorough: bool) -> (Vec<WSpec>, Vec<Op>) {
    let mut specs = vec![WSpec { keyed: rng.chance(0.7), enabled: rng.chance(0.6), max_instances: None }];
    if rng.chance(0.5) {
        specs.push(WSpec { keyed: !specs[0].keyed || rng.chance(0.3), enabled: rng.chance(0.5), max_instances: None });
    }
    // half of the keyed writers get a finite RESOURCE_LIMITS max_instances of 1-4
    for s in specs.iter_mut() {
        if s.keyed && rng.chance(0.5) {
            s.max_instances = Some(1 + rng.below(4) as u32);
        }
    }
    let nkeys = match specs.iter().filter_map(|s| s.max_instances).max() {
        // as many keys as slots, or up to two more (new instances at the limit)
        Some(n) => (n + rng.below(3) as u32).max(2),
        None => 1 + rng.below(4) as u32,
    };
    let n = 8 + rng.usize(if thorough { 60 } else { 30 });
    let mut ops = Vec::new();
    let mut enabled: Vec<bool> = specs.iter().map(|s| s.enabled).collect();
    for _ in 0..n {
        let w = rng.usize(specs.len());
        let k = if !enabled[w] && rng.chance(0.15) {
            enabled[w] = true;
            K::Enable
        } else {
            *rng.pick(&[K::Register, K::Register, K::Unregister, K::Unregister, K::Dispose, K::Write, K::Lookup, K::Lookup, K::Lookup])
        };
        ops.push(Op {
            w,
            k,
            key: rng.below(nkeys as u64) as u32,
            ts: if k != K::Lookup && k != K::Enable && rng.chance(0.35) { Some(*rng.pick(&[0i64, -1000, 1000, -3_600_000, 5])) } else { None },
            with_handle: rng.chance(0.3),
        });
    }
    // limited writers: in 60 % of the cases the history starts (after the enable, if there is one) by filling
    // most or all of the slots, so that the rest of the history runs at the limit
    for (w, s) in specs.iter().enumerate() {
        let Some(n) = s.max_instances else { continue };
        if !rng.chance(0.6) {
            continue;
        }
        let at = if s.enabled { 0 } else { ops.iter().position(|o| o.w == w && o.k == K::Enable).map(|p| p + 1).unwrap_or(0) };
        let mut keys: Vec<u32> = (0..nkeys).collect();
        rng.shuffle(&mut keys);
        let fill = if rng.chance(0.8) { n.min(nkeys) } else { n.min(nkeys).saturating_sub(1) };
        for (i, key) in keys.into_iter().take(fill as usize).enumerate() {
            let k = if rng.chance(0.7) { K::Register } else { K::Write };
            ops.insert(at + i, Op { w, k, key, ts: if rng.chance(0.2) { Some(0) } else { None }, with_handle: false });
        }
    }
    (specs, ops)
}

fn run_ops(cs: u64, specs: &[WSpec], ops: &[Op], policy: Policy) -> (Option<Outcome>, RunStats) {
    let mut cfg = WorldConfig::default();
    cfg.sim.seed = cs;
    cfg.sim.policy = policy;
    cfg.sim.max_polls = 2_000_000;
    let (s2, o2) = (specs.to_vec(), ops.to_vec());
    let (res, stats, _net) = run_world(&cfg, move |w| scenario(w, s2, o2));
    (res, stats)
}

fn sigs_of(res: &Option<Outcome>, stats: &RunStats) -> Vec<(String, String, usize)> {
    let mut v: Vec<(String, String, usize)> = Vec::new();
    let panics = dds_panics(stats);
    let op = res.as_ref().and_then(|o| o.panic_op.clone()).unwrap_or_else(|| "idle".into());
    for p in &panics {
        v.push((panic_sig(p, &op), format!("DDS {:?} task panicked at {} during {}: {}", p.task, p.location, op, p.msg), res.as_ref().and_then(|o| o.aborted_at).unwrap_or(usize::MAX)));
    }
    if let Some(o) = res {
        for f in &o.findings {
            if f.sig.starts_with("hang|") && !panics.is_empty() {
                continue;
            }
            v.push((f.sig.clone(), f.what.clone(), f.step));
        }
    }
    v
}

fn specs_json(specs: &[WSpec]) -> Json {
    Json::Arr(
        specs
            .iter()
            .enumerate()
            .map(|(i, s)| {
                Json::Str(format!(
                    "w{i}: {} type, created {}{}",
                    if s.keyed { "keyed (Msg)" } else { "keyless (Plain)" },
                    if s.enabled { "enabled" } else { "not enabled" },
                    match s.max_instances {
                        Some(n) if s.keyed => format!(", resource_limits.max_instances={n}"),
                        _ => String::new(),
                    }
                ))
            })
            .collect(),
    )
}
fn history_json(ops: &[Op]) -> Json {
    strs(&ops.iter().map(|o| o.show()).collect::<Vec<_>>())
}

pub fn run(shard: &Shard) -> Report {
    let mut rep = Report::new("C28");
    let tier = replay_tier(shard);
    let thorough = tier == "thorough";
    let trace = shard.args.has("trace");
    for case in shard.my_cases() {
        let cs = shard.case_seed(case);
        let mut rng = Rng::new(cs);
        let (specs, ops) = gen_case(&mut rng, thorough);
        let policy = pick_policy(&mut rng);
        if trace {
            eprintln!("case {case}: {} {}", specs_json(&specs).to_string(), history_json(&ops).to_string());
        }
        let (res, stats) = run_ops(cs, &specs, &ops, policy);
        rep.eval();
        let replay = shard
            .base_replay("c28", case)
            .set("engine", "scen_ent")
            .set("tier", tier.clone())
            .set("writers", specs_json(&specs))
            .set("history", history_json(&ops));
        let found = sigs_of(&res, &stats);
        for p in &stats.panics {
            if p.task == TaskKind::Local {
                rep.inconclusive(format!("case {case}: harness task panicked at {}: {}", p.location, p.msg));
            }
        }
        let mut done: Vec<String> = Vec::new();
        for (sig, what, at_step) in &found {
            if done.contains(sig) {
                continue;
            }
            done.push(sig.clone());
            let seen = rep.violation_counts.get(sig).cloned().unwrap_or(0);
            let mut r = replay.clone().set("violation", sig.clone());
            let mut what = what.clone();
            if seen < 1 {
                let mut budget = 200usize;
                let cut = (*at_step).min(ops.len() - 1);
                let min = ddmin(
                    ops[..=cut].to_vec(),
                    |cand: &[Op]| {
                        let (r, s) = run_ops(cs, &specs, cand, policy);
                        sigs_of(&r, &s).iter().any(|(x, _, _)| x == sig)
                    },
                    &mut budget,
                );
                let (r2, s2) = run_ops(cs, &specs, &min, policy);
                if let Some((_, w2, _)) = sigs_of(&r2, &s2).into_iter().find(|(x, _, _)| x == sig) {
                    what = w2;
                }
                what = format!("{what}; writers {}; minimal history: {}", specs_json(&specs).to_string(), history_json(&min).to_string());
                r = r.set("minimal_history", history_json(&min));
            }
            if sig.starts_with("panic|") {
                if let Some(p) = dds_panics(&stats).first() {
                    r = r.set("panic_location", p.location.clone());
                }
            }
            rep.violation(sig.clone(), what, r);
        }
        let Some(o) = res else {
            if found.is_empty() {
                rep.inconclusive(format!("case {case}: history did not finish ({:?})", stats.stop));
            }
            continue;
        };
        if o.aborted_at.is_some() && found.is_empty() {
            rep.inconclusive(format!("case {case}: history aborted at step {:?} without a finding", o.aborted_at));
        }
        for (k, v) in &o.ops_done {
            rep.stat(&format!("op_{k}"), *v as i128);
        }
        for r in &o.results {
            rep.set("errors", r.clone());
        }
        rep.stat("oracle_checks", o.checks as i128);
        rep.stat("handles_compared", o.handles_compared as i128);
        rep.stat("limited_writers", specs.iter().filter(|s| s.keyed && s.max_instances.is_some()).count() as i128);
        rep.stat("limited_writers_reaching_limit", o.writers_reaching_limit as i128);
        rep.stat("cases_reaching_limit", i128::from(o.writers_reaching_limit > 0));
        rep.stat("ops_at_limit", o.ops_at_limit as i128);
        rep.stat("oracle_checks_at_limit", o.checks_at_limit as i128);
        rep.stat("at_limit_known_instance_judged", o.at_limit_known as i128);
        rep.stat("at_limit_new_instance_refused", o.at_limit_new_refused as i128);
        rep.stat("slot_reuse_after_unregister_granted", o.slot_reuse_granted as i128);
        rep.stat("slot_reuse_after_unregister_refused", o.slot_reuse_refused as i128);
        rep.stat("polls", stats.polls as i128);
        if o.checks > 0 {
            rep.nontrivial(hash_strs(o.shapes.iter().map(|s| s.as_str())));
        }
        if case < 64 {
            rep.sample(
                Json::obj()
                    .set("case", case)
                    .set("writers", specs_json(&specs))
                    .set("history", history_json(&ops))
                    .set("observed", strs(&o.shapes))
                    .set("violations", strs(&found.iter().map(|x| x.0.clone()).collect::<Vec<_>>())),
            );
        }
    }
    rep
}
