//! Child-process supervision. dust-dds' deserializer can abort the process (allocation of a
//! mis-parsed length, stack exhaustion) even on bytes its own serializer produced, so checks that call
//! it run their cases in child processes (re-exec of this binary with `--child`). The child announces
//! every case in a journal file before running it; when the child dies the parent attributes the death
//! to the announced case, records it, and re-runs the chunk with that case on the skip list.
use crate::common::Cli;
use std::io::{Read, Seek, SeekFrom, Write};
use std::process::{Command, Stdio};
use std::time::{Duration, Instant};
use vcore::{Json, Report};

pub struct Journal {
    f: Option<std::fs::File>,
}

impl Journal {
    pub fn open(path: &str) -> Journal {
        if path.is_empty() {
            return Journal { f: None };
        }
        Journal {
            f: std::fs::OpenOptions::new().create(true).write(true).truncate(true).open(path).ok(),
        }
    }
    /// fixed-size record, overwritten in place
    pub fn announce(&mut self, unit: u64, sub: u64) {
        if let Some(f) = &mut self.f {
            let rec = format!("{:>20} {:>20}\n", unit, sub);
            let _ = f.seek(SeekFrom::Start(0));
            let _ = f.write_all(rec.as_bytes());
        }
    }
}

/// Child side: persist the report as of the start of `unit` (atomic rename), so the parent can keep
/// everything that finished before a death.
pub fn flush_partial(rep: &Report, out: &str, unit: u64) {
    if out.is_empty() || out == "-" {
        return;
    }
    let tmp = format!("{}.tmp", out);
    let j = rep.to_json().set("partial_up_to_unit", unit);
    if std::fs::write(&tmp, j.to_string()).is_ok() {
        let _ = std::fs::rename(&tmp, out);
    }
}

fn read_journal(path: &str) -> Option<(u64, u64)> {
    let mut s = String::new();
    std::fs::File::open(path).ok()?.read_to_string(&mut s).ok()?;
    let mut it = s.split_whitespace();
    let u = it.next()?.parse().ok()?;
    let c = it.next()?.parse().ok()?;
    Some((u, c))
}

fn cpu_seconds(pid: u32) -> Option<f64> {
    let s = std::fs::read_to_string(format!("/proc/{}/stat", pid)).ok()?;
    let rest = &s[s.rfind(')')? + 2..];
    let f: Vec<&str> = rest.split_whitespace().collect();
    // fields after "pid (comm)": state is index 0, utime index 11, stime index 12
    let ut: f64 = f.get(11)?.parse().ok()?;
    let st: f64 = f.get(12)?.parse().ok()?;
    Some((ut + st) / 100.0)
}

pub fn merge_report(into: &mut Report, j: &Json) {
    into.evaluations += j.get("evaluations").and_then(|x| x.as_u64()).unwrap_or(0);
    if let Some(a) = j.get("nontrivial").and_then(|x| x.as_arr()) {
        for h in a {
            if let Some(s) = h.as_str() {
                if let Ok(x) = u64::from_str_radix(s, 16) {
                    into.nontrivial(x);
                }
            }
        }
    }
    if let Some(a) = j.get("violations").and_then(|x| x.as_arr()) {
        for v in a {
            let sig = v.get("sig").and_then(|x| x.as_str()).unwrap_or("").to_string();
            let have = into.violations.iter().filter(|x| x.sig == sig).count();
            if have < 3 {
                into.violations.push(vcore::Violation {
                    sig,
                    what: v.get("what").and_then(|x| x.as_str()).unwrap_or("").to_string(),
                    replay: v.get("replay").cloned().unwrap_or(Json::Null),
                });
            }
        }
    }
    if let Some(Json::Obj(m)) = j.get("violation_counts") {
        for (k, v) in m {
            *into.violation_counts.entry(k.clone()).or_insert(0) += v.as_u64().unwrap_or(0);
        }
    }
    if let Some(a) = j.get("samples").and_then(|x| x.as_arr()) {
        for s in a {
            into.sample(s.clone());
        }
    }
    if let Some(Json::Obj(m)) = j.get("stats") {
        for (k, v) in m {
            if let Json::Int(i) = v {
                into.stat(k, *i);
            }
        }
    }
    if let Some(Json::Obj(m)) = j.get("maxstats") {
        for (k, v) in m {
            if let Json::Int(i) = v {
                into.maxstat(k, *i);
            }
        }
    }
    if let Some(Json::Obj(m)) = j.get("sets") {
        for (k, v) in m {
            for s in v.as_arr().unwrap_or(&[]) {
                if let Some(s) = s.as_str() {
                    into.set(k, s);
                }
            }
        }
    }
    if let Some(a) = j.get("inconclusive").and_then(|x| x.as_arr()) {
        for s in a {
            if let Some(s) = s.as_str() {
                into.inconclusive(s);
            }
        }
    }
}

#[derive(Debug, Clone)]
pub enum Death {
    /// "memory allocation of N bytes failed"
    Alloc(String),
    Signal(i32, String),
    /// > 5 s CPU on one case
    Hang,
    /// wall-clock overrun without CPU overrun: inconclusive
    WallOnly,
    Exit(i32, String),
}

impl Death {
    pub fn class(&self) -> String {
        match self {
            Death::Alloc(_) => "abort:allocation_failed".into(),
            Death::Signal(s, _) => format!("abort:signal_{}", s),
            Death::Hang => "hang:cpu_over_5s".into(),
            Death::WallOnly => "wall".into(),
            Death::Exit(c, _) => format!("exit_{}", c),
        }
    }
    pub fn detail(&self) -> String {
        match self {
            Death::Alloc(s) | Death::Signal(_, s) | Death::Exit(_, s) => s.clone(),
            Death::Hang => "more than 5 s of CPU time on one case".into(),
            Death::WallOnly => "wall clock overrun".into(),
        }
    }
}

pub struct ChildResult {
    pub report: Option<Json>,
    pub death: Option<(Death, Option<(u64, u64)>)>,
}

/// Run one child: `xcdr <check> --child <extra...>`; journal/out/stderr files under `dir`.
pub fn run_child(check: &str, extra: &[String], dir: &str, tag: &str, wall_limit: Duration) -> ChildResult {
    let journal = format!("{}/{}.journal", dir, tag);
    let out = format!("{}/{}.out.json", dir, tag);
    let errf = format!("{}/{}.stderr", dir, tag);
    let _ = std::fs::remove_file(&journal);
    let _ = std::fs::remove_file(&out);
    let exe = std::env::current_exe().expect("current_exe");
    let stderr = std::fs::File::create(&errf).map(Stdio::from).unwrap_or(Stdio::null());
    let mut cmd = Command::new(exe);
    cmd.arg(check)
        .arg("--child")
        .args(extra)
        .arg("--journal")
        .arg(&journal)
        .arg("--out")
        .arg(&out)
        .env("RUST_BACKTRACE", "0")
        .stdin(Stdio::null())
        .stdout(Stdio::null())
        .stderr(stderr);
    let mut child = match cmd.spawn() {
        Ok(c) => c,
        Err(e) => {
            return ChildResult {
                report: None,
                death: Some((Death::Exit(-1, format!("spawn failed: {e}")), None)),
            };
        }
    };
    let pid = child.id();
    let t0 = Instant::now();
    let mut cur_case: Option<(u64, u64)> = None;
    let mut cpu_at_case = 0.0f64;
    let mut killed: Option<Death> = None;
    let status = loop {
        match child.try_wait() {
            Ok(Some(st)) => break Some(st),
            Ok(None) => {}
            Err(_) => break None,
        }
        std::thread::sleep(Duration::from_millis(if t0.elapsed() < Duration::from_millis(100) { 1 } else { 10 }));
        let j = read_journal(&journal);
        let cpu = cpu_seconds(pid).unwrap_or(0.0);
        if j != cur_case {
            cur_case = j;
            cpu_at_case = cpu;
        } else if cpu - cpu_at_case > 5.0 {
            let _ = child.kill();
            let _ = child.wait();
            killed = Some(Death::Hang);
            break None;
        }
        if t0.elapsed() > wall_limit {
            let _ = child.kill();
            let _ = child.wait();
            killed = Some(Death::WallOnly);
            break None;
        }
    };
    let stderr_txt = std::fs::read_to_string(&errf).unwrap_or_default();
    let tail: String = stderr_txt.lines().filter(|l| !l.trim().is_empty()).take(3).collect::<Vec<_>>().join(" | ");
    let report = std::fs::read_to_string(&out).ok().and_then(|s| Json::parse(&s).ok());
    let last = read_journal(&journal);
    if let Some(d) = killed {
        return ChildResult {
            report,
            death: Some((d, last)),
        };
    }
    match status {
        Some(st) if st.success() && report.is_some() => ChildResult { report, death: None },
        Some(st) => {
            use std::os::unix::process::ExitStatusExt;
            let d = if stderr_txt.contains("memory allocation of") {
                let line = stderr_txt.lines().find(|l| l.contains("memory allocation of")).unwrap_or("").to_string();
                Death::Alloc(line)
            } else if stderr_txt.contains("has overflowed its stack") {
                Death::Signal(st.signal().unwrap_or(0), "stack overflow".into())
            } else if let Some(sig) = st.signal() {
                Death::Signal(sig, tail)
            } else {
                Death::Exit(st.code().unwrap_or(-1), tail)
            };
            ChildResult {
                report,
                death: Some((d, last)),
            }
        }
        None => ChildResult {
            report: None,
            death: Some((Death::Exit(-1, "wait failed".into()), last)),
        },
    }
}

pub fn scratch_dir(cli: &Cli, check: &str) -> String {
    // next to the shard report (the runner's out dir); falls back to /verif/.build
    let base = std::path::Path::new(&cli.out)
        .parent()
        .map(|p| p.to_string_lossy().to_string())
        .filter(|s| !s.is_empty() && s != "-")
        .unwrap_or_else(|| "/verif/.build/out".to_string());
    let d = format!("{}/{}_shard{}_work", base, check, cli.shard);
    let _ = std::fs::create_dir_all(&d);
    d
}

/// Supervise `units` work units in chunks. `on_death(unit, sub, death, report)` lets the check turn a
/// dead case into a violation. Returns the merged report.
pub fn supervise(
    check: &str,
    cli: &Cli,
    rep: &mut Report,
    units: u64,
    chunk: u64,
    on_death: &mut dyn FnMut(u64, u64, &Death, &mut Report),
) {
    let dir = scratch_dir(cli, check);
    let mut from = 0u64;
    let mut chunk_no = 0u64;
    while from < units {
        let to = (from + chunk).min(units);
        let mut skip: Vec<(u64, u64)> = Vec::new();
        let mut attempts = 0;
        loop {
            attempts += 1;
            let skip_arg = skip.iter().map(|(u, s)| format!("{}:{}", u, s)).collect::<Vec<_>>().join(",");
            let extra: Vec<String> = vec![
                "--seed".into(),
                cli.seed.to_string(),
                "--shard".into(),
                cli.shard.to_string(),
                "--nshards".into(),
                cli.nshards.to_string(),
                "--tier".into(),
                cli.tier.clone(),
                "--cases".into(),
                cli.cases.to_string(),
                "--from".into(),
                from.to_string(),
                "--to".into(),
                to.to_string(),
                "--skip".into(),
                if skip_arg.is_empty() { "none".into() } else { skip_arg },
            ];
            let r = run_child(check, &extra, &dir, &format!("chunk{}", chunk_no), Duration::from_secs(240));
            rep.stat("children_spawned", 1);
            match r.death {
                None => {
                    if let Some(j) = r.report {
                        merge_report(rep, &j);
                    }
                    break;
                }
                Some((death, at)) => {
                    rep.stat("children_died", 1);
                    match (&death, at) {
                        (Death::WallOnly, _) => {
                            rep.inconclusive(format!("chunk {}..{}: wall-clock overrun without CPU overrun", from, to));
                            break;
                        }
                        (Death::Exit(c, s), _) => {
                            rep.inconclusive(format!("chunk {}..{}: child exit {} {}", from, to, c, s));
                            break;
                        }
                        (_, Some((u, s))) => {
                            if !skip.contains(&(u, s)) {
                                // keep what finished before the dying unit and resume there
                                if let Some(j) = &r.report {
                                    if let Some(upto) = j.get("partial_up_to_unit").and_then(|x| x.as_u64()) {
                                        if upto > from && upto <= u {
                                            merge_report(rep, j);
                                            from = upto;
                                            skip.retain(|(su, _)| *su >= from);
                                        }
                                    }
                                }
                                on_death(u, s, &death, rep);
                                skip.push((u, s));
                            } else {
                                rep.inconclusive(format!("child died twice on unit {} case {}", u, s));
                                break;
                            }
                        }
                        (_, None) => {
                            rep.inconclusive(format!("child died before announcing a case: {}", death.detail()));
                            break;
                        }
                    }
                    if attempts > 40 {
                        rep.inconclusive(format!("chunk {}..{}: more than 40 dead cases, chunk abandoned", from, to));
                        break;
                    }
                }
            }
        }
        from = to;
        chunk_no += 1;
    }
    let _ = std::fs::remove_dir_all(&dir);
}

pub fn parse_skip(s: &str) -> Vec<(u64, u64)> {
    let mut out = Vec::new();
    if s == "none" {
        return out;
    }
    for p in s.split(',') {
        if let Some((a, b)) = p.split_once(':') {
            if let (Ok(a), Ok(b)) = (a.parse(), b.parse()) {
                out.push((a, b));
            }
        }
    }
    out
}

/// Run a single probe case in a child: `xcdr <check> --child --probe <file>`; returns the outcome key
/// the child wrote, or the death class.
pub fn probe(check: &str, case: &Json, dir: &str) -> String {
    let f = format!("{}/probe.json", dir);
    if std::fs::write(&f, case.to_string()).is_err() {
        return "harness".into();
    }
    let r = run_child(check, &["--probe".into(), f], dir, "probe", Duration::from_secs(30));
    match r.death {
        None => r
            .report
            .and_then(|j| j.get("key").and_then(|x| x.as_str()).map(|s| s.to_string()))
            .unwrap_or_else(|| "harness".into()),
        Some((d, _)) => d.class(),
    }
}
