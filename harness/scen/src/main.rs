//! E1 scenario driver: `scen <scenario> --seed S --shard i --nshards n --cases N --tier T --out F`
mod acks;
mod cfilter;
mod common;
mod delivery;
mod durability;
mod fragdirect;
mod hostile;
mod hostilegen;
mod keeplast;
mod keyident;
mod lifespan;
mod oversleep;

use common::Shard;
use std::alloc::{GlobalAlloc, Layout, System};
use std::sync::atomic::{AtomicU64, Ordering};
use vcore::Args;

/// Counting allocator: total bytes requested, largest single request; optional hard cap on a
/// single request (set in the C06 child): exceeding it writes a marker with raw write(2) and aborts.
struct Counting;
static TOTAL: AtomicU64 = AtomicU64::new(0);
static MAX_SINGLE: AtomicU64 = AtomicU64::new(0);
static CAP: AtomicU64 = AtomicU64::new(0);

#[inline]
fn note(size: usize) {
    TOTAL.fetch_add(size as u64, Ordering::Relaxed);
    MAX_SINGLE.fetch_max(size as u64, Ordering::Relaxed);
    let cap = CAP.load(Ordering::Relaxed);
    if cap != 0 && size as u64 > cap {
        let msg = b"VERIF-ALLOC-CAP single allocation request above cap\n";
        unsafe {
            libc_write(2, msg.as_ptr(), msg.len());
        }
        std::process::abort();
    }
}
unsafe extern "C" {
    #[link_name = "write"]
    fn libc_write(fd: i32, buf: *const u8, n: usize) -> isize;
}
unsafe impl GlobalAlloc for Counting {
    unsafe fn alloc(&self, l: Layout) -> *mut u8 {
        note(l.size());
        unsafe { System.alloc(l) }
    }
    unsafe fn dealloc(&self, p: *mut u8, l: Layout) {
        unsafe { System.dealloc(p, l) }
    }
    unsafe fn alloc_zeroed(&self, l: Layout) -> *mut u8 {
        note(l.size());
        unsafe { System.alloc_zeroed(l) }
    }
    unsafe fn realloc(&self, p: *mut u8, l: Layout, new_size: usize) -> *mut u8 {
        if new_size > l.size() {
            note(new_size - l.size());
        }
        unsafe { System.realloc(p, l, new_size) }
    }
}
#[global_allocator]
static GLOBAL: Counting = Counting;

fn probe() -> (u64, u64) {
    (TOTAL.load(Ordering::Relaxed), MAX_SINGLE.load(Ordering::Relaxed))
}

fn main() {
    let args = Args::parse();
    let scenario = args.pos.first().cloned().unwrap_or_default();
    let shard = Shard::from_args(args);
    simnet::set_alloc_probe(probe);
    if !shard.out.is_empty() && shard.out != "-" && !shard.args.has("child") {
        simnet::hang::install(&scenario.to_uppercase(), &shard.out);
    }
    let rep = match scenario.as_str() {
        "c01" => delivery::run(&shard, "C01", delivery::Mode::Reliable),
        "c02" => delivery::run(&shard, "C02", delivery::Mode::BestEffort),
        "c03" => acks::run(&shard),
        "c04" => durability::run(&shard),
        "c05" => {
            // (a) direct micro-driver on all cases, (b) end-to-end on `--e2e` cases
            let mut rep = vcore::Report::new("C05");
            fragdirect::run(&shard, &mut rep);
            let e2e = shard.args.u64("e2e", 0);
            let mine: Vec<u64> = (0..e2e).filter(|c| c % shard.nshards == shard.shard).collect();
            let (rel, be): (Vec<u64>, Vec<u64>) = mine.into_iter().partition(|c| (c / shard.nshards) % 2 == 0);
            if shard.replay.is_none() {
                delivery::run_into(&shard, &mut rep, delivery::Mode::FragReliable, rel);
                delivery::run_into(&shard, &mut rep, delivery::Mode::FragBestEffort, be);
            }
            rep
        }
        "c06" => {
            if shard.args.has("child") {
                // a single request above 1 GiB is never attempted
                CAP.store(1 << 30, Ordering::Relaxed);
                hostile::run_child(&shard)
            } else {
                hostile::run_parent(&shard)
            }
        }
        "c11" => keyident::run(&shard),
        "c26" => cfilter::run(&shard),
        "c27" => keeplast::run(&shard),
        "c29" => lifespan::run(&shard),
        "c31" => oversleep::run(&shard),
        other => {
            eprintln!("unknown scenario {other}");
            std::process::exit(3);
        }
    };
    rep.write(&shard.out);
}
