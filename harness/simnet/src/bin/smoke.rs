use dust_dds::infrastructure::listener::NO_LISTENER;
use dust_dds::infrastructure::qos::{DataReaderQos, DataWriterQos, QosKind};
use dust_dds::infrastructure::qos_policy::*;
use dust_dds::infrastructure::sample_info::{ANY_INSTANCE_STATE, ANY_SAMPLE_STATE, ANY_VIEW_STATE};
use dust_dds::infrastructure::status::NO_STATUS;
use dust_dds::infrastructure::time::{Duration, DurationKind};
use dust_dds::infrastructure::type_support::DdsType;
use simnet::*;

#[derive(Debug, Clone, PartialEq, DdsType)]
struct Msg {
    #[dust_dds(key)]
    id: u32,
    seq: u32,
    data: Vec<u8>,
}

fn main() {
    let t0 = std::time::Instant::now();
    for seed in 0..20u64 {
        let mut cfg = WorldConfig::default();
        cfg.sim.seed = seed;
        cfg.sim.policy = if seed % 2 == 0 { Policy::Fifo } else { Policy::Random };
        cfg.fragment_size = 256;
        let (r, stats, net) = run_world(&cfg, |w| async move {
            let mut plan = FaultPlan::default();
            plan.until_ns = EPOCH_NS + 5 * SEC;
            plan.loss = 0.2;
            plan.delay = 0.2;
            plan.delay_max_ns = 300 * MS;
            w.net.set_policy(Some(plan.into_fn()));
            let p1 = w.factory.create_participant(0, QosKind::Default, NO_LISTENER, NO_STATUS).await.unwrap();
            let p2 = w.factory.create_participant(0, QosKind::Default, NO_LISTENER, NO_STATUS).await.unwrap();
            let t1 = p1.create_topic::<Msg>("T", "Msg", QosKind::Default, NO_LISTENER, NO_STATUS).await.unwrap();
            let t2 = p2.create_topic::<Msg>("T", "Msg", QosKind::Default, NO_LISTENER, NO_STATUS).await.unwrap();
            let pb = p1.create_publisher(QosKind::Default, NO_LISTENER, NO_STATUS).await.unwrap();
            let sb = p2.create_subscriber(QosKind::Default, NO_LISTENER, NO_STATUS).await.unwrap();
            let wq = DataWriterQos {
                reliability: ReliabilityQosPolicy { kind: ReliabilityQosPolicyKind::Reliable, max_blocking_time: DurationKind::Finite(Duration::new(1, 0)) },
                history: HistoryQosPolicy { kind: HistoryQosPolicyKind::KeepAll },
                ..Default::default()
            };
            let rq = DataReaderQos {
                reliability: ReliabilityQosPolicy { kind: ReliabilityQosPolicyKind::Reliable, max_blocking_time: DurationKind::Finite(Duration::new(1, 0)) },
                history: HistoryQosPolicy { kind: HistoryQosPolicyKind::KeepAll },
                ..Default::default()
            };
            let dw = pb.create_datawriter::<Msg>(&t1, QosKind::Specific(wq), NO_LISTENER, NO_STATUS).await.unwrap();
            let dr = sb.create_datareader::<Msg>(&t2, QosKind::Specific(rq), NO_LISTENER, NO_STATUS).await.unwrap();
            // wait for match
            let mut matched = false;
            for _ in 0..200 {
                if dw.get_publication_matched_status().await.unwrap().current_count > 0
                    && dr.get_subscription_matched_status().await.unwrap().current_count > 0 { matched = true; break; }
                w.sim.sleep(50 * MS).await;
            }
            let t_match = w.sim.elapsed(); eprintln!("matched={matched} at {}ms", t_match/MS);
            for i in 0..50u32 {
                let n = if i % 5 == 0 { 700 } else { 10 };
                dw.write(Msg { id: i % 3, seq: i, data: vec![i as u8; n] }, None).await.unwrap();
                w.sim.sleep(3 * MS).await;
            }
            eprintln!("written at {}ms", w.sim.elapsed()/MS);
            let mut got = Vec::new();
            for _ in 0..400 {
                if let Ok(s) = dr.take(1000, ANY_SAMPLE_STATE, ANY_VIEW_STATE, ANY_INSTANCE_STATE).await {
                    for x in s { got.push(x.data.unwrap().seq); }
                }
                if got.len() >= 50 { break; }
                w.sim.sleep(50 * MS).await;
            }
            (matched, t_match, got.len(), w.sim.elapsed())
        });
        let c = net.counters();
        println!("tail={:?}", stats.timer_tail.iter().map(|(a,b)|(a-EPOCH_NS,*b)).collect::<Vec<_>>()); println!("end_ns={} ", (stats.end_ns-EPOCH_NS)/MS); println!("seed {seed}: {:?} stop={:?} polls={} wpolls={} panics={} maxdelay={}ms maxgap={}ms net: sub={} deliv={} drop={} userdrop={}",
            r, stats.stop, stats.polls, stats.worker_polls, stats.panics.len(), stats.max_worker_delay / MS, stats.max_worker_gap / MS,
            c.submitted, c.delivered, c.dropped, c.user_dropped);
        for p in &stats.panics { println!("   PANIC {:?}", p); }
    }
    println!("wall {:?}", t0.elapsed());
}
