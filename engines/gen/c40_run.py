"""C40 orchestration: generate -> one cargo build per batch (many bins) -> run bins in parallel ->
oracle; compile errors are attributed to declarations through rustc's spans, the offending
declarations (and their dependents) are removed and the bin is rebuilt."""
import json, os, re, time

import common
from common import Rng, h64
import c40

ATTR_RE = re.compile(r"\b(name|extensibility|nested|key|id|hashid|optional|default_value|non_serialized|external|bit_bound|switch|case|default)\b")


def decl_seed(args, name):
    return int(h64("c40/%d/%s" % (args.seed, name)), 16) >> 1


def count_stats(d, rep):
    rep.stat("decl_" + d["kind"])
    if d["kind"] == "struct":
        rep.stat("struct_tuple" if d["tuple"] else "struct_named")
        rep.stat("ext_%s" % (d["attrs"]["ext"] or "unspecified"))
        for m in d["members"]:
            rep.stat("members")
            for k, lab in (("key", "attr_key"), ("hashid", "attr_hashid"), ("optional", "attr_optional"), ("ns", "attr_non_serialized"),
                           ("external", "attr_external")):
                if m[k]:
                    rep.stat(lab)
            if m["id"] is not None:
                rep.stat("attr_id")
            if m["default"] is not None:
                rep.stat("attr_default_value")
            rep.note("member_type_classes", c40.type_class(m["ty"]))
    elif d["kind"] == "enum":
        rep.stat("attr_bit_bound_%s" % d["attrs"]["bit_bound"])
        rep.stat("enum_variants", len(d["variants"]))
    else:
        rep.stat("union_ext_%s" % (d["attrs"]["ext"] or "unspecified"))
        rep.stat("attr_switch_%s" % c40.type_class(d["attrs"]["switch"]))
        if d["attrs"]["switch_key"]:
            rep.stat("attr_switch_key")
        for v in d["variants"]:
            rep.stat("union_variants")
            rep.stat("attr_case", len(v["cases"]))
            if not v["cases"]:
                rep.stat("attr_case_omitted")
            if v["default"]:
                rep.stat("attr_default")
            if v["ty"]:
                rep.note("member_type_classes", c40.type_class(v["ty"]))
    if d["attrs"].get("name") is not None:
        rep.stat("attr_name")
    if d["attrs"].get("nested"):
        rep.stat("attr_nested")


def closure(d, by_name):
    """declaration models needed to compile d, in dependency order"""
    seen = []

    def visit(x):
        for dep in x.get("deps", []):
            if dep in by_name:
                visit(by_name[dep])
        if x["name"] not in [s["name"] for s in seen]:
            seen.append(x)
    visit(d)
    return seen


def attrs_at(src_lines, line_idx):
    """attribute names involved at a (0-based) line of a bin source"""
    found = []
    text = src_lines[line_idx] if 0 <= line_idx < len(src_lines) else ""
    chunks = [text]
    if "#[dust_dds(" not in text and line_idx > 0 and "#[dust_dds(" in src_lines[line_idx - 1]:
        chunks.append(src_lines[line_idx - 1])
    for ch in chunks:
        for m in re.finditer(r"#\[dust_dds\((.*)\)\]", ch):
            found += ATTR_RE.findall(m.group(1))
    return "+".join(sorted(set(found))) or "none"


def check_bin_output(args, rep, decls, by_name, stdout, replay_only=None):
    try:
        results = json.loads(stdout)
    except ValueError as ex:
        rep.inconclusive.append("generated program printed unparsable output: %s" % str(ex)[:200])
        return 0
    res_by = {r["decl"]: r for r in results}
    n = 0
    rt_failed = set()
    for d in decls:
        if replay_only and d["name"] != replay_only:
            continue
        r = res_by.get(d["name"])
        if r is None:
            rep.inconclusive.append("no result for declaration %s" % d["name"])
            continue
        rp = {"prop": "c40", "target": d["name"], "decls": closure(d, by_name), "values": args.values,
              "seeds": {x["name"]: decl_seed(args, x["name"]) for x in closure(d, by_name)}}

        def emit(sig, what, rp=rp):
            rep.violation(sig, what, rp)

        c40.check_decl(d, r, by_name, emit, rep.note, rt_failed)
        rep.evaluations += 1
        n += 1
        rep.stat("values_converted", r.get("rt_n", 0))
        rep.stat("values_roundtrip_equal", r.get("rt_ok", 0))
        rep.nontrivial.add(h64(c40.shape_of(d)))
        if len(rep.samples) < 4 and (d["kind"] != "enum" or len(rep.samples) == 3) and len(d.get("deps", [])) <= 1:
            if not any(s.get("kind") == d["kind"] for s in rep.samples) or len(rep.samples) >= 3:
                rep.samples.append({"kind": d["kind"], "declaration": c40.decl_source(d), "descriptor_dump": common.compact_dump(r.get("type")),
                                    "enum_values": r.get("enum_values"), "first_value": r.get("first"),
                                    "first_value_as_dynamic_data": r.get("first_dyn"),
                                    "values_roundtripped_ok": "%s/%s" % (r.get("rt_ok"), r.get("rt_n"))})
    return n


def process_batch(args, rep, crate_dir, groups, tag):
    """groups: {bin name: [decl models in dependency order]}"""
    active = dict(groups)
    bin_dir = os.path.join(common.GEN_TARGET, "debug")
    for rnd in range(5):
        if not active:
            break
        common.prepare_crate(crate_dir, "gen_c40_s%d" % args.shard, 'dust_dds = { path = "%s/dds" }' % common.REPO)
        srcs = {}
        for b, decls in active.items():
            src, line_map = c40.bin_source(decls, lambda d: decl_seed(args, d["name"]), args.values)
            srcs[b] = (src, line_map)
            with open(os.path.join(crate_dir, "src", "bin", b + ".rs"), "w") as fh:
                fh.write(src)
        t0 = time.time()
        ok, errors, stderr_tail, rc = common.cargo_build(crate_dir)
        rep.stat("cargo_builds")
        rep.stat("cargo_build_ms", int((time.time() - t0) * 1000))
        if rc is None:
            rep.inconclusive.append("%s: %s" % (tag, stderr_tail))
            return
        dep_err = [k for k in errors if k.startswith("<dep:")]
        if dep_err:
            rep.inconclusive.append("%s: dependency does not compile (%s): %s" % (tag, dep_err[0], common.diag_text(errors[dep_err[0]][0], 400)))
            return
        if not ok and not errors:
            rep.inconclusive.append("%s: cargo build failed without diagnostics: %s" % (tag, stderr_tail[-600:]))
            return
        # run what compiled
        good = [b for b in active if b in ok]
        outs = common.run_bins([os.path.join(bin_dir, b) for b in good])
        for b in good:
            rc_b, so, se = outs[os.path.join(bin_dir, b)]
            decls = active[b]
            by_name = {d["name"]: d for d in decls}
            if rc_b != 0:
                rep.inconclusive.append("%s: generated program %s exited %s: %s" % (tag, b, rc_b, se[-300:]))
                continue
            check_bin_output(args, rep, decls, by_name, so)
        # attribute compile errors
        nxt = {}
        for b in active:
            if b in ok:
                continue
            diags = errors.get(b, [])
            decls = active[b]
            by_name = {d["name"]: d for d in decls}
            src, line_map = srcs[b]
            src_lines = src.split("\n")
            per_decl = {}
            unmapped = []
            for dg in diags:
                sp = common.primary_span(dg)
                name = None
                if sp and sp[0].endswith(b + ".rs"):
                    for lo, hi, nm in line_map:
                        if lo <= sp[1] <= hi:
                            name = nm
                            break
                if name:
                    per_decl.setdefault(name, []).append((dg, sp))
                else:
                    unmapped.append(dg)
            if not per_decl:
                msg = common.diag_text(unmapped[0], 500) if unmapped else stderr_tail[-500:]
                rep.inconclusive.append("%s: %s does not compile and no error maps to a declaration: %s" % (tag, b, msg))
                continue
            # offenders: declarations with errors none of whose (transitive) dependencies has errors
            def dep_has_error(d):
                return any(x["name"] in per_decl for x in closure(d, by_name)[:-1])
            offenders = [n for n in per_decl if not dep_has_error(by_name[n])]
            for n in offenders:
                d = by_name[n]
                dg, sp = per_decl[n][0]
                code = (dg.get("code") or {}).get("code") or "derive"
                attrs = attrs_at(src_lines, sp[1] - 1)
                sig = "compile_error|attr=%s|kind=%s|code=%s|msg=%s" % (attrs, d["kind"], code, common.normalize_rustc_msg(dg.get("message", ""))[:70])
                rp = {"prop": "c40", "target": n, "decls": closure(d, by_name), "values": args.values,
                      "seeds": {x["name"]: decl_seed(args, x["name"]) for x in closure(d, by_name)}}
                rep.violation(sig, "%s does not compile: %s\n%s" % (n, common.diag_text(dg, 900), c40.decl_source(d)), rp)
                rep.evaluations += 1
                rep.stat("compile_errors_attributed")
            bad = set(offenders)
            rest = []
            for d in decls:
                if d["name"] in bad or any(x["name"] in bad for x in closure(d, by_name)):
                    if d["name"] not in bad:
                        rep.stat("dropped_dependents_of_offenders")
                    continue
                rest.append(d)
            if rest:
                nxt[b] = rest
        active = nxt
    if active:
        rep.inconclusive.append("%s: %d bins still failing after 5 attribution rounds" % (tag, len(active)))


def run(args, rep):
    if args.replay:
        return replay(args, rep)
    share = args.cases // args.nshards + (1 if args.shard < args.cases % args.nshards else 0)
    batch = args.batch or (640 if args.tier == "thorough" else share)
    crate_dir = os.path.join(common.BUILD, "gen", "c40-s%d" % args.shard)
    t_start = time.time()
    done = 0
    bno = 0
    while done < share:
        if args.budget_s and time.time() - t_start > args.budget_s:
            rep.stat("batches_skipped_for_budget")
            break
        n = min(batch, share - done)
        per_bin = args.per_bin or max(10, min(40, -(-n // 16)))
        groups = {}
        k = 0
        left = n
        while left > 0:
            m = min(per_bin, left)
            g = c40.Gen(Rng("c40", args.seed, args.shard, bno, k), "S%dB%dK%d_" % (args.shard, bno, k))
            for _ in range(m):
                d = g.gen_decl()
                count_stats(d, rep)
            decls = g.decls
            if args.inject_bad and k == 0 and bno == 0:
                bad = {"kind": "struct", "tuple": False, "name": "InjectedBad", "attrs": {"name": None, "ext": None, "nested": False},
                       "members": [{"name": "a", "ty": {"k": "prim", "t": "u8"}, "key": False, "id": None, "id_hex": False, "hashid": False,
                                    "optional": False, "default": None, "ns": False, "external": False, "attr_src": "bogus_attr"}],
                       "attr_src": "", "deps": [], "depth": 0}
                decls = decls[:3] + [bad] + decls[3:]
            groups["c40_s%d_b%d" % (args.shard, k)] = decls
            left -= m
            k += 1
        process_batch(args, rep, crate_dir, groups, "batch %d" % bno)
        done += n
        bno += 1
    rep.stat("batches", bno)


def replay(args, rep):
    doc = json.load(open(args.replay))
    crate_dir = os.path.join(common.BUILD, "gen", "c40-replay")
    groups = {}
    targets = {}
    for i, w in enumerate(doc.get("witnesses", [])):
        rp = w.get("replay") or {}
        if rp.get("prop") != "c40":
            continue
        b = "c40_replay_%d" % i
        groups[b] = rp["decls"]
        targets[b] = rp["target"]
        args.values = rp.get("values", args.values)
    # in replay mode only the target declarations are judged; seeds are recomputed from --seed like
    # in the original run (the runner passes the same VERIF_SEED) unless stored
    seeds = {}
    for w in doc.get("witnesses", []):
        seeds.update((w.get("replay") or {}).get("seeds", {}))
    global decl_seed
    orig = decl_seed
    decl_seed = lambda a, name: seeds.get(name, orig(a, name))
    process_batch(args, rep, crate_dir, groups, "replay")
    # keep only violations about the targets
    tg = set(targets.values())
    rep.violations = [v for v in rep.violations if v["replay"]["target"] in tg]
    sigs = {}
    for v in rep.violations:
        sigs[v["sig"]] = sigs.get(v["sig"], 0) + 1
    rep.vcounts = sigs
    if not rep.samples:
        rep.samples.append({"replayed": sorted(tg)})
