//! Shared helpers for simulation scenarios.
#![allow(dead_code)]
use dust_dds::dds_async::data_reader::DataReaderAsync;
use dust_dds::dds_async::data_writer::DataWriterAsync;
use dust_dds::dds_async::domain_participant::DomainParticipantAsync;
use dust_dds::dds_async::publisher::PublisherAsync;
use dust_dds::dds_async::subscriber::SubscriberAsync;
use dust_dds::dds_async::topic::TopicAsync;
use dust_dds::infrastructure::error::DdsError;
use dust_dds::infrastructure::listener::NO_LISTENER;
use dust_dds::infrastructure::qos::{DataReaderQos, DataWriterQos, QosKind};
use dust_dds::infrastructure::qos_policy::*;
use dust_dds::infrastructure::status::NO_STATUS;
use dust_dds::infrastructure::time::{Duration, DurationKind};
use dust_dds::infrastructure::type_support::DdsType;
use simnet::*;
use vcore::{Args, Json, Report, Rng};

/// The sample type used by data-path scenarios. `writer`/`seq` make every sample unique; the
/// payload is a deterministic function of (writer, seq, len) so byte identity is checked by
/// regeneration.
#[derive(Debug, Clone, PartialEq, DdsType)]
pub struct Msg {
    #[dust_dds(key)]
    pub key: u32,
    pub writer: u32,
    pub seq: u32,
    pub payload: Vec<u8>,
}

pub fn payload(writer: u32, seq: u32, len: usize) -> Vec<u8> {
    let mut v = Vec::with_capacity(len);
    let mut x = (writer as u64) << 32 | seq as u64;
    x = vcore::mix(x, 0xabcdef);
    for i in 0..len {
        if i % 8 == 0 {
            x = vcore::mix(x, i as u64);
        }
        v.push((x >> ((i % 8) * 8)) as u8);
    }
    v
}

pub fn msg(key: u32, writer: u32, seq: u32, len: usize) -> Msg {
    Msg {
        key,
        writer,
        seq,
        payload: payload(writer, seq, len),
    }
}

pub fn msg_ok(m: &Msg) -> bool {
    m.payload == payload(m.writer, m.seq, m.payload.len())
}

/// Keyless variant.
#[derive(Debug, Clone, PartialEq, DdsType)]
pub struct Plain {
    pub writer: u32,
    pub seq: u32,
    pub payload: Vec<u8>,
}

pub fn dur_ms(ms: i64) -> Duration {
    Duration::new((ms / 1000) as i32, ((ms % 1000) * 1_000_000) as u32)
}
pub fn dur_ns(ns: i64) -> Duration {
    Duration::new((ns / SEC) as i32, (ns % SEC) as u32)
}
pub fn finite_ms(ms: i64) -> DurationKind {
    DurationKind::Finite(dur_ms(ms))
}

pub fn reliable(max_block_ms: i64) -> ReliabilityQosPolicy {
    ReliabilityQosPolicy {
        kind: ReliabilityQosPolicyKind::Reliable,
        max_blocking_time: finite_ms(max_block_ms),
    }
}
pub fn best_effort() -> ReliabilityQosPolicy {
    ReliabilityQosPolicy {
        kind: ReliabilityQosPolicyKind::BestEffort,
        max_blocking_time: finite_ms(100),
    }
}
pub fn keep_all() -> HistoryQosPolicy {
    HistoryQosPolicy {
        kind: HistoryQosPolicyKind::KeepAll,
    }
}
pub fn keep_last(d: u32) -> HistoryQosPolicy {
    HistoryQosPolicy {
        kind: HistoryQosPolicyKind::KeepLast(d),
    }
}

pub fn err_name(e: &DdsError) -> String {
    match e {
        DdsError::Error(_) => "Error".into(),
        DdsError::Unsupported => "Unsupported".into(),
        DdsError::BadParameter => "BadParameter".into(),
        DdsError::PreconditionNotMet(_) => "PreconditionNotMet".into(),
        DdsError::OutOfResources => "OutOfResources".into(),
        DdsError::NotEnabled => "NotEnabled".into(),
        DdsError::ImmutablePolicy => "ImmutablePolicy".into(),
        DdsError::InconsistentPolicy => "InconsistentPolicy".into(),
        DdsError::AlreadyDeleted => "AlreadyDeleted".into(),
        DdsError::Timeout => "Timeout".into(),
        DdsError::NoData => "NoData".into(),
        DdsError::IllegalOperation => "IllegalOperation".into(),
    }
}

pub struct Party {
    pub dp: DomainParticipantAsync,
    pub idx: usize,
}

pub async fn new_participant(w: &World, domain: i32) -> DomainParticipantAsync {
    w.factory
        .create_participant(domain, QosKind::Default, NO_LISTENER, NO_STATUS)
        .await
        .expect("create_participant")
}

pub async fn new_topic<T: dust_dds::xtypes::type_support::TypeSupport>(
    dp: &DomainParticipantAsync,
    name: &str,
    type_name: &str,
) -> TopicAsync {
    dp.create_topic::<T>(name, type_name, QosKind::Default, NO_LISTENER, NO_STATUS)
        .await
        .expect("create_topic")
}

pub async fn new_publisher(dp: &DomainParticipantAsync) -> PublisherAsync {
    dp.create_publisher(QosKind::Default, NO_LISTENER, NO_STATUS)
        .await
        .expect("create_publisher")
}
pub async fn new_subscriber(dp: &DomainParticipantAsync) -> SubscriberAsync {
    dp.create_subscriber(QosKind::Default, NO_LISTENER, NO_STATUS)
        .await
        .expect("create_subscriber")
}

pub async fn new_writer<T>(
    p: &PublisherAsync,
    t: &TopicAsync,
    qos: DataWriterQos,
) -> DataWriterAsync<T> {
    p.create_datawriter::<T>(t, QosKind::Specific(qos), NO_LISTENER, NO_STATUS)
        .await
        .expect("create_datawriter")
}
pub async fn new_reader<T>(
    s: &SubscriberAsync,
    t: &TopicAsync,
    qos: DataReaderQos,
) -> DataReaderAsync<T> {
    s.create_datareader::<T>(t, QosKind::Specific(qos), NO_LISTENER, NO_STATUS)
        .await
        .expect("create_datareader")
}

/// Wait (virtual time) until writer and reader see `nw`/`nr` matches. Returns false on timeout.
pub async fn wait_matched<T>(
    sim: &Sim,
    dw: &DataWriterAsync<T>,
    n_readers: i32,
    timeout_ns: i64,
) -> bool {
    let t0 = sim.now();
    loop {
        match dw.get_matched_subscriptions().await {
            Ok(v) if v.len() as i32 >= n_readers => return true,
            _ => {}
        }
        if sim.now() - t0 > timeout_ns {
            return false;
        }
        sim.sleep(20 * MS).await;
    }
}
pub async fn wait_reader_matched<T>(
    sim: &Sim,
    dr: &DataReaderAsync<T>,
    n_writers: i32,
    timeout_ns: i64,
) -> bool {
    let t0 = sim.now();
    loop {
        match dr.get_matched_publications().await {
            Ok(v) if v.len() as i32 >= n_writers => return true,
            _ => {}
        }
        if sim.now() - t0 > timeout_ns {
            return false;
        }
        sim.sleep(20 * MS).await;
    }
}

/// Shard bookkeeping shared by all scenario mains.
pub struct Shard {
    pub args: Args,
    pub seed: u64,
    pub shard: u64,
    pub nshards: u64,
    pub cases: u64,
    pub tier: String,
    pub out: String,
    pub replay: Option<Json>,
}

impl Shard {
    pub fn from_args(args: Args) -> Shard {
        let replay = args.kv.get("replay").map(|p| {
            let s = std::fs::read_to_string(p).expect("replay file");
            Json::parse(&s).expect("replay json")
        });
        Shard {
            seed: args.u64("seed", 1),
            shard: args.u64("shard", 0),
            nshards: args.u64("nshards", 1).max(1),
            cases: args.u64("cases", 100),
            tier: args.str("tier", "quick"),
            out: args.str("out", "-"),
            replay,
            args,
        }
    }
    /// Case indices this shard is responsible for (or the replay witnesses' indices).
    pub fn my_cases(&self) -> Vec<u64> {
        if let Some(r) = &self.replay {
            let mut v = Vec::new();
            if let Some(ws) = r.get("witnesses").and_then(|w| w.as_arr()) {
                for w in ws {
                    if let Some(c) = w.get("replay").and_then(|r| r.get("case")).and_then(|c| c.as_u64()) {
                        v.push(c);
                    }
                }
            }
            return v;
        }
        if let Some(c) = self.args.kv.get("only-case").and_then(|s| s.parse::<u64>().ok()) {
            return vec![c];
        }
        (0..self.cases)
            .filter(|c| c % self.nshards == self.shard)
            .collect()
    }
    pub fn case_seed(&self, case: u64) -> u64 {
        // a replay carries the seed it was produced with
        let seed = self
            .replay
            .as_ref()
            .and_then(|r| r.get("witnesses"))
            .and_then(|w| w.as_arr())
            .and_then(|a| a.first().cloned())
            .and_then(|w| w.get("replay").and_then(|r| r.get("seed")).and_then(|s| s.as_u64()))
            .unwrap_or(self.seed);
        vcore::mix(seed, case.wrapping_mul(0x9E37_79B9) ^ 0x5ce0)
    }
    pub fn base_replay(&self, scenario: &str, case: u64) -> Json {
        Json::obj()
            .set("engine", "scen")
            .set("scenario", scenario)
            .set("seed", self.seed)
            .set("case", case)
            .set("tier", self.tier.clone())
    }
}

pub fn pick_policy(rng: &mut Rng) -> Policy {
    match rng.below(3) {
        0 => Policy::Fifo,
        1 => Policy::Random,
        _ => Policy::Lifo,
    }
}

/// Report a worker panic observed during a scenario as a violation of the property under test
/// (a dead worker silently stops DDS for the whole process).
pub fn report_panics(rep: &mut Report, stats: &RunStats, replay: &Json) -> bool {
    let mut any = false;
    for p in &stats.panics {
        match p.task {
            TaskKind::Worker | TaskKind::Listener => {
                any = true;
                let sig = format!("panic|{}|{}", p.sym, vcore::normalize_msg(&p.msg));
                rep.violation(
                    sig,
                    format!("DDS {:?} task panicked at {}: {}", p.task, p.location, p.msg),
                    replay.clone().set("panic_location", p.location.clone()),
                );
            }
            TaskKind::Local => {
                rep.inconclusive(format!("harness task panicked at {}: {}", p.location, p.msg));
            }
        }
    }
    any
}
