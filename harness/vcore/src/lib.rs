//! Shared plumbing for all verification engines: PRNG, JSON, hashing, shard reports, CLI args.
pub mod json;
pub mod report;
pub mod rng;
pub mod rtpswalk;

pub use json::Json;
pub use report::{Args, Report, Violation};
pub use rng::Rng;

/// FNV-1a 64 bit.
pub fn fnv(data: &[u8]) -> u64 {
    let mut h: u64 = 0xcbf29ce484222325;
    for b in data {
        h ^= *b as u64;
        h = h.wrapping_mul(0x100000001b3);
    }
    h
}

pub fn fnv_str(s: &str) -> u64 {
    fnv(s.as_bytes())
}

pub fn mix(a: u64, b: u64) -> u64 {
    let mut x = a ^ b.wrapping_mul(0x9E3779B97F4A7C15);
    x ^= x >> 30;
    x = x.wrapping_mul(0xBF58476D1CE4E5B9);
    x ^= x >> 27;
    x = x.wrapping_mul(0x94D049BB133111EB);
    x ^ (x >> 31)
}

pub fn hex(b: &[u8]) -> String {
    let mut s = String::with_capacity(b.len() * 2);
    for x in b {
        s.push_str(&format!("{:02x}", x));
    }
    s
}

pub fn unhex(s: &str) -> Vec<u8> {
    let s = s.as_bytes();
    let mut out = Vec::with_capacity(s.len() / 2);
    let v = |c: u8| -> u8 {
        match c {
            b'0'..=b'9' => c - b'0',
            b'a'..=b'f' => c - b'a' + 10,
            b'A'..=b'F' => c - b'A' + 10,
            _ => 0,
        }
    };
    let mut i = 0;
    while i + 1 < s.len() {
        out.push(v(s[i]) << 4 | v(s[i + 1]));
        i += 2;
    }
    out
}

/// Normalise a panic message into a seed-independent form (digits collapsed).
pub fn normalize_msg(msg: &str) -> String {
    let mut out = String::new();
    let mut last_digit = false;
    for c in msg.chars() {
        if c.is_ascii_digit() {
            if !last_digit {
                out.push('N');
            }
            last_digit = true;
        } else {
            last_digit = false;
            out.push(if c == '\n' { ' ' } else { c });
        }
        if out.len() > 160 {
            break;
        }
    }
    out
}
