//! C29: a sample whose source timestamp + lifespan lies in the past is never presented, whether it
//! is a first transmission, a repair, history for a late joiner, or a datagram delayed in the network.
use crate::common::*;
use dust_dds::infrastructure::qos::{DataReaderQos, DataWriterQos};
use dust_dds::infrastructure::qos_policy::*;
use dust_dds::infrastructure::sample_info::{ANY_INSTANCE_STATE, ANY_SAMPLE_STATE, ANY_VIEW_STATE};
use simnet::*;
use std::cell::RefCell;
use std::rc::Rc;
use vcore::rtpswalk::{self, Class};
use vcore::{Json, Report, Rng};

#[derive(Clone, Debug)]
struct Params {
    /// 0 first transmission (stamps around expiry), 1 repair after loss, 2 history to late joiner, 3 delayed in network,
    /// 4 first transmission lost, the repair (sent while the sample is alive) delayed in the network
    path: u32,
    lifespan_ms: i64,
    n_writes: u32,
    stamp_offsets_ms: Vec<i64>,
    hold_ms: i64,
    reliable_reader: bool,
    keep_last: Option<u32>,
    policy: Policy,
    jitter: i64,
    gap_ms: i64,
}

fn path_name(p: u32) -> &'static str {
    ["first", "repair", "history", "delayed_in_network", "repair_delayed_in_network"][p as usize]
}

impl Params {
    fn to_json(&self) -> Json {
        Json::obj()
            .set("path", path_name(self.path))
            .set("lifespan_ms", self.lifespan_ms)
            .set("writes", self.n_writes)
            .set("source_timestamp_offsets_ms", self.stamp_offsets_ms.clone())
            .set("hold_ms", self.hold_ms)
            .set("reliable_reader", self.reliable_reader)
            .set(
                "writer_history",
                match self.keep_last {
                    None => "KEEP_ALL".to_string(),
                    Some(d) => format!("KEEP_LAST({d})"),
                },
            )
            .set("policy", format!("{:?}", self.policy))
            .set("write_gap_ms", self.gap_ms)
    }
}

fn gen_params(rng: &mut Rng) -> Params {
    let path = rng.below(5) as u32;
    let lifespan_ms = *rng.pick(&[10i64, 60, 200, 1000, 5000]);
    let offs: Vec<i64> = match path {
        0 => vec![0, -lifespan_ms / 2, -lifespan_ms + 1, -lifespan_ms - 1, -lifespan_ms - 100, -2 * lifespan_ms, 50, -100_000],
        _ => vec![0, 0, -1, 5],
    };
    Params {
        path,
        lifespan_ms,
        n_writes: 2 + rng.below(14) as u32,
        stamp_offsets_ms: offs,
        // how long the network withholds / how long before the late joiner appears, relative to the lifespan
        hold_ms: match rng.below(3) {
            0 => lifespan_ms / 2,
            1 => lifespan_ms + 20 + rng.below(300) as i64,
            _ => 3 * lifespan_ms + 100,
        },
        reliable_reader: path == 1 || path == 2 || path == 4 || rng.bool(),
        keep_last: if rng.bool() { None } else { Some(1 + rng.below(3) as u32) },
        policy: pick_policy(rng),
        jitter: *rng.pick(&[0i64, 1000, 100_000]),
        gap_ms: *rng.pick(&[0i64, 1, 7, 40]),
    }
}

struct Wr {
    seq: u32,
    stamp_ns: i64,
    written_at_ns: i64,
    ok: bool,
}
struct Outcome {
    matched: bool,
    writes: Vec<Wr>,
    /// (seq, presented at ns, source timestamp reported in SampleInfo ns)
    presented: Vec<(u32, i64, i64)>,
}

async fn scenario(w: World, p: Params) -> Outcome {
    let sim = w.sim.clone();
    let wq = DataWriterQos {
        reliability: reliable(200),
        durability: DurabilityQosPolicy {
            kind: if p.path == 2 { DurabilityQosPolicyKind::TransientLocal } else { DurabilityQosPolicyKind::Volatile },
        },
        history: match p.keep_last {
            None => keep_all(),
            Some(d) => keep_last(d),
        },
        lifespan: LifespanQosPolicy {
            duration: finite_ms(p.lifespan_ms),
        },
        ..Default::default()
    };
    let rq = DataReaderQos {
        reliability: if p.reliable_reader { reliable(100) } else { best_effort() },
        durability: DurabilityQosPolicy {
            kind: if p.path == 2 { DurabilityQosPolicyKind::TransientLocal } else { DurabilityQosPolicyKind::Volatile },
        },
        history: keep_all(),
        ..Default::default()
    };
    let mut out = Outcome {
        matched: false,
        writes: vec![],
        presented: vec![],
    };
    let dpw = new_participant(&w, 0).await;
    let tw = new_topic::<Msg>(&dpw, "Life", "Msg").await;
    let pb = new_publisher(&dpw).await;
    let dw = new_writer::<Msg>(&pb, &tw, wq).await;
    let dpr = new_participant(&w, 0).await;
    let tr = new_topic::<Msg>(&dpr, "Life", "Msg").await;
    let sb = new_subscriber(&dpr).await;
    let log: Rc<RefCell<Vec<(u32, i64, i64)>>> = Rc::new(RefCell::new(Vec::new()));
    let stop = Rc::new(RefCell::new(false));
    let spawn_reader = |dr: dust_dds::dds_async::data_reader::DataReaderAsync<Msg>| {
        let log = log.clone();
        let stop = stop.clone();
        let sim2 = sim.clone();
        sim.spawn_local(async move {
            // take every millisecond so that "presented at" is (almost) "became available at"
            loop {
                if let Ok(s) = dr.take(i32::MAX, ANY_SAMPLE_STATE, ANY_VIEW_STATE, ANY_INSTANCE_STATE).await {
                    let now = sim2.now();
                    for x in s {
                        if let Some(m) = x.data {
                            let st = x.sample_info.source_timestamp.map(time_to_ns).unwrap_or(-1);
                            log.borrow_mut().push((m.seq, now, st));
                        }
                    }
                }
                if *stop.borrow() {
                    break;
                }
                sim2.sleep(MS).await;
            }
        })
    };
    let mut reader_join = None;
    if p.path != 2 {
        let dr = new_reader::<Msg>(&sb, &tr, rq.clone()).await;
        out.matched = wait_matched(&sim, &dw, 1, 20 * SEC).await && wait_reader_matched(&sim, &dr, 1, 20 * SEC).await;
        if !out.matched {
            return out;
        }
        reader_join = Some(spawn_reader(dr));
    } else {
        out.matched = true;
        sim.sleep(300 * MS).await;
    }
    // network behaviour for the path
    let t0 = sim.now();
    let hold_until = t0 + p.hold_ms * MS;
    match p.path {
        1 => {
            // first transmissions are lost during the hold window; repair happens afterwards
            w.net.set_policy(Some(Box::new(move |pkt: &Pkt, _r: &mut Rng| {
                if pkt.class == Class::User && pkt.now < hold_until && pkt.src == 0 {
                    return vec![];
                }
                vec![Delivery::after(BASE_LATENCY)]
            })));
        }
        4 => {
            // the first datagram carrying a given sample is lost; every later datagram carrying it (the
            // repair the reader asked for, sent while the sample is still alive) is held back until the
            // end of the hold window; HEARTBEATs / ACKNACKs travel normally
            let seen: std::sync::Arc<std::sync::Mutex<std::collections::BTreeSet<i64>>> = Default::default();
            w.net.set_policy(Some(Box::new(move |pkt: &Pkt, _r: &mut Rng| {
                if pkt.class == Class::User && pkt.src == 0 {
                    let sns: Vec<i64> = pkt.walk.subs.iter().filter(|s| s.id == rtpswalk::DATA || s.id == rtpswalk::DATA_FRAG).map(|s| s.sn).collect();
                    if !sns.is_empty() {
                        let first_time = sns.iter().any(|sn| seen.lock().unwrap().insert(*sn));
                        if first_time {
                            return vec![];
                        }
                        if pkt.now < hold_until {
                            return vec![Delivery::after(hold_until - pkt.now + BASE_LATENCY)];
                        }
                    }
                }
                vec![Delivery::after(BASE_LATENCY)]
            })));
        }
        3 => {
            // DATA/DATA_FRAG datagrams are delayed until the end of the hold window
            w.net.set_policy(Some(Box::new(move |pkt: &Pkt, _r: &mut Rng| {
                if pkt.class == Class::User
                    && pkt.now < hold_until
                    && pkt.walk.subs.iter().any(|s| s.id == rtpswalk::DATA || s.id == rtpswalk::DATA_FRAG)
                {
                    return vec![Delivery::after(hold_until - pkt.now + BASE_LATENCY)];
                }
                vec![Delivery::after(BASE_LATENCY)]
            })));
        }
        _ => {}
    }
    let mut rng = Rng::new(p.n_writes as u64 * 7 + p.lifespan_ms as u64);
    for seq in 0..p.n_writes {
        let off = *rng.pick(&p.stamp_offsets_ms);
        let stamp_ns = sim.now() + off * MS;
        let r = sim
            .timeout(5 * SEC, dw.write_w_timestamp(msg(seq % 2, 0, seq, 12), None, ns_to_time(stamp_ns)))
            .await;
        out.writes.push(Wr {
            seq,
            stamp_ns,
            written_at_ns: sim.now(),
            ok: matches!(r, Ok(Ok(()))),
        });
        if p.gap_ms > 0 {
            sim.sleep(rng.below(p.gap_ms as u64 + 1) as i64 * MS + 1).await;
        }
    }
    if p.path == 2 {
        // late joiner appears after the hold time
        sim.sleep(p.hold_ms * MS).await;
        let dr = new_reader::<Msg>(&sb, &tr, rq.clone()).await;
        let _ = wait_reader_matched(&sim, &dr, 1, 20 * SEC).await;
        reader_join = Some(spawn_reader(dr));
    }
    // let repairs / delayed datagrams / history arrive
    let end = hold_until.max(sim.now()) + 3 * SEC + 2 * p.lifespan_ms.min(2000) * MS;
    sim.sleep(end - sim.now()).await;
    *stop.borrow_mut() = true;
    if let Some(j) = reader_join {
        j.await;
    }
    out.presented = log.borrow().clone();
    out
}

pub fn run(shard: &Shard) -> Report {
    let mut rep = Report::new("C29");
    for case in shard.my_cases() {
        let cs = shard.case_seed(case);
        let mut rng = Rng::new(cs);
        let p = gen_params(&mut rng);
        let mut cfg = WorldConfig::default();
        cfg.sim.seed = cs;
        cfg.sim.policy = p.policy;
        cfg.sim.jitter_max = p.jitter;
        cfg.sim.max_polls = 4_000_000;
        let p2 = p.clone();
        let (res, stats, _net) = run_world(&cfg, move |w| scenario(w, p2));
        rep.eval();
        let replay = shard.base_replay("lifespan", case).set("params", p.to_json());
        let panicked = report_panics(&mut rep, &stats, &replay);
        let Some(o) = res else {
            if !panicked {
                rep.inconclusive(format!("case {case}: scenario did not finish ({:?})", stats.stop));
            }
            continue;
        };
        if !o.matched {
            if !panicked {
                rep.inconclusive(format!("case {case}: endpoints did not match"));
            }
            continue;
        }
        // take period 1 ms + sleep jitter + 1 ms margin: a sample that became available just before
        // its expiry may be taken that much later
        let slack = MS + p.jitter + MS;
        let mut late = 0;
        for (seq, at, reported_stamp) in &o.presented {
            let Some(wr) = o.writes.iter().find(|w| w.seq == *seq) else {
                continue;
            };
            rep.stat("samples_presented", 1);
            let expiry = wr.stamp_ns + p.lifespan_ms * MS;
            if *reported_stamp >= 0 && (*reported_stamp - wr.stamp_ns).abs() > 1 {
                rep.stat("source_timestamp_differs_from_written(not judged here)", 1);
            }
            if *at > expiry + slack {
                late += 1;
                let stamp_class = if wr.stamp_ns + p.lifespan_ms * MS < wr.written_at_ns {
                    "already_expired_at_write"
                } else if wr.stamp_ns < wr.written_at_ns - MS {
                    "past"
                } else if wr.stamp_ns > wr.written_at_ns + MS {
                    "future"
                } else {
                    "now"
                };
                rep.violation(
                    format!("expired_presented|path={}|stamp={stamp_class}|reader={}", path_name(p.path), if p.reliable_reader { "reliable" } else { "best_effort" }),
                    format!(
                        "sample #{seq} (source timestamp +{} ms, lifespan {} ms => expires +{} ms) was presented at +{} ms, {} ms after it expired",
                        (wr.stamp_ns - EPOCH_NS) / MS,
                        p.lifespan_ms,
                        (expiry - EPOCH_NS) / MS,
                        (*at - EPOCH_NS) / MS,
                        (*at - expiry) / MS
                    ),
                    replay
                        .clone()
                        .set("violation", "expired_presented")
                        .set("seq", *seq)
                        .set("stamp_ms", (wr.stamp_ns - EPOCH_NS) / MS)
                        .set("presented_ms", (*at - EPOCH_NS) / MS),
                );
            }
        }
        let _ = late;
        // non-trivial: some sample's expiry passed while it could still have been delivered
        let exercised = o.writes.iter().any(|w| w.ok && w.stamp_ns + p.lifespan_ms * MS < stats.end_ns - SEC);
        if exercised {
            rep.nontrivial(vcore::mix(stats.poll_hash, vcore::fnv_str(&p.to_json().to_string())));
        }
        rep.stat("writes_ok", o.writes.iter().filter(|w| w.ok).count() as i128);
        rep.set("paths", path_name(p.path));
        if case < 40 {
            rep.sample(
                Json::obj()
                    .set("case", case)
                    .set("params", p.to_json())
                    .set("written", o.writes.len())
                    .set("presented", o.presented.len()),
            );
        }
    }
    rep
}
