//! Shared command-line handling and helpers for the xcdr checks.
use crate::refenc::Rep;
use vcore::{Args, Json};
use xcdrlib::model::*;

pub struct Cli {
    pub seed: u64,
    pub shard: u64,
    pub nshards: u64,
    pub cases: u64,
    pub tier: String,
    pub out: String,
    /// witnesses of the runner's replay file
    pub replay: Option<Vec<Json>>,
    pub args: Args,
}

impl Cli {
    pub fn from_args(a: &Args) -> Result<Cli, String> {
        let replay = if a.has("replay") {
            let path = a.str("replay", "");
            let txt = std::fs::read_to_string(&path).map_err(|e| format!("{path}: {e}"))?;
            let j = Json::parse(&txt)?;
            let w = j
                .get("witnesses")
                .and_then(|x| x.as_arr())
                .map(|x| x.to_vec())
                .unwrap_or_else(|| vec![j.clone()]);
            Some(w)
        } else {
            None
        };
        Ok(Cli {
            seed: a.u64("seed", 1),
            shard: a.u64("shard", 0),
            nshards: a.u64("nshards", 1).max(1),
            cases: a.u64("cases", 1000),
            tier: a.str("tier", "quick"),
            out: a.str("out", "-"),
            replay,
            args: a.clone(),
        })
    }
}

/// (type, value, representation) of a replay object written by C09 / C10.
pub fn replay_case(r: &Json) -> Result<(Ty, Val, Rep), String> {
    let t = ty_from_json(r.get("type").ok_or("replay without type")?)?;
    let v = val_from_json(&t, r.get("value").ok_or("replay without value")?)?;
    let rep = r
        .get("rep")
        .and_then(|x| x.as_str())
        .and_then(Rep::from_name)
        .ok_or("replay without rep")?;
    Ok((t, v, rep))
}

/// member-kind tags of a type (the part between the braces of `shape_class`)
pub fn shape_tags(t: &Ty) -> Vec<String> {
    let s = shape_class(t);
    match (s.find('{'), s.rfind('}')) {
        (Some(a), Some(b)) if b > a + 1 => s[a + 1..b].split(',').map(|x| x.to_string()).collect(),
        _ => vec![],
    }
}
