//! E1 scenario driver: `scen <scenario> --seed S --shard i --nshards n --cases N --tier T --out F`
mod common;
mod delivery;

use common::Shard;
use vcore::Args;

fn main() {
    let args = Args::parse();
    let scenario = args.pos.first().cloned().unwrap_or_default();
    let shard = Shard::from_args(args);
    let rep = match scenario.as_str() {
        "c01" => delivery::run(&shard, "C01", delivery::Mode::Reliable),
        "c02" => delivery::run(&shard, "C02", delivery::Mode::BestEffort),
        "c05r" => delivery::run(&shard, "C05", delivery::Mode::FragReliable),
        "c05b" => delivery::run(&shard, "C05", delivery::Mode::FragBestEffort),
        other => {
            eprintln!("unknown scenario {other}");
            std::process::exit(3);
        }
    };
    rep.write(&shard.out);
}
