//! C10: dust-dds' XCDR bytes equal the independent reference encoder's bytes (common subset), and
//! reference bytes decode in dust-dds to the same value.
use crate::c09::{SHRINK_FLAG, unit_gen};
use crate::common::*;
use crate::dustrun::*;
use crate::refenc::{self, ALL_REPS, LcPolicy, MemberOrder, Opts, Rep, Ver};
use crate::supervise::*;
use std::collections::HashSet;
use vcore::{Json, Report, fnv_str};
use xcdrlib::dustglue::*;
use xcdrlib::model::*;

const VALUES_PER_TYPE: u64 = 6;

#[derive(Clone, Copy, PartialEq, Eq, Debug)]
pub enum Dir {
    Encode,
    DecodePlain,
    DecodeOptimized,
}

impl Dir {
    fn name(self) -> &'static str {
        match self {
            Dir::Encode => "encode",
            Dir::DecodePlain => "decode_lc_plain",
            Dir::DecodeOptimized => "decode_lc_optimized",
        }
    }
    fn from_name(s: &str) -> Dir {
        match s {
            "decode_lc_plain" => Dir::DecodePlain,
            "decode_lc_optimized" => Dir::DecodeOptimized,
            _ => Dir::Encode,
        }
    }
}

const DIRS: [Dir; 3] = [Dir::Encode, Dir::DecodePlain, Dir::DecodeOptimized];

pub struct Outcome {
    /// "ok", "skip:<why>" or a failure key
    pub key: String,
    pub detail: String,
    pub dust_hex: String,
    pub ref_hex: String,
    pub harness_problem: bool,
    pub notes: Vec<&'static str>,
    pub constructs: Vec<&'static str>,
    /// decode directions: the reference bytes dust-dds failed on and, for a wrong value, the path of
    /// the first difference
    pub ref_bytes: Vec<u8>,
    pub diff: Option<String>,
}

fn ok(notes: Vec<&'static str>, constructs: Vec<&'static str>) -> Outcome {
    Outcome {
        key: "ok".into(),
        detail: String::new(),
        dust_hex: String::new(),
        ref_hex: String::new(),
        harness_problem: false,
        notes,
        constructs,
        ref_bytes: Vec::new(),
        diff: None,
    }
}

fn common_prefix(a: &[u8], b: &[u8]) -> usize {
    a.iter().zip(b.iter()).take_while(|(x, y)| x == y).count()
}

pub fn evaluate(dt: dust_dds::xtypes::dynamic_type::DynamicType<'static>, t: &Ty, v: &Val, rep: Rep, dir: Dir) -> Outcome {
    let fail = |key: String, detail: String, dust: &[u8], rf: &[u8], hp: bool| Outcome {
        key,
        detail,
        dust_hex: vcore::hex(dust),
        ref_hex: vcore::hex(rf),
        harness_problem: hp,
        notes: vec![],
        constructs: vec![],
        ref_bytes: Vec::new(),
        diff: None,
    };
    match dir {
        Dir::Encode => {
            let data = match build_data(dt, t, v) {
                Ok(d) => d,
                Err(e) => return fail("harness".into(), e, &[], &[], true),
            };
            let dust = match dust_serialize(&data, rep) {
                Run::Ok(b) => b,
                Run::Err(e) => return fail(format!("skip:dust_serialize_error:{}", err_class(&e)), e, &[], &[], false),
                Run::Panic(p) => return fail("skip:dust_serialize_panic".into(), p.msg, &[], &[], false),
            };
            let mut best: Option<(usize, refenc::Encoded)> = None;
            for order in [MemberOrder::Declaration, MemberOrder::ById] {
                for origin_restore in [true, false] {
                    let opts = Opts {
                        origin_restore,
                        lc_policy: LcPolicy::Plain,
                        order,
                        hint: Some(&dust),
                    };
                    match refenc::encode_top(t, v, rep, opts) {
                        Ok(e) => {
                            if e.bytes == dust {
                                let mut notes = vec![];
                                if order == MemberOrder::ById {
                                    notes.push("mutable members emitted in member-id order (accepted)");
                                }
                                if !origin_restore {
                                    notes.push("XCDR1 origin not restored after a parameter-list member (accepted reading)");
                                }
                                return ok(notes, e.used.iter().copied().collect());
                            }
                            let cp = common_prefix(&e.bytes, &dust);
                            if best.as_ref().map(|b| cp > b.0).unwrap_or(true) {
                                best = Some((cp, e));
                            }
                        }
                        Err(e) => return fail("harness".into(), format!("refenc: {e}"), &dust, &[], true),
                    }
                }
            }
            let (cp, e) = best.unwrap();
            // a differing DHEADER / NEXTINT value only says that something inside has another size:
            // attribute the difference to the first differing byte outside such length words
            let is_len_word = |at: usize| -> bool {
                e.regions.iter().any(|(o, tag)| {
                    (tag.ends_with("_dheader") && at >= *o && at < *o + 4) || (*tag == "emheader" && at >= *o + 4 && at < *o + 8)
                })
            };
            let mut at = cp;
            let n = e.bytes.len().min(dust.len());
            while at < n && (e.bytes[at] == dust[at] || is_len_word(at)) {
                at += 1;
            }
            if at >= n {
                at = cp;
            }
            let construct = refenc::construct_at(&e.regions, at.min(e.bytes.len().saturating_sub(1)));
            let decodable = [true, false]
                .iter()
                .any(|r| refenc::decode_top(t, &dust, *r).map(|d| d.val == *v).unwrap_or(false));
            let why = refenc::decode_top(t, &dust, true).err().unwrap_or_default();
            fail(
                format!(
                    "enc_diff|construct={}|{}",
                    construct,
                    if decodable { "dust_bytes_decodable_by_reference" } else { "dust_bytes_not_decodable_by_reference" }
                ),
                format!(
                    "first difference at byte {} (reference emits {} there){}",
                    cp,
                    construct,
                    if decodable { String::new() } else { format!("; reference decoder on dust bytes: {}", why) }
                ),
                &dust,
                &e.bytes,
                false,
            )
        }
        Dir::DecodePlain | Dir::DecodeOptimized => {
            if dir == Dir::DecodeOptimized && rep.ver() == Ver::X1 {
                return Outcome {
                    key: "skip:not_applicable".into(),
                    ..ok(vec![], vec![])
                };
            }
            let lc_policy = if dir == Dir::DecodePlain { LcPolicy::Plain } else { LcPolicy::Optimized };
            let mut variants: Vec<refenc::Encoded> = Vec::new();
            for origin_restore in [true, false] {
                let opts = Opts {
                    origin_restore,
                    lc_policy,
                    order: MemberOrder::Declaration,
                    hint: None,
                };
                match refenc::encode_top(t, v, rep, opts) {
                    Ok(e) => {
                        if !variants.iter().any(|x| x.bytes == e.bytes) {
                            variants.push(e);
                        }
                    }
                    Err(e) => return fail("harness".into(), format!("refenc: {e}"), &[], &[], true),
                }
            }
            if dir == Dir::DecodeOptimized && !variants[0].used.iter().any(|u| matches!(*u, "lc5" | "lc6" | "lc7")) {
                return Outcome {
                    key: "skip:no_lc5-7_in_this_value".into(),
                    ..ok(vec![], vec![])
                };
            }
            let mut first_fail: Option<Outcome> = None;
            for e in &variants {
                let res = match dust_deserialize(dt, &e.bytes) {
                    Run::Ok(d) => match read_data(t, &d) {
                        Ok(v2) => {
                            if v2 == *v {
                                return ok(
                                    if variants.len() > 1 { vec!["two XCDR1 origin readings differ for this value"] } else { vec![] },
                                    e.used.iter().copied().collect(),
                                );
                            }
                            let d = crate::c09::first_diff(t, v, &v2);
                            (
                                "dec_fail|other_value".to_string(),
                                format!("dust-dds decodes the reference bytes to a different value, first difference at {}", d),
                                false,
                                Some(d),
                            )
                        }
                        Err(m) => ("dec_fail|other_value".to_string(), m, false, None),
                    },
                    Run::Err(er) => (format!("dec_fail|error:{}", err_class(&er)), er, false, None),
                    Run::Panic(p) => (format!("dec_panic|{}", p.sig()), format!("{} at {}", p.msg, p.location), !p.in_dust(), None),
                };
                if first_fail.is_none() {
                    let mut o = fail(res.0, res.1, &[], &e.bytes, res.2);
                    o.ref_bytes = e.bytes.clone();
                    o.diff = res.3;
                    o.constructs = e.used.iter().copied().collect();
                    first_fail = Some(o);
                }
            }
            first_fail.unwrap()
        }
    }
}

/// failure family for shrinking / signatures
pub fn family(key: &str) -> String {
    if key.starts_with("dec_fail|") {
        "dec_fail".into()
    } else if key.starts_with("enc_diff|") {
        // which enclosing header differs first depends on the embedding, not on the root cause
        "enc_diff".into()
    } else {
        key.to_string()
    }
}

fn ver_name(rep: Rep) -> &'static str {
    if rep.ver() == Ver::X1 { "XCDR1" } else { "XCDR2" }
}

fn case_json(t: &Ty, v: &Val, rep: Rep, dir: Dir) -> Json {
    Json::obj()
        .set("check", "c10")
        .set("rep", rep.name())
        .set("direction", dir.name())
        .set("type", ty_to_json(t))
        .set("value", val_to_json(t, v))
}

fn replay_case10(r: &Json) -> Result<(Ty, Val, Rep, Dir), String> {
    let (t, v, rep) = replay_case(r)?;
    let dir = Dir::from_name(r.get("direction").and_then(|x| x.as_str()).unwrap_or("encode"));
    Ok((t, v, rep, dir))
}

pub fn report_failure(rep_out: &mut Report, t: &Ty, v: &Val, rep: Rep, dir: Dir, o: &Outcome, budget: usize) {
    let fam = family(&o.key);
    let mut evals = 0usize;
    let (mt, mv, _) = minimize(t, v, budget, &mut |ct, cv| {
        evals += 1;
        let dt = build_type(ct);
        family(&evaluate(dt, ct, cv, rep, dir).key) == fam
    });
    rep_out.stat("shrink_evaluations", evals as i128);
    let dt = build_type(&mt);
    let fin = evaluate(dt, &mt, &mv, rep, dir);
    use crate::classify::{BytesFrom, DecodeCase, Probe, decode_cause, encode_cause, panic_cause};
    let unclassified = || format!("unclassified|shape={}|val={}", root_class(&mt), value_class(&mt, &mv));
    let sig = if let Some(p) = fam.strip_prefix("dec_panic|") {
        format!("xcdr_diff|dir={}|dec_panic|rep={}|cause={}", dir.name(), ver_name(rep), panic_cause(p))
    } else if fam == "enc_diff" {
        format!(
            "xcdr_diff|dir=encode|enc_diff|rep={}|cause={}",
            ver_name(rep),
            Some(vcore::unhex(&fin.dust_hex))
                .filter(|dust| !dust.is_empty())
                .and_then(|dust| encode_cause(&mt, &mv, rep, &dust))
                .map(|c| c.to_string())
                .unwrap_or_else(unclassified)
        )
    } else {
        let outcome = if fin.key.starts_with("dec_fail|error:") {
            Probe::Error
        } else {
            fin.diff.clone().map(Probe::Wrong).unwrap_or(Probe::Other)
        };
        let cause = if fam == "dec_fail" && !fin.ref_bytes.is_empty() {
            decode_cause(
                &DecodeCase {
                    wt: &mt,
                    wv: &mv,
                    rt: &mt,
                    rep,
                    bytes: &fin.ref_bytes,
                    from: if dir == Dir::DecodeOptimized { BytesFrom::RefOptimized } else { BytesFrom::RefPlain },
                    outcome,
                },
                &mut |other| crate::c09::probe_decode(dt, &mt, &mv, other),
            )
        } else {
            None
        };
        format!(
            "xcdr_diff|dir={}|{}|rep={}|cause={}",
            dir.name(),
            fam,
            ver_name(rep),
            cause.map(|c| c.to_string()).unwrap_or_else(unclassified)
        )
    };
    let what = format!(
        "{} {} {}: {} ; type {} value {} dust_bytes {} reference_bytes {}",
        rep.name(),
        dir.name(),
        fin.key,
        fin.detail,
        ty_to_json(&mt).to_string(),
        val_to_json(&mt, &mv).to_string(),
        fin.dust_hex,
        fin.ref_hex
    );
    let replay = case_json(&mt, &mv, rep, dir)
        .set("outcome", fin.key.clone())
        .set("dust_bytes_hex", fin.dust_hex.clone())
        .set("reference_bytes_hex", fin.ref_hex.clone())
        .set("original_type", ty_to_json(t))
        .set("original_value", val_to_json(t, v));
    rep_out.violation(sig, what, replay);
}

pub fn case_of(seed: u64, shard: u64, unit: u64, sub: u64) -> (Ty, Val, Rep, Dir) {
    let mut g = unit_gen(seed, shard, unit, 0xC10, GenCfg::common_subset());
    let t = g.top_type();
    let per_value = (ALL_REPS.len() * DIRS.len()) as u64;
    let vi = sub / per_value;
    let mut v = g.value(&t);
    for _ in 0..vi {
        v = g.value(&t);
    }
    let rest = sub % per_value;
    (t, v, ALL_REPS[(rest / DIRS.len() as u64) as usize], DIRS[(rest % DIRS.len() as u64) as usize])
}

fn child_units(a: &Cli, from: u64, to: u64, skip: &[(u64, u64)], journal: &mut Journal) -> Report {
    let mut rep = Report::new("C10");
    let mut shrunk: HashSet<u64> = HashSet::new();
    let mut shrinks_left = 8;
    let per_value = (ALL_REPS.len() * DIRS.len()) as u64;
    if a.shard == 0 && from == 0 {
        for (t, v) in crate::c09::canonical_rare_cases().into_iter().skip(3) {
            let dt = build_type(&t);
            for r in ALL_REPS {
                for d in DIRS {
                    let o = evaluate(dt, &t, &v, r, d);
                    if o.key.starts_with("skip:") || o.harness_problem {
                        continue;
                    }
                    rep.eval();
                    rep.stat("canonical_rare_cases", 1);
                    if o.key != "ok" {
                        report_failure(&mut rep, &t, &v, r, d, &o, 400);
                    }
                }
            }
        }
    }
    for unit in from..to {
        flush_partial(&rep, &a.out, unit);
        let mut g = unit_gen(a.seed, a.shard, unit, 0xC10, GenCfg::common_subset());
        let t = g.top_type();
        journal.announce(unit, u32::MAX as u64);
        let dt = match guarded(|| build_type(&t)) {
            Ok(d) => d,
            Err(p) => {
                rep.inconclusive(format!("building a generated type panicked: {}", p.msg));
                continue;
            }
        };
        let shape = shape_class(&t);
        rep.stat("types", 1);
        for vi in 0..VALUES_PER_TYPE {
            let v = g.value(&t);
            for (ri, r) in ALL_REPS.iter().enumerate() {
                for (di, dir) in DIRS.iter().enumerate() {
                    let sub = vi * per_value + (ri * DIRS.len() + di) as u64;
                    if skip.contains(&(unit, sub)) {
                        continue;
                    }
                    journal.announce(unit, sub);
                    let o = evaluate(dt, &t, &v, *r, *dir);
                    if o.harness_problem {
                        rep.inconclusive(format!("harness problem: {} ({})", o.key, o.detail));
                        continue;
                    }
                    if o.key.starts_with("skip:") {
                        rep.stat(&format!("{}:{}", dir.name(), o.key), 1);
                        continue;
                    }
                    rep.eval();
                    let class = o.key.split('|').next().unwrap_or("").to_string();
                    rep.stat(&format!("{}:{}", dir.name(), class), 1);
                    for n in &o.notes {
                        rep.stat(&format!("note:{n}"), 1);
                    }
                    for c in &o.constructs {
                        rep.set("constructs_exercised", *c);
                    }
                    let mut cs = o.constructs.clone();
                    cs.sort();
                    rep.nontrivial(fnv_str(&format!("{}|{}|{}|{:?}", r.name(), dir.name(), o.key, cs)));
                    rep.set("shape_classes_seen_hash", format!("{:x}", fnv_str(&shape) % 4096));
                    if o.key == "ok" {
                        if unit % 16 == 1 && vi == 0 && *r == Rep::X2LE && *dir == Dir::Encode {
                            rep.sample(case_json(&t, &v, *r, *dir).set("outcome", "ok: dust bytes == reference bytes"));
                        }
                        continue;
                    }
                    rep.set("failure_classes", o.key.clone());
                    let coarse = fnv_str(&format!("{}|{:?}|{}|{}", shape, r.ver(), dir.name(), family(&o.key)));
                    if shrunk.insert(coarse) {
                        if skip.contains(&(unit, sub | SHRINK_FLAG)) {
                            rep.stat("failures_not_minimized(a shrink candidate kills the process)", 1);
                        } else if shrinks_left > 0 {
                            shrinks_left -= 1;
                            journal.announce(unit, sub | SHRINK_FLAG);
                            report_failure(&mut rep, &t, &v, *r, *dir, &o, 3000);
                        } else {
                            rep.stat("failures_not_minimized(shrink budget)", 1);
                        }
                    }
                }
            }
        }
    }
    rep
}

fn report_death(rep: &mut Report, dir: &str, t: &Ty, v: &Val, r: Rep, d: Dir, death_class: &str, detail: &str, probes_allowed: usize) {
    let mut probes = 0;
    let (mt, mv, _) = minimize(t, v, probes_allowed, &mut |ct, cv| {
        probes += 1;
        probe("c10", &case_json(ct, cv, r, d), dir) == death_class
    });
    rep.stat("shrink_probe_children", probes);
    let sig = death_sig(d, death_class, r);
    let what = format!(
        "{} {} {}: process died while dust-dds decoded reference bytes: {} ; type {} value {}",
        r.name(),
        d.name(),
        death_class,
        detail,
        ty_to_json(&mt).to_string(),
        val_to_json(&mt, &mv).to_string()
    );
    rep.violation(sig, what, case_json(&mt, &mv, r, d).set("outcome", death_class));
}

/// No known finding kills the process any more (905bdfe, b28f9ea): a death is never classified.
fn death_sig(d: Dir, death_class: &str, r: Rep) -> String {
    format!(
        "xcdr_diff|dir={}|{}|rep={}|cause=unclassified",
        d.name(),
        crate::c09::death_kind(death_class).replace("de_", "dec_"),
        ver_name(r)
    )
}

pub fn trusted_base(rep: &mut Report) -> bool {
    let c = crate::calib::run();
    rep.set(
        "trusted_base",
        format!(
            "reference encoder/decoder harness/xcdr/src/refenc.rs (DDS-XTypes 1.3 7.4.3.5.3 rules as quoted in serializer.rs doc comments), calibrated on {} repository byte vectors + {} key-hash vectors; {} repository expectations adjudicated as contradicting the rule text",
            c.passed, c.key_passed, c.diverged_as_adjudicated
        ),
    );
    rep.maxstat("calibration_vectors_reproduced", c.passed as i128);
    rep.maxstat("calibration_key_vectors_reproduced", c.key_passed as i128);
    rep.maxstat("calibration_adjudicated_divergences", c.diverged_as_adjudicated as i128);
    if !c.failures.is_empty() {
        rep.inconclusive(format!("reference encoder fails its calibration: {}", c.failures.join(" ; ")));
        return false;
    }
    true
}

pub fn run(a: &Cli) -> Report {
    if a.args.has("child") {
        if a.args.has("probe") {
            let txt = std::fs::read_to_string(a.args.str("probe", "")).unwrap_or_default();
            let mut rep = Report::new("C10");
            let key = match Json::parse(&txt).map_err(|e| e.to_string()).and_then(|j| replay_case10(&j)) {
                Ok((t, v, r, d)) => {
                    let dt = build_type(&t);
                    let o = evaluate(dt, &t, &v, r, d);
                    if a.args.has("full") && o.key != "ok" && !o.key.starts_with("skip:") && !o.harness_problem {
                        report_failure(&mut rep, &t, &v, r, d, &o, 3000);
                    }
                    o.key
                }
                Err(e) => format!("harness:{e}"),
            };
            let j = rep.to_json().set("key", key);
            let _ = std::fs::write(&a.out, j.to_string());
            std::process::exit(0);
        }
        let from = a.args.u64("from", 0);
        let to = a.args.u64("to", 0);
        let skip = parse_skip(&a.args.str("skip", "none"));
        let mut journal = Journal::open(&a.args.str("journal", ""));
        return child_units(a, from, to, &skip, &mut journal);
    }
    let mut rep = Report::new("C10");
    if !trusted_base(&mut rep) {
        return rep;
    }
    let dir = scratch_dir(a, "c10p");
    if let Some(w) = &a.replay {
        for wj in w {
            let r = wj.get("replay").cloned().unwrap_or(Json::Null);
            let (t, v, rp, d) = match replay_case10(&r) {
                Ok(x) => x,
                Err(e) => {
                    rep.inconclusive(format!("replay file: {e}"));
                    continue;
                }
            };
            let key = probe("c10", &r, &dir);
            rep.eval();
            rep.nontrivial(fnv_str(&format!("{}|{}|{}", rp.name(), d.name(), key)));
            rep.sample(Json::obj().set("replayed", r.clone()).set("outcome", key.clone()));
            if key.starts_with("abort") || key.starts_with("hang") {
                report_death(&mut rep, &dir, &t, &v, rp, d, &key, "replayed witness", 20);
            } else if key != "ok" && !key.starts_with("harness") && !key.starts_with("skip:") && key != "wall" {
                let f = format!("{}/replay.json", dir);
                let _ = std::fs::write(&f, r.to_string());
                let res = run_child(
                    "c10",
                    &["--probe".into(), f, "--full".into()],
                    &dir,
                    "replayfull",
                    std::time::Duration::from_secs(60),
                );
                match res.report {
                    Some(j) => merge_report(&mut rep, &j),
                    None => rep.violation(
                        wj.get("sig").and_then(|x| x.as_str()).unwrap_or("xcdr_diff|unminimized").to_string(),
                        format!("replayed witness still fails with {}", key),
                        r.clone(),
                    ),
                }
            }
        }
        let _ = std::fs::remove_dir_all(&dir);
        return rep;
    }
    let per_shard = (a.cases / a.nshards.max(1)).max(1);
    let per_type = VALUES_PER_TYPE * (ALL_REPS.len() * DIRS.len()) as u64;
    let units = (per_shard / per_type).max(1);
    let (seed, shard) = (a.seed, a.shard);
    let dir2 = dir.clone();
    supervise("c10", a, &mut rep, units, 40, &mut |unit, sub, death, rep| {
        if sub & SHRINK_FLAG != 0 || sub == u32::MAX as u64 {
            rep.stat("deaths_while_shrinking_or_building", 1);
            return;
        }
        let (t, v, r, d) = case_of(seed, shard, unit, sub);
        rep.eval();
        rep.stat(&format!("{}:{}", d.name(), death.class()), 1);
        rep.nontrivial(fnv_str(&format!("{}|{}|{}", r.name(), d.name(), death.class())));
        let sig = death_sig(d, &death.class(), r);
        let seen = rep.violation_counts.get(&sig).copied().unwrap_or(0);
        let probes = if seen >= 2 {
            0
        } else if matches!(death, Death::Hang) {
            0
        } else {
            20
        };
        report_death(rep, &dir2, &t, &v, r, d, &death.class(), &death.detail(), probes);
    });
    let _ = std::fs::remove_dir_all(&dir);
    rep
}
